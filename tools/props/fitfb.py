"""Correspondence scenarios for coq/model/FitFb.v (OFFLINE fitting of models that contain feedback connections, and ESN.fit),
shared by C06 and C05.

terms(ctx, n) generates n seeded scenarios - a feedback receiver (x + c*feedback node, or a Reservoir with Wfb) fed back by the ridge
readout it feeds (loop), a deep model R1 >> ro1 >> R2 >> ro2 with crossing feedback (R1 <<= ro2, R2 <<= ro1: two stages), an
upstream node sender, an upstream SUB-MODEL sender, and the ESN node (feedback=True, hand-wired `reservoir <<= readout`, or no
feedback) - with 1-2 sequences, warm-up 0-1, force_teachers on/off, reset on/off; runs Model.fit / ESN.fit on the real library with
every forward node's `_forward` wrapped so that every output it produces during the fit is recorded (in call order: stages,
sequences, timesteps), and prints `chk_fit_fb` / `chk_esn_fit` terms for coq/run/RunC06.v: staging, every recorded output of every
forward node (hence every feedback value it was handed) and Wout / bias of every readout are compared with the model at F := Q."""
import itertools
from fractions import Fraction

import numpy as np

from vlib import core, scen, scengen
from vlib.core import q, qvec, qmat, nat, coqbool, coqlist

IMPORTS = ("From Coq Require Import List QArith.\n"
           "From RV Require Import base.Num base.LA model.ModelSem model.Kinds model.Ridge model.FitSem model.FitFb run.RunC06.\n"
           "Import ListNotations.\nOpen Scope Q_scope.")
TRUSTED = ["Model.fit of models with feedback connections and ESN.fit are modelled in coq/model/FitFb.v (forward nodes executed step by step by "
           "ModelSem.forward, proxies / clamps over the complete model, forced feedback = targets of ALL offline nodes shifted by one step, "
           "zero at the first step of each sequence; ridge solved exactly) and tied to /repo by run/RunC06.v chk_fit_fb / chk_esn_fit on seeded "
           "scenarios (tools/props/fitfb.py).  Observation hook: the `_forward` attribute of every forward node is wrapped to record its outputs. "
           "Not modelled: stateful=False, from_state, a readout that itself receives feedback, sub-model senders whose nodes are run in different "
           "stages (their `_fb_flag`s disagree), a second fit of the same model with feedback"]
ASSUMPTIONS = ["fit-with-feedback scenarios: fresh models, dims <= 2, reservoirs of 2 units (contractive unless hard-tanh), <= 2 sequences of <= 4 steps, "
               "ridge in [1/4, 4], feedback gains dyadic <= 1: float64 agrees with the exact rational run to 1e-9 relative"]
FAMILIES = ["loop", "loop-in", "deep-cross", "up", "sub-up", "esn", "esn"]
_uid = itertools.count()
RIDGES = [Fraction(1, 4), Fraction(1, 2), Fraction(1), Fraction(2), Fraction(4)]


def fl(rows):
    return np.array([[float(Fraction(v)) for v in r] for r in rows], dtype=float).reshape(len(rows), -1)


def rows(rng, T, dim, lim=4, maxpow=1):
    return [[str(core.dyadic(rng, lim, maxpow)) for _ in range(dim)] for _ in range(T)]


def _recv(rng, i, name, idim, fbdim, fb):
    """feedback receiver: out = x + c * fb (needs fbdim == idim) or a Reservoir with Wfb"""
    if fbdim == idim and rng.random() < 0.45:
        nd = scengen.make_node(rng, i, "fbadd", idim)
        nd["c"] = str(rng.choice([Fraction(1, 2), Fraction(-1, 2), Fraction(1, 4), Fraction(1)]))
    else:
        nd = scengen.make_node(rng, i, "res", idim)
        u = 2
        nd.update(W=scengen.mat(rng, u, u, 2, 2), Win=scengen.mat(rng, u, idim, 2, 1), bias=[scengen.dy(rng, 2, 1) for _ in range(u)],
                  lr=[str(Fraction(rng.randint(1, 4), 4))] * u, odim=u)
        if nd["act"] != "hardtanh":
            nd["W"] = [[str(Fraction(v) / 8) for v in r] for r in nd["W"]]
        nd.update(kind="resfb", Wfb=scengen.mat(rng, u, fbdim, 2, 1), fbact=rng.choice(["id", "relu", "half"]))
    nd["name"] = name
    nd["fb"] = fb
    return nd


def _ridge(rng, i, name, out):
    return {"id": i, "name": name, "kind": "ridge", "ridge": str(rng.choice(RIDGES)), "bias": rng.random() < 0.7, "odim": out}


def _fun(rng, i, name, d, kind=None):
    nd = scengen.make_node(rng, i, kind or rng.choice(["fun", "acc"]), d)
    nd["name"] = name
    if nd["kind"] == "fun":
        nd["a"] = str(rng.choice([Fraction(1, 2), Fraction(-1, 2), Fraction(1), Fraction(1, 4)]))
    return nd


def gen_scenario(rng, tag, family=None):
    fam = family or rng.choice(FAMILIES)
    d, o = rng.randint(1, 2), rng.randint(1, 2)
    esn = None
    if fam == "loop":
        r = _recv(rng, 0, "a_rcv", d, o, {"node": 1})
        nodes, edges = [r, _ridge(rng, 1, "b_rd", o)], [[0, 1]]
    elif fam == "loop-in":
        r = _recv(rng, 1, "b_rcv", d, o, {"node": 2})
        nodes, edges = [{"id": 0, "name": "a_in", "kind": "input", "idim": d, "odim": d}, r, _ridge(rng, 2, "c_rd", o)], [[0, 1], [1, 2]]
    elif fam == "deep-cross":
        o = 1 if rng.random() < 0.6 else o
        r1 = _recv(rng, 0, "a_R1", d, o, {"node": 3})
        r2 = _recv(rng, 2, "c_R2", o, o, {"node": 1})
        nodes = [r1, _ridge(rng, 1, "b_ro1", o), r2, _ridge(rng, 3, "d_ro2", o)]
        edges = [[0, 1], [1, 2], [2, 3]]
    elif fam == "up":
        src = _fun(rng, 0, "a_src", d)
        r = _recv(rng, 1, "b_rcv", d, d, {"node": 0})
        nodes, edges = [src, r, _ridge(rng, 2, "c_rd", o)], [[0, 1], [1, 2]]
    elif fam == "sub-up":
        f0, f1 = _fun(rng, 0, "a_f0", d, "fun"), _fun(rng, 1, "b_f1", d)
        r = _recv(rng, 2, "c_rcv", d, d, {"model": {"nodes": [0, 1], "edges": [[0, 1]], "outs": [1]}})
        nodes, edges = [f0, f1, r, _ridge(rng, 3, "d_rd", o)], [[0, 1], [1, 2], [2, 3]]
    elif fam == "esn":
        esn = rng.choice(["feedback-flag", "handwired", "plain"])
        if esn == "plain":
            r = scengen.make_node(rng, 0, "res", d)
            r["name"] = "a_res"
            if r["act"] != "hardtanh":
                r["W"] = [[str(Fraction(v) / 8) for v in rr] for rr in r["W"]]
        else:
            r = _recv(rng, 0, "a_res", d, o, {"node": 1})
            while r["kind"] != "resfb":
                r = _recv(rng, 0, "a_res", d, o, {"node": 1})
        nodes, edges = [r, _ridge(rng, 1, "b_rd", o)], [[0, 1]]
    else:
        raise ValueError(fam)
    warm = rng.choice([0, 0, 1])
    J = rng.choice([1, 2, 2])
    lens = [warm + rng.randint(2, 3) for _ in range(J)]
    ridges = [n["id"] for n in nodes if n["kind"] == "ridge"]
    sc = {"kind": "fitfb", "tag": str(tag), "family": fam, "esn": esn, "nodes": nodes, "edges": edges, "din": d,
          "X": [rows(rng, T, d) for T in lens], "Y": {str(i): [rows(rng, T, o) for T in lens] for i in ridges},
          "warmup": warm, "force": True if esn else rng.random() < 0.65, "reset": True if esn else rng.random() < 0.4,
          "aslist": J > 1 or rng.random() < 0.3}
    return sc


# ------------------------------------------------------------------------------------------ real library
class Built:
    def __init__(self, sc):
        import reservoirpy
        reservoirpy.verbosity(0)
        from reservoirpy.model import Model
        from reservoirpy.nodes import ESN, Ridge
        self.sc = sc
        self.prefix = "ffb%d" % next(_uid)
        self.nodes = {}
        for nd in sc["nodes"]:
            if nd["kind"] == "ridge":
                self.nodes[nd["id"]] = Ridge(ridge=float(Fraction(nd["ridge"])), input_bias=nd["bias"], name="%s_%s" % (self.prefix, nd["name"]))
            else:
                self.nodes[nd["id"]] = scen.build_node(nd, self.prefix)
        self.log = {i: [] for i, nd in ((n["id"], n) for n in sc["nodes"])}
        for i, node in self.nodes.items():
            self._wrap(i, node)
        handwired = sc.get("esn") == "handwired"
        for nd in sc["nodes"]:
            fb = nd.get("fb")
            if fb is None or sc.get("esn") == "feedback-flag":
                continue
            if "node" in fb:
                sender = self.nodes[fb["node"]]
            else:
                sender = Model([self.nodes[i] for i in fb["model"]["nodes"]], [(self.nodes[a], self.nodes[b]) for a, b in fb["model"]["edges"]],
                               name="%s_fbm%d" % (self.prefix, nd["id"]))
            self.nodes[nd["id"]] <<= sender
        if sc.get("esn"):
            self.model = ESN(reservoir=self.nodes[0], readout=self.nodes[1], feedback=(sc["esn"] == "feedback-flag"), workers=1,
                             name="%s_esn" % self.prefix)
        else:
            self.model = Model([self.nodes[nd["id"]] for nd in sc["nodes"]], [(self.nodes[a], self.nodes[b]) for a, b in sc["edges"]],
                               name="%s_m" % self.prefix)
        self.ids = {n.name: i for i, n in self.nodes.items()}
        if any(n.name not in self.ids for n in self.model.nodes):
            raise RuntimeError("unexpected inserted node")

    def _wrap(self, i, node):
        orig, log = node._forward, self.log[i]

        def fwd(n, x, *a, **kw):
            out = orig(n, x, *a, **kw)
            log.append(np.asarray(out, dtype=float).ravel().tolist())
            return out
        node._forward = fwd

    def graph(self):
        m = self.model
        order = [self.ids[n.name] for n in m.nodes]
        es = sorted(list(m.edges), key=lambda e: e[0].name + e[1].name)
        return order, [(self.ids[a.name], self.ids[b.name]) for a, b in es]

    def staging(self):
        from reservoirpy.utils.graphflow import get_offline_subgraphs
        m = self.model
        out = []
        for (nodes, edges), rel in get_offline_subgraphs(m.nodes, m.edges):
            es = sorted(list(edges), key=lambda e: e[0].name + e[1].name)
            out.append({"nodes": [self.ids[n.name] for n in nodes], "edges": [[self.ids[a.name], self.ids[c.name]] for a, c in es],
                        "rel": [[self.ids[k], [self.ids[c] for c in v]] for k, v in rel.items()]})
        return out


def run_real(sc):
    b = Built(sc)
    order, edges = b.graph()
    stg = b.staging()
    seqs = [fl(s) for s in sc["X"]]
    X = seqs if sc["aslist"] else seqs[0]
    Y = {b.nodes[int(i)].name: ([fl(s) for s in v] if sc["aslist"] else fl(v[0])) for i, v in sc["Y"].items()}
    ok, err = True, None
    try:
        if sc.get("esn"):
            b.model.fit(X, Y, warmup=sc["warmup"])
        else:
            b.model.fit(X, Y, warmup=sc["warmup"], force_teachers=sc["force"], reset=sc["reset"])
    except Exception as e:  # noqa: BLE001
        ok, err = False, "%s: %s" % (type(e).__name__, e)
    par = {}
    if ok:
        for nd in sc["nodes"]:
            if nd["kind"] == "ridge":
                n = b.nodes[nd["id"]]
                par[nd["id"]] = {"W": np.asarray(n.Wout).tolist(), "b": np.asarray(n.bias).ravel().tolist()}
    return b, {"ok": ok, "err": err, "order": order, "edges": edges, "staging": stg, "params": par,
               "traj": {i: l for i, l in b.log.items() if l}, "inputs": [b.ids[n.name] for n in b.model.input_nodes]}


# ------------------------------------------------------------------------------------------ Gallina
def _fn_term(nd):
    if nd["kind"] == "ridge":
        return "(mkFN %s None None %s)" % (nat(nd["id"]), nat(nd["odim"]))
    fb = nd.get("fb")
    if fb is None:
        fbt = "None"
    elif "node" in fb:
        fbt = "(Some (FbNode %s))" % nat(fb["node"])
    else:
        fbt = "(Some (FbModel %s))" % coqlist([nat(i) for i in fb["model"]["outs"]])
    return "(mkFN %s (Some %s) %s %s)" % (nat(nd["id"]), scen.kind_term(nd), fbt, nat(nd["odim"]))


def _rd_term(nd):
    return "(mkRD %s %s %s %s)" % (nat(nd["id"]), coqbool(nd["bias"]), q(nd["ridge"]), nat(nd["odim"]))


def to_coq(sc, b, o):
    if not o["ok"]:
        return "false"
    nd = {n["id"]: n for n in sc["nodes"]}
    qd = lambda seqs: coqlist([qmat(s) for s in seqs])
    X = coqlist(["(%s, %s)" % (nat(i), qd(sc["X"])) for i in o["inputs"]])
    Y = coqlist(["(%s, %s)" % (nat(int(i)), qd(v)) for i, v in sorted(sc["Y"].items(), key=lambda p: int(p[0]))])
    lens = coqlist([nat(len(s)) for s in sc["X"]])
    if sc.get("esn"):
        p = o["params"][1]
        return "chk_esn_fit %s %s %s %s %s %s %s %s %s %s" % (_fn_term(nd[0]), _fn_term(nd[1]), _rd_term(nd[1]), X, Y, nat(sc["warmup"]), lens,
                                                              qmat(o["traj"].get(0, [])), qmat(p["W"]), qvec(p["b"]))
    offl = [i for i in o["order"] if nd[i]["kind"] == "ridge"]
    g = "(mkG %s %s %s)" % (coqlist([nat(i) for i in o["order"]]), coqlist(["(%s, %s)" % (nat(a), nat(c)) for a, c in o["edges"]]),
                            coqlist([nat(i) for i in offl]))
    stg = coqlist(["(mkStage %s %s %s)" % (coqlist([nat(i) for i in s["nodes"]]), coqlist(["(%s, %s)" % (nat(a), nat(c)) for a, c in s["edges"]]),
                                           coqlist(["(%s, %s)" % (nat(k), coqlist([nat(c) for c in v])) for k, v in s["rel"]]))
                   for s in o["staging"]])
    traj = coqlist(["(%s, %s)" % (nat(i), qmat(l)) for i, l in sorted(o["traj"].items())])
    obs = coqlist(["(%s, (%s, %s))" % (nat(i), qmat(p["W"]), qvec(p["b"])) for i, p in sorted(o["params"].items())])
    return "chk_fit_fb %s %s %s %s %s %s %s %s %s %s %s %s" % (
        coqlist([_fn_term(nd[i]) for i in o["order"]]), coqlist([_rd_term(nd[i]) for i in offl]), g, X, Y, nat(sc["warmup"]),
        coqbool(sc["force"]), coqbool(sc["reset"]), lens, stg, traj, obs)


# ------------------------------------------------------------------------------------------ API
def terms(ctx, n):
    rng = ctx.rng("fitfb")
    ts, keep, nt, dist = [], [], set(), {}
    for i in range(n):
        sc = gen_scenario(rng, "%d_%d" % (ctx.seed, i), FAMILIES[i % len(FAMILIES)])
        try:
            b, o = run_real(sc)
            ts.append(to_coq(sc, b, o))
        except Exception as e:  # noqa: BLE001
            ts.append("false")
            keep.append({"kind": "fitfb", "scenario": scen.jsonable(sc), "harness_error": repr(e)})
            continue
        keep.append({"kind": "fitfb", "scenario": scen.jsonable(sc), "observed": scen.jsonable(o)})
        key = "%s%s:%s" % (sc["family"], "/" + sc["esn"] if sc.get("esn") else "", "forced" if sc["force"] else "unforced")
        dist[key] = dist.get(key, 0) + 1
        if o["ok"] and any(abs(v) > 1e-6 for p in o["params"].values() for r in p["W"] for v in r):
            nt.add(repr(scen.jsonable(sc)))
    stats = {"evaluations": n, "distinct_nontrivial": len(nt), "distribution": dist,
             "rule": "Model.fit / ESN.fit of models with feedback: {receiver<-own readout, with Input, deep with crossing feedback (2 stages), upstream node "
                     "sender, upstream sub-model sender, ESN feedback=True / hand-wired / plain} x {1-2 sequences, warm-up 0-1, force_teachers on/off, "
                     "reset on/off}; compared: staging, every output of every forward node in call order, Wout / bias; non-trivial = a non-zero Wout entry"}
    return ts, keep, stats


def run(ctx, n):
    ts, keep, stats = terms(ctx, n)
    ok, log, bad = core.compile_cone(core.coq_cone("run/RunC06.v"))
    if not ok:
        return dict(stats, failing=[], error="coqc failed on %s:\n%s" % (bad, log[-1500:]))
    failing, err = core.run_cases(ctx.pid + "_fitfb", IMPORTS, ts, chunk=4)
    return dict(stats, failing=[dict(keep[i], index="fitfb:%d" % i) for i in failing], error=err)


def replay(payload):
    sc = payload["scenario"]
    b, o = run_real(sc)
    failing, err = core.run_cases("replay_fitfb", IMPORTS, [to_coq(sc, b, o)])
    return {"violates": bool(failing) or bool(err), "detail": err or ("model and implementation disagree" if failing else None)}
