"""C10 — iterative learning rules (RLS, LMS, FORCE aliases, intrinsic plasticity) and the online train loop:
correspondence with model/Online.v and implementation oracle."""
import json
import warnings
from fractions import Fraction

import numpy as np

from vlib import core
from vlib.core import q, qmat, qvec, nat, coqbool, coqlist

IMPORTS_GEN = ("From Coq Require Import List QArith.\nFrom RV Require Import base.Num base.LA model.Online run.RunC10 run.RunGenC10.\n"
               "Import ListNotations.\nOpen Scope Q_scope.")
IMPORTS = ("From Coq Require Import List QArith.\nFrom RV Require Import base.Num base.LA model.Online run.RunC10.\n"
           "Import ListNotations.\nOpen Scope Q_scope.")
TRUSTED = [
    "IP correspondence: tanh / sigmoid are not evaluated in Coq; the recorded activation value y of every reservoir call is an "
    "input of the model step (the gradient kernels are rational in y) and the model is re-synchronised on the observed a, b, "
    "state after each checked step; the relation y = f(a*x+b) is checked by the Python oracle with numpy's tanh/exp",
    "oracle: fractions.Fraction Gaussian elimination for the batch ridge solution; numpy float64 for the explicit LMS/IP loops",
    "observation hooks: a counting iterator passed as LMS alpha; a wrapper around IPReservoir._forward recording "
    "(internal_state, output, a, b) at every call",
]
ASSUMPTIONS = [
    "inputs/targets/weights are small dyadic rationals; RLS alpha in [1/4, 4] (well conditioned), LMS rates <= 1/8 with |x| <= 2 (stable), "
    "so float64 agrees with exact arithmetic to far better than the 1e-9 relative tolerance",
    "default zero initial Wout / bias (the property is stated from zero weights); noise gains 0 in IPReservoir",
    "a learning-rate iterator is long enough not to be exhausted",
]

_uid = [0]


def uname(prefix):
    _uid[0] += 1
    return "c10_%s_%d" % (prefix, _uid[0])


def rpy():
    import reservoirpy
    reservoirpy.verbosity(0)
    return reservoirpy


def ff(v):
    return float(Fraction(v))


def farr(rows):
    return np.array([[float(Fraction(v)) for v in r] for r in rows], dtype=float).reshape(len(rows), -1)


def jsonable(c):
    return json.loads(json.dumps(c, default=lambda f: str(f)))


class CountIter:
    """An iterator over explicit learning rates that counts how many were drawn."""

    def __init__(self, vals):
        self.vals, self.n = [float(Fraction(v)) for v in vals], 0

    def __iter__(self):
        return self

    def __next__(self):
        if self.n >= len(self.vals):
            raise StopIteration
        v = self.vals[self.n]
        self.n += 1
        return v


# ------------------------------------------------------------------------------------------ scenarios
def rows(rng, T, dim, lim=8, maxpow=2):
    return [[core.dyadic(rng, lim, maxpow) for _ in range(dim)] for _ in range(T)]


def gen_readout(rng, i, model=False):
    rule = ["rls", "lms"][i % 2]
    cls = "FORCE" if rng.random() < 0.25 else rule.upper()
    idim, odim = rng.randint(1, 3), rng.randint(1, 2)
    ncalls = rng.choice([1, 1, 2, 2, 3])
    lens = [rng.choice([1, 1, 2, 3, 4, 5, 6]) for _ in range(ncalls)]
    k = rng.choice([1, 1, 2, 2, 3, 4])
    xl = 8 if rule == "rls" else 2
    calls = [{"X": rows(rng, T, idim, xl, 2), "Y": rows(rng, T, odim, 4, 2)} for T in lens]
    # histories with train calls that RAISE between / before the valid ones: targets forgotten, wrong target width,
    # wrong input width.  Such a call performs no update and must not draw from the learning-rate schedule.
    nfail = 0
    if rng.random() < 0.35:
        for _ in range(rng.choice([1, 1, 2])):
            pos = rng.randint(0, len(calls))
            valid_before = any(not cl.get("fail") for cl in calls[:pos])
            kind = rng.choice(["noY", "noY", "ywidth", "xwidth"]) if valid_before else "noY"
            T = rng.choice([1, 2, 3])
            bad = {"fail": kind,
                   "X": rows(rng, T, idim + (1 if kind == "xwidth" else 0), xl, 2),
                   "Y": None if kind == "noY" else rows(rng, T, odim + (1 if kind == "ywidth" else 0), 4, 2)}
            calls.insert(pos, bad)
            nfail += 1
    c = {"kind": rule, "cls": cls, "bias": rng.random() < 0.6, "idim": idim, "odim": odim, "k": k, "calls": calls}
    # Model-level histories: (Input | Reservoir) >> readout trained with successive Model.train calls; learn_every > 1,
    # call lengths not multiples of learn_every and one-timestep calls (the gate restarts at every call)
    if model:
        nfail = 0
        c["k"] = k = rng.choice([2, 2, 3, 3, 4])
        ncalls = rng.choice([2, 2, 3, 4])
        lens = [rng.choice([1, 1] + [t for t in range(2, 8) if t % k != 0]) for _ in range(ncalls)]
        c["calls"] = [{"X": rows(rng, T, idim, xl, 2), "Y": rows(rng, T, odim, 4, 2)} for T in lens]
        if rng.random() < 0.5:
            c["model"] = {"feat": "input"}
        else:
            units = rng.randint(1, 3)
            c["model"] = {"feat": "reservoir", "units": units, "W": rows(rng, units, units, 4, 2), "Win": rows(rng, units, idim, 4, 2),
                          "rbias": [core.dyadic(rng, 4, 2) for _ in range(units)], "lr": rng.choice([Fraction(1), Fraction(1, 2), Fraction(3, 4)])}
    # a hyper-parameter changed between construction and first use (template.copy() + set_param in a sweep, attribute
    # assignment, hypers dict): the value held at first use is the one that counts.  RLS / FORCE(rls): alpha.
    # LMS / FORCE(lms): HEAD builds the rate generator at construction, so only a replaced _alpha_gen is demanded.
    if rng.random() < 0.3:
        c["preset"] = {"how": rng.choice(["attr", "set_param", "hypers", "copy+set_param", "copy+attr"]) if rule == "rls"
                       else rng.choice(["set_param", "copy+set_param"]),
                       "ctor": rng.choice([Fraction(1, 8), Fraction(8), Fraction(16), Fraction(3)])}
    if rule == "rls":
        c["alpha"] = rng.choice([Fraction(1, 4), Fraction(1, 2), Fraction(1), Fraction(2), Fraction(4), Fraction(3, 4)])
    else:
        rate = lambda: rng.choice([Fraction(1, 8), Fraction(1, 16), Fraction(1, 32), Fraction(3, 32), Fraction(1, 64)])
        if nfail or c.get("preset") or rng.random() < 0.6:
            # explicit schedule (passed as an iterator), consecutive entries distinct so that a shifted cursor shows
            sch = []
            while len(sch) < sum(len(cl["X"]) for cl in c["calls"]) + 3 * nfail + 2:
                v = rate()
                if not sch or v != sch[-1]:
                    sch.append(v)
            c["alpha"] = sch
        else:
            c["alpha"] = rate()
    return c


def gen_ip(rng, i):
    units, idim = rng.randint(1, 3), rng.randint(1, 2)
    act = ["tanh", "sigmoid"][(i // 4) % 2]      # i % 4 == 3 for every IP scenario: alternate on the IP index, not on i
    nseq = rng.choice([1, 1, 2, 3])
    lens = [rng.randint(1, 4) for _ in range(nseq)]
    warm = rng.choice([0, 0, 0, 1]) if min(lens) >= 2 else 0
    return {"kind": "ip", "units": units, "idim": idim, "activation": act,
            "W": rows(rng, units, units, 4, 2), "Win": rows(rng, units, idim, 4, 2), "bias": [core.dyadic(rng, 4, 2) for _ in range(units)],
            "lr": rng.choice([Fraction(1), Fraction(1), Fraction(1, 2), Fraction(1, 4), Fraction(3, 4)]),
            "mu": (rng.choice([Fraction(1, 8), Fraction(1, 4), Fraction(1, 2), Fraction(3, 4)]) if act == "sigmoid"
                   else rng.choice([Fraction(1, 4), Fraction(-1, 4), Fraction(1, 2), Fraction(-1, 2), Fraction(1, 8), Fraction(0)])),
            "sigma": rng.choice([Fraction(1, 2), Fraction(1), Fraction(2), Fraction(1, 4)]),
            "eta": rng.choice([Fraction(1, 8), Fraction(1, 16), Fraction(1, 64), Fraction(1, 4)]),
            "epochs": rng.randint(1, 3), "warmup": warm,
            "seqs": [rows(rng, T, idim, 4, 2) for T in lens]}


def gen_cases(rng, n):
    out = []
    for i in range(n):
        out.append(gen_ip(rng, i) if i % 4 == 3 else gen_readout(rng, i, model=(i % 8 in (5, 6))))
    return out


# ------------------------------------------------------------------------------------------ real library
def make_readout(c, schedule_as="iterator"):
    rpy()
    from reservoirpy.nodes import FORCE, LMS, RLS
    alpha, counter = c["alpha"], None
    if isinstance(alpha, list):
        if schedule_as == "iterator":
            counter = CountIter(alpha)
            alpha_arg = counter
        else:
            alpha_arg = [float(Fraction(v)) for v in alpha]
    else:
        alpha_arg = float(Fraction(alpha))
    pre = c.get("preset")
    final_arg = alpha_arg
    if pre:                               # constructed with another value, changed before first use
        alpha_arg = ff(pre["ctor"])

    def build(a, nm):
        if c["cls"] == "FORCE":
            with warnings.catch_warnings():
                warnings.simplefilter("ignore")
                return FORCE(alpha=a, rule=c["kind"], input_bias=c["bias"], name=uname("force" + nm))
        if c["cls"] == "RLS":
            return RLS(alpha=a, input_bias=c["bias"], name=uname("rls" + nm))
        return LMS(alpha=a, input_bias=c["bias"], name=uname("lms" + nm))
    node = build(alpha_arg, "")
    if pre:
        how = pre["how"]
        if how.startswith("copy+"):
            node = node.copy(name=uname("swept"))
            how = how[5:]
        if c["kind"] == "rls":
            if how == "attr":
                node.alpha = final_arg
            elif how == "set_param":
                node.set_param("alpha", final_arg)
            else:
                node.hypers["alpha"] = final_arg
        else:
            node.set_param("_alpha_gen", final_arg if counter is not None else iter(final_arg))
    return node, counter


def make_model(c, node):
    from reservoirpy.nodes import Input, Reservoir
    m = c["model"]
    if m["feat"] == "input":
        feat = Input(name=uname("src"))
    else:
        feat = Reservoir(m["units"], lr=ff(m["lr"]), W=farr(m["W"]), Win=farr(m["Win"]), bias=farr([[v] for v in m["rbias"]]),
                         activation=lambda x: np.clip(x, -1, 1), name=uname("res"))
    return feat, feat >> node


def run_model(c):
    node, counter = make_readout(c)
    feat, model = make_model(c, node)
    obs = []
    for call in c["calls"]:
        st = model.train(farr(call["X"]), farr(call["Y"]), learn_every=c["k"], return_states="all")
        obs.append({"raised": None, "feat": np.asarray(st[feat.name]).tolist(), "out": np.asarray(st[node.name]).tolist(),
                    "W": np.asarray(node.Wout).tolist(), "b": np.asarray(node.bias).ravel().tolist(),
                    "P": np.asarray(node.P).tolist() if c["kind"] == "rls" else [],
                    "cur": counter.n if counter is not None else None})
    return {"calls": obs}


def eff(c, o):
    """The (x, y) samples the readout saw: the scenario's for a node, the observed feature-node states for a Model."""
    if not c.get("model"):
        return c["calls"], c["idim"]
    calls = [{"X": ob["feat"], "Y": call["Y"]} for call, ob in zip(c["calls"], o["calls"])]
    return calls, (c["idim"] if c["model"]["feat"] == "input" else c["model"]["units"])


def run_readout(c):
    if c.get("model"):
        return run_model(c)
    node, counter = make_readout(c)
    obs = []
    for call in c["calls"]:
        raised = None
        if call.get("fail"):
            try:
                out = node.train(farr(call["X"]), None if call["Y"] is None else farr(call["Y"]), learn_every=c["k"])
            except Exception as e:
                raised, out = repr(e), []
        else:
            out = node.train(farr(call["X"]), farr(call["Y"]), learn_every=c["k"])
        if node.Wout is None:          # a call that failed before the node was ever initialised: still the fresh node
            n_in = c["idim"] + (1 if c["bias"] else 0)
            obs.append({"out": [], "W": [[0.0] * c["odim"]] * c["idim"], "b": [0.0] * c["odim"],
                        "P": [[(1.0 / ff(c["alpha"])) if i == j else 0.0 for j in range(n_in)] for i in range(n_in)] if c["kind"] == "rls" else [],
                        "cur": counter.n if counter is not None else None, "raised": raised, "fresh": True})
            continue
        obs.append({"raised": raised, "out": np.asarray(out).tolist(), "W": np.asarray(node.Wout).tolist(),
                    "b": np.asarray(node.bias).ravel().tolist(),
                    "P": np.asarray(node.P).tolist() if c["kind"] == "rls" else [],
                    "cur": counter.n if counter is not None else None})
    return {"calls": obs}


def run_ip(c):
    rpy()
    from reservoirpy.nodes import IPReservoir
    node = IPReservoir(c["units"], activation=c["activation"], mu=ff(c["mu"]), sigma=ff(c["sigma"]),
                       learning_rate=ff(c["eta"]), epochs=c["epochs"], lr=ff(c["lr"]),
                       W=farr(c["W"]), Win=farr(c["Win"]), bias=farr([[v] for v in c["bias"]]), name=uname("ip"))
    start = None
    if c.get("copy"):                     # directed probe: the fitted node is a Node.copy() of the one built above
        node, start = _ip_copy(node, c)
    rec = []
    orig = node._forward

    def fwd(n, x):
        a0, b0 = np.array(n.a).ravel().tolist(), np.array(n.b).ravel().tolist()
        o = orig(n, x)
        rec.append({"u": np.asarray(x).ravel().tolist(), "x": np.array(n.internal_state).ravel().tolist(),
                    "y": np.array(o).ravel().tolist(), "a0": a0, "b0": b0})
        return o
    node._forward = fwd
    X = [farr(s) for s in c["seqs"]]
    node.fit(X if len(X) > 1 else X[0], warmup=c["warmup"])
    return {"rec": rec, "a": np.array(node.a).ravel().tolist(), "b": np.array(node.b).ravel().tolist(), "start": start}


def run_impl(c):
    return run_ip(c) if c["kind"] == "ip" else run_readout(c)


# ------------------------------------------------------------------------------------------ Gallina terms
def qcall(call):
    if call.get("fail"):
        return "(true, [])"
    return "(false, %s)" % qpairs(call)


def qpairs(call):
    return coqlist(["(%s, %s)" % (qvec(x), qvec(y)) for x, y in zip(call["X"], call["Y"])])


def to_coq(c, o):
    if c["kind"] in ("rls", "lms"):
        if any(call.get("fail") and ob["raised"] is None for call, ob in zip(c["calls"], o["calls"])):
            return "true"      # an invalid call was accepted: nothing is stated about what it does (not counted as non-trivial)
        ecalls, eidim = eff(c, o)
        calls = coqlist([qcall(call) for call in ecalls])
        os_ = coqlist(["{| o_out := %s; o_W := %s; o_b := %s; o_P := %s; o_cur := %s |}" %
                       (qmat(ob["out"]), qmat(ob["W"]), qvec(ob["b"]), qmat(ob["P"]),
                        "None" if ob["cur"] is None else "(Some %s)" % nat(ob["cur"])) for ob in o["calls"]])
        if c["kind"] == "rls":
            return "chk_rls %s %s %s %s %s %s %s" % (coqbool(c["bias"]), nat(eidim), nat(c["odim"]), q(c["alpha"]), nat(c["k"]), calls, os_)
        sc = "(%s, 0)" % qvec(c["alpha"]) if isinstance(c["alpha"], list) else "([], %s)" % q(c["alpha"])
        return "chk_lms %s %s %s %s %s %s %s" % (sc, coqbool(c["bias"]), nat(eidim), nat(c["odim"]), nat(c["k"]), calls, os_)
    recs = o["rec"]
    nwarm = c["warmup"] * len(c["seqs"])
    items = []
    for t, r in enumerate(recs):
        a1 = recs[t + 1]["a0"] if t + 1 < len(recs) else o["a"]
        b1 = recs[t + 1]["b0"] if t + 1 < len(recs) else o["b"]
        items.append("(%s, %s, %s, %s, %s, %s)" % (coqbool(t >= nwarm), qvec(r["u"]), qvec(r["x"]), qvec(r["y"]), qvec(a1), qvec(b1)))
    seqs = coqlist([qmat(s) for s in c["seqs"]])
    return "chk_ip %s %s %s %s %s %s %s %s %s %s %s %s %s %s" % (
        qmat(c["W"]), qmat(c["Win"]), qvec(c["bias"]), q(c["lr"]), coqbool(c["activation"] == "tanh"), q(c["mu"]), q(c["sigma"]),
        q(c["eta"]), nat(c["epochs"]), nat(c["warmup"]), seqs, coqlist(items), qvec(o["a"]), qvec(o["b"]))


def n_updates(c):
    return sum(len(range(0, len(call["X"]), c["k"])) for call in c["calls"] if not call.get("fail"))


def nontrivial(c, o):
    if c["kind"] == "ip":
        learn = len(o["rec"]) - c["warmup"] * len(c["seqs"])
        return learn >= 2 and any(abs(v - 1.0) > 1e-12 for v in o["a"])
    if any(call.get("fail") and ob["raised"] is None for call, ob in zip(c["calls"], o["calls"])):
        return False
    last = o["calls"][-1]
    return n_updates(c) >= 2 and any(v != 0 for r in last["W"] for v in r)


def pregen(ctx):
    """tie (T): re-translate readouts/base.py, rls.py, lms.py (coq/gen/Gen_online.v) and intrinsic_plasticity.py (Gen_ip.v) of the tree under test"""
    from vlib import gen
    errs = [gen.pregen_units(["online", "ip"]), _pregen_trainloop()]
    return "\n".join(e for e in errs if e) or None


def _pregen_trainloop():
    """tie (T) for the loop AROUND the kernels: re-translate _base.py :: train (the per-timestep online loop) of the tree under test into
    coq/gen/Gen_trainloop.v (translator vlib/py2coq_loop.py, vocabulary coq/base/LoopPrelude.v); proofs/Gen_trainloop_eq.v then proves it equal to
    model/Online.v's train loop.  Independent of the kernel units above.  Returns None or the error text; on rejection a stub that does not
    compile replaces the file (never a stale model)."""
    import os
    import traceback
    path = os.path.join(core.COQ, "gen", "Gen_trainloop.v")
    os.makedirs(os.path.dirname(path), exist_ok=True)
    err = None
    try:
        from vlib import py2coq_loop
        text = py2coq_loop.emit(core.REPO)
    except Exception as ex:
        if type(ex).__name__ == "Reject":
            err = "translation rejected: %s" % ex
        else:
            err = "translator exception: " + traceback.format_exc()[-1500:]
    if err is not None:
        text = "(* GENERATED: translation of the online training loop FAILED -- %s *)\nDefinition translation_failed : True := 0.\n" % (
            err.replace("*)", "* )").replace("(*", "( *"))
    old = open(path).read() if os.path.exists(path) else None
    if old != text:               # keep the mtime (and the compiled cone) when nothing changed
        with open(path, "w") as f:
            f.write(text)
    return None if err is None else "unit trainloop (_base.train, Node.train): %s" % err


def correspondence(ctx):
    rng = ctx.rng("corr")
    cases = gen_cases(rng, ctx.n(200, 1500))
    terms, keep, dist, nt = [], [], {}, set()
    for c in cases:
        try:
            o = run_impl(c)
        except Exception as e:
            terms.append("false")
            keep.append({"scenario": jsonable(c), "impl_error": repr(e)})
            continue
        try:
            terms.append(to_coq(c, o))
        except ValueError as e:       # a non-finite observed value cannot be a Q literal: the model never produces one
            terms.append("false")
            keep.append({"scenario": jsonable(c), "impl_error": "non-finite observation: %r" % (e,)})
            continue
        keep.append({"scenario": jsonable(c), "observed": jsonable(o)})
        tag = "ip/%s/mu%s0" % (c["activation"], "!=" if c["mu"] != 0 else "=") if c["kind"] == "ip" else \
            "%s%s/%s%s%s" % ("Model:" + c["model"]["feat"] + ">>" if c.get("model") else "", c["cls"], c["kind"],
                           "/with-failing-calls" if any(cl.get("fail") for cl in c["calls"]) else "",
                           "/hyper-set-before-first-use" if c.get("preset") else "")
        dist[tag] = dist.get(tag, 0) + 1
        if nontrivial(c, o):
            nt.add(repr(jsonable(c)))
    failing, err = core.run_cases(ctx.pid, IMPORTS, terms, chunk=40)
    # the kernels GENERATED from the current source (tie T: rls.py, lms.py, readouts/base.py), run at Q inside the same train loop
    from vlib import gen
    gfail, gerr, ngen = gen.rerun_generated(ctx.pid, IMPORTS_GEN, terms, {"chk_rls ": "chk_gen_rls ", "chk_lms ": "chk_gen_lms ", "chk_ip ": "chk_gen_ip "}, chunk=40)
    dist["generated-kernel runs"], dist["generated-kernel disagreements"] = ngen, len(gfail)
    if gerr:
        err = (err or "") + "generated kernels: " + gerr
    failing = sorted(set(failing) | set(gfail))
    return {"evaluations": len(cases) + ngen, "distinct_nontrivial": len(nt),
            "rule": "seeded scenarios: RLS / LMS / FORCE(rule) nodes, bias on/off, input dim 1-3, output dim 1-2, learn_every 1-4, "
                    "1-3 successive train calls of 1-6 steps (outputs, Wout, bias, P, schedule cursor compared after every call), in about a third "
                    "of them 1-2 RAISING calls (targets forgotten, wrong target / input width) inserted before / between the valid ones "
                    "(model: no update, cursor unchanged; non-constant schedules), "
                    "LMS alpha scalar or an explicit iterator schedule; a quarter of them as (Input|clip-Reservoir) >> readout Models trained by 2-4 "
                    "Model.train calls with learn_every 2-4 and lengths not multiples of it / one-step calls (samples = observed feature states); "
                    "30% with alpha (RLS, FORCE) or the rate generator (LMS) changed between construction and first use; IPReservoir tanh/sigmoid, 1-3 units, 1-3 sequences, epochs 1-3, "
                    "warmup 0-1 (every reservoir call compared: order, pre-activation state, a, b). non-trivial = at least two "
                    "learning updates and a non-zero learned Wout (readouts) / a changed gain (IP); distinct by scenario text",
            "samples": [keep[0], keep[1], keep[min(3, len(keep) - 1)]],
            "distribution": dist, "tolerance": "1e-9 relative (qclose)",
            "failing": [dict(keep[i], index=i) for i in failing], "error": err}


# ------------------------------------------------------------------------------------------ oracle on the implementation
def _viol(key, what, c, expected=None, observed=None):
    return {"key": key, "what": what, "scenario": jsonable(c), "expected": jsonable(expected), "observed": jsonable(observed)}


def fsolve(A, B):
    """Exact Gauss-Jordan: A (n x n Fractions), B (n x m) -> A^-1 B."""
    n = len(A)
    M = [list(A[i]) + list(B[i]) for i in range(n)]
    for c in range(n):
        p = next(r for r in range(c, n) if M[r][c] != 0)
        M[c], M[p] = M[p], M[c]
        piv = M[c][c]
        M[c] = [v / piv for v in M[c]]
        for r in range(n):
            if r != c and M[r][c] != 0:
                f = M[r][c]
                M[r] = [a - f * b for a, b in zip(M[r], M[c])]
    return [row[n:] for row in M]


def close(a, b, tol=1e-8):
    a, b = np.asarray(a, dtype=float), np.asarray(b, dtype=float)
    return a.shape == b.shape and bool(np.all(np.abs(a - b) <= tol * np.maximum(1.0, np.abs(b))))


def aug(c, x):
    return ([Fraction(1)] if c["bias"] else []) + [Fraction(v) for v in x]


def _judge_readout(c):
    try:
        o = run_readout(c)
    except Exception as e:
        return _viol("%s:exception" % c["kind"], "valid %s training scenario raises %r" % (c["kind"], e), c)
    ecalls, eidim = eff(c, o)
    n = eidim + (1 if c["bias"] else 0)
    m = c["odim"]
    where = "Model.train" if c.get("model") else "train"
    if c.get("model") and c["model"]["feat"] == "input" and any(ob["feat"] != farr(call["X"]).tolist() for call, ob in zip(c["calls"], o["calls"])):
        return _viol("model:input-not-forwarded", "the Input node of the model did not hand X to the readout unchanged", c)
    # exact explicit loop with Fractions (w: n x m assembled weights, bias row first)
    w = [[Fraction(0)] * m for _ in range(n)]
    if c["kind"] == "rls":
        A = [[Fraction(c["alpha"]) if i == j else Fraction(0) for j in range(n)] for i in range(n)]
        Bm = [[Fraction(0)] * m for _ in range(n)]
    cur = 0
    for ci, call in enumerate(ecalls):
        ob = o["calls"][ci]
        if call.get("fail"):
            if ob["raised"] is None:
                return None        # accepted instead of rejected: nothing stated here about such a call
            wf = [[float(v) for v in row] for row in w]
            expW, expb = (wf[1:], wf[0]) if c["bias"] else (wf, [0.0] * m)
            if not (close(ob["W"], expW) and close(ob["b"], expb)):
                return _viol("%s:failed-call-changed-weights" % c["kind"], "train call %d raised (%s) but Wout / bias changed" % (ci, call["fail"]),
                             c, {"W": expW, "b": expb}, {"W": ob["W"], "b": ob["b"]})
            if c["kind"] == "rls":
                eye = [[Fraction(int(i == j)) for j in range(n)] for i in range(n)]
                Pinv = [[float(v) for v in row] for row in fsolve(A, eye)]
                if not close(ob["P"], Pinv):
                    return _viol("rls:failed-call-changed-P", "train call %d raised (%s) but P changed" % (ci, call["fail"]), c, Pinv, ob["P"])
            elif ob["cur"] is not None and ob["cur"] != cur:
                return _viol("lms:schedule-consumed-by-failed-call", "train call %d raised (%s) without updating, yet %d learning rate(s) were "
                             "drawn from the schedule: later updates use shifted rates" % (ci, call["fail"], ob["cur"] - cur), c, cur, ob["cur"])
            continue
        T = len(call["X"])
        exp_out = []
        for i in range(T):
            r = aug(c, call["X"][i])
            y = [Fraction(v) for v in call["Y"][i]]
            # prediction with the weights before this step's update (when bias is off the bias stays 0)
            pred = [sum(r[a] * w[a][j] for a in range(n)) for j in range(m)]
            exp_out.append([float(v) for v in pred])
            if i % c["k"] == 0 or T == 1:
                if c["kind"] == "rls":
                    for a in range(n):
                        for b in range(n):
                            A[a][b] += r[a] * r[b]
                        for j in range(m):
                            Bm[a][j] += r[a] * y[j]
                    w = fsolve(A, Bm)                      # batch ridge(lambda = alpha) on the samples learned so far
                else:
                    al = Fraction(c["alpha"][cur]) if isinstance(c["alpha"], list) else Fraction(c["alpha"])
                    cur += 1
                    w = [[w[a][j] - al * (pred[j] - y[j]) * r[a] for j in range(m)] for a in range(n)]
        wf = [[float(v) for v in row] for row in w]
        expW, expb = (wf[1:], wf[0]) if c["bias"] else (wf, [0.0] * m)
        if not (close(ob["W"], expW) and close(ob["b"], expb)):
            if c["kind"] == "rls":
                return _viol("rls:ridge-equivalence", "after train call %d the RLS weights are not the ridge(lambda=alpha) solution on "
                             "the samples selected by learn_every so far" % ci, c, {"W": expW, "b": expb}, {"W": ob["W"], "b": ob["b"]})
            return _viol("lms:recurrence", "after train call %d the LMS weights are not w - alpha_k*(pred-target)*x~ applied once per "
                         "selected step" % ci, c, {"W": expW, "b": expb}, {"W": ob["W"], "b": ob["b"]})
        if c["kind"] == "rls":
            eye = [[Fraction(int(i == j)) for j in range(n)] for i in range(n)]
            Pinv = [[float(v) for v in row] for row in fsolve(A, eye)]
            if not close(ob["P"], Pinv):
                return _viol("rls:P-inverse", "after train call %d P is not the inverse of alpha*I + sum x~ x~^T" % ci, c, Pinv, ob["P"])
        elif ob["cur"] is not None and ob["cur"] != cur:
            return _viol("lms:schedule-cursor", "after train call %d the learning-rate iterator was advanced %d times for %d updates"
                         % (ci, ob["cur"], cur), c, cur, ob["cur"])
        if not close(ob["out"], exp_out):
            return _viol("train:output-pre-update", "train call %d: returned outputs are not the predictions made with the weights "
                         "held before each step's update" % ci, c, exp_out, ob["out"])
    return None


def _judge_schedule_kind(c):
    """A documented 'iterable' schedule (a plain list) must behave like the iterator over the same values."""
    if not isinstance(c["alpha"], list) or c.get("model") or c.get("preset"):
        return None
    try:
        node, _ = make_readout(c, schedule_as="list")
        for call in c["calls"]:
            if call.get("fail"):
                try:
                    node.train(farr(call["X"]), None if call["Y"] is None else farr(call["Y"]), learn_every=c["k"])
                except Exception:
                    pass
                continue
            node.train(farr(call["X"]), farr(call["Y"]), learn_every=c["k"])
        W = np.asarray(node.Wout).tolist()
    except Exception as e:
        return _viol("lms:iterable-schedule-not-iterator", "a list given as learning-rate schedule (documented: 'generator or iterable') "
                     "is accepted at construction but training raises %r" % (e,), c)
    o = run_readout(c)
    if not close(W, o["calls"][-1]["W"]):
        return _viol("lms:iterable-schedule-not-iterator", "a list schedule does not give the same weights as an iterator over the same values",
                     c, o["calls"][-1]["W"], W)
    return None


def _act(name, z):
    return np.tanh(z) if name == "tanh" else 1.0 / (1.0 + np.exp(-z))


def _judge_ip(c):
    try:
        o = run_ip(c)
    except Exception as e:
        return _viol("ip:exception", "valid IPReservoir.fit scenario raises %r" % (e,), c)
    W, Win, bias = farr(c["W"]), farr(c["Win"]), np.array([ff(v) for v in c["bias"]])
    lr, mu, sigma, eta = ff(c["lr"]), ff(c["mu"]), ff(c["sigma"]), ff(c["eta"])
    u_ = c["units"]
    a, b, s, r = np.ones(u_), np.zeros(u_), np.zeros(u_), np.zeros(u_)
    if o.get("start"):                    # a copy of an initialised / fitted node goes on from the gains and states it was copied with
        a, b, s, r = (np.array(v, dtype=float) for v in o["start"])
    w = c["warmup"]
    order = [(False, u) for seq in c["seqs"] for u in seq[:w]] + \
            [(True, u) for _ in range(c["epochs"]) for seq in c["seqs"] for u in seq[w:]]
    nsteps = 0
    for learn, u in order:
        u = np.array([float(Fraction(v)) for v in u])
        s = (1 - lr) * s + lr * (W @ r + Win @ u + bias)
        y = _act(c["activation"], a * s + b)
        if learn:
            nsteps += 1
            if c["activation"] == "tanh":
                db = -eta * (-(mu / sigma ** 2) + (y / sigma ** 2) * (2 * sigma ** 2 + 1 - y ** 2 + mu * y))
            else:
                db = eta * (1 - (2 + 1 / mu) * y + y ** 2 / mu)
            a, b = a + eta / a + db * s, b + db
        r = y
    if len(o["rec"]) != len(order):
        return _viol("ip:step-count", "fit made %d reservoir calls, expected %d (warm-up calls + epochs x sequences x timesteps)"
                     % (len(o["rec"]), len(order)), c, len(order), len(o["rec"]))
    if not (close(o["a"], a, 1e-7) and close(o["b"], b, 1e-7)):
        return _viol("ip:recurrence", "a, b after fit differ from one documented gradient step per timestep per sequence per epoch",
                     c, {"a": a.tolist(), "b": b.tolist()}, {"a": o["a"], "b": o["b"]})
    for t, rec in enumerate(o["rec"]):
        z = np.array(rec["a0"]) * np.array(rec["x"]) + np.array(rec["b0"])
        if not close(rec["y"], _act(c["activation"], z), 1e-9):
            return _viol("ip:activation-relation", "reservoir call %d: output is not f(a*x+b) with the a, b held before the step" % t,
                         c, _act(c["activation"], z).tolist(), rec["y"])
    return None


def gen_teacher(rng, i):
    """Model.train(X, Y=teacher_node) that raises part-way, followed by Model.train(X, Y_array)."""
    rule = ["lms", "rls"][i % 2]
    idim, odim = rng.randint(1, 3), rng.randint(1, 2)
    T0, Tf, T2 = rng.randint(1, 3), rng.randint(2, 4), rng.randint(1, 3)
    return {"kind": "teacher", "rule": rule, "bias": rng.random() < 0.6, "idim": idim, "odim": odim,
            "why": "exhausted-schedule" if (rule == "lms" and rng.random() < 0.5) else "node-raises",
            "fail_at": rng.randint(1, Tf - 1),
            "alpha": Fraction(1, 2) if rule == "rls" else rng.choice([Fraction(1, 8), Fraction(1, 16)]),
            "teacher": [Fraction(rng.choice([-5, -3, 3, 5, 7])) for _ in range(odim)],
            "first": {"X": rows(rng, T0, idim, 2, 2), "Y": rows(rng, T0, odim, 4, 2)},
            "failing": {"X": rows(rng, Tf, idim, 2, 2)},
            "after": {"X": rows(rng, T2, idim, 2, 2), "Y": rows(rng, T2, odim, 4, 2)}}


def _judge_teacher(c):
    rpy()
    from reservoirpy.node import Node
    from reservoirpy.nodes import LMS, RLS, Input
    n, m = c["idim"] + (1 if c["bias"] else 0), c["odim"]
    src = Input(name=uname("tsrc"))
    armed = {"left": None}

    def fwd(node, x):
        if armed["left"] is not None:
            if armed["left"] == 0:
                raise RuntimeError("C10 probe: node failure in the middle of Model.train")
            armed["left"] -= 1
        return x

    def init(node, x=None, **kw):
        node.set_input_dim(x.shape[1]); node.set_output_dim(x.shape[1])
    mid = Node(forward=fwd, initializer=init, name=uname("tmid"))
    T0 = len(c["first"]["X"])
    if c["rule"] == "lms":
        nrates = T0 + c["fail_at"] if c["why"] == "exhausted-schedule" else 64
        ro = LMS(alpha=iter([ff(c["alpha"])] * nrates), input_bias=c["bias"], name=uname("tlms"))
    else:
        ro = RLS(alpha=ff(c["alpha"]), input_bias=c["bias"], name=uname("trls"))
    model = src >> mid >> ro
    teacher = Input(name=uname("teacher"))
    teacher(farr([c["teacher"]]))
    try:
        model.train(farr(c["first"]["X"]), farr(c["first"]["Y"]))
        if c["why"] == "node-raises":
            armed["left"] = c["fail_at"]
        raised = False
        try:
            model.train(farr(c["failing"]["X"]), teacher)
        except Exception:
            raised = True
        armed["left"] = None
        if not raised:
            return None
        if c["rule"] == "lms":
            ro.set_param("_alpha_gen", iter([ff(c["alpha"])] * 64))
        W0 = [[Fraction(v) for v in row] for row in (np.r_[ro.bias, ro.Wout] if c["bias"] else np.asarray(ro.Wout)).tolist()]
        P = [[Fraction(v) for v in row] for row in np.asarray(ro.P).tolist()] if c["rule"] == "rls" else None
        out = model.train(farr(c["after"]["X"]), farr(c["after"]["Y"]))
    except Exception as e:
        return _viol("teacher:exception", "Model.train history with a failing teacher-node call raises %r" % (e,), c)
    # explicit exact recurrence from the state observed after the failed call, towards the GIVEN targets
    w = W0
    al = Fraction(c["alpha"])
    for i in range(len(c["after"]["X"])):
        r = aug(c, c["after"]["X"][i])
        y = [Fraction(v) for v in c["after"]["Y"][i]]
        pred = [sum(r[a] * w[a][j] for a in range(n)) + (0 if c["bias"] else Fraction(float(np.asarray(ro.bias).ravel()[j]))) for j in range(m)]
        e = [pred[j] - y[j] for j in range(m)]
        if c["rule"] == "lms":
            w = [[w[a][j] - al * e[j] * r[a] for j in range(m)] for a in range(n)]
        else:
            k = [sum(P[a][b] * r[b] for b in range(n)) for a in range(n)]
            g = 1 / (1 + sum(r[a] * k[a] for a in range(n)))
            P = [[P[a][b] - g * k[a] * k[b] for b in range(n)] for a in range(n)]
            w = [[w[a][j] - g * k[a] * e[j] for j in range(m)] for a in range(n)]
    got = (np.r_[ro.bias, ro.Wout] if c["bias"] else np.asarray(ro.Wout)).tolist()
    exp = [[float(v) for v in row] for row in w]
    if not close(got, exp):
        return _viol("model:stale-teacher-after-failed-train", "Model.train(X, Y=teacher node) raised part-way (%s); the next "
                     "Model.train(X, Y_array) did not update towards the given Y (the online node kept the stale teacher)" % c["why"],
                     c, exp, got)
    return None


# ---- directed probes: the learning rules on a node obtained by Node.copy()
def gen_lms_copy(rng, i):
    """LMS / FORCE(rule='lms') built with a list / ndarray schedule, copied (before any training, or after `pre` updates of the original),
    then original (who=0) and copy (who=1) trained on different data in alternation"""
    idim, odim = rng.randint(1, 3), rng.randint(1, 2)
    npre = [0, rng.randint(1, 3)][(i // 4) % 2]
    first = rng.randint(0, 1)
    turns = [{"who": (first + j) % 2, "X": None, "Y": None, "T": rng.randint(1, 3)} for j in range(4)]
    for t in turns:
        T = t.pop("T")
        t["X"], t["Y"] = rows(rng, T, idim, 2, 2), rows(rng, T, odim, 4, 2)
    sch = []
    while len(sch) < npre + sum(len(t["X"]) for t in turns) + 2:
        v = rng.choice([Fraction(1, 8), Fraction(1, 16), Fraction(1, 32), Fraction(3, 32), Fraction(1, 64)])
        if not sch or v != sch[-1]:
            sch.append(v)
    return {"kind": "lms-copy", "cls": ["LMS", "FORCE"][i % 2], "form": ["list", "ndarray"][(i // 2) % 2], "bias": rng.random() < 0.6,
            "idim": idim, "odim": odim, "alpha": sch, "turns": turns,
            "pre": {"X": rows(rng, npre, idim, 2, 2), "Y": rows(rng, npre, odim, 4, 2)} if npre else None}


def copy_cases(rng, reps=1):
    out = [gen_lms_copy(rng, i) for i in range(8 * reps)]
    for i in range(2 * reps):
        for how in ("initialised", "fitted", "fresh"):
            c = gen_ip(rng, 4 * i)            # i even: tanh, i odd: sigmoid
            c["copy"] = how
            if how == "fitted":
                c["pre"] = rows(rng, rng.randint(2, 4), c["idim"], 4, 2)
            out.append(c)
    return out


def _lms_steps(c, w, cur, X, Y):
    """the explicit exact LMS loop of _judge_readout (learn_every = 1) from weights w and schedule cursor cur"""
    n, m = c["idim"] + (1 if c["bias"] else 0), c["odim"]
    for x, y in zip(X, Y):
        r = aug(c, x)
        y = [Fraction(v) for v in y]
        pred = [sum(r[a] * w[a][j] for a in range(n)) for j in range(m)]
        al = Fraction(c["alpha"][cur])
        cur += 1
        w = [[w[a][j] - al * (pred[j] - y[j]) * r[a] for j in range(m)] for a in range(n)]
    return w, cur


def _judge_lms_copy(c):
    rpy()
    from reservoirpy.nodes import FORCE, LMS
    key = "lms:schedule-shared-with-copy"
    n, m = c["idim"] + (1 if c["bias"] else 0), c["odim"]
    sched = [ff(v) for v in c["alpha"]]
    alpha_arg = sched if c["form"] == "list" else np.array(sched)
    desc = "%s(alpha=<%s of %d rates>%s)" % (c["cls"], c["form"], len(sched), ", rule='lms'" if c["cls"] == "FORCE" else "")

    def weights(node):
        if node.Wout is None:
            return [[0.0] * m for _ in range(n)]
        return (np.r_[np.asarray(node.bias).reshape(1, -1), np.asarray(node.Wout)] if c["bias"] else np.asarray(node.Wout)).tolist()
    try:
        if c["cls"] == "FORCE":
            with warnings.catch_warnings():
                warnings.simplefilter("ignore")
                node = FORCE(alpha=alpha_arg, rule="lms", input_bias=c["bias"], name=uname("cpforce"))
        else:
            node = LMS(alpha=alpha_arg, input_bias=c["bias"], name=uname("cplms"))
        w, cur = [[Fraction(0)] * m for _ in range(n)], 0
        if c["pre"]:
            node.train(farr(c["pre"]["X"]), farr(c["pre"]["Y"]))
            w, cur = _lms_steps(c, w, cur, c["pre"]["X"], c["pre"]["Y"])
        twin = node.copy(name=uname("cptwin"))
        nodes, ref = [node, twin], [(w, cur), (w, cur)]     # the copy holds the weights and the place in the schedule it was copied with
        for ti, t in enumerate(c["turns"]):
            k = t["who"]
            nodes[k].train(farr(t["X"]), farr(t["Y"]))
            ref[k] = _lms_steps(c, ref[k][0], ref[k][1], t["X"], t["Y"])
            for j in (0, 1):
                exp = [[float(v) for v in row] for row in ref[j][0]]
                got = weights(nodes[j])
                if not close(got, exp):
                    return _viol(key, "%s, copied with Node.copy() %s, original and copy then trained in alternation: after turn %d (training of the %s) "
                                 "the weights of the %s are not w - alpha_k*(pred-target)*x~ with the schedule consumed once per update of THAT node "
                                 "(%d updates so far)" % (desc, "after %d updates" % len(c["pre"]["X"]) if c["pre"] else "before any training", ti,
                                                          ["original", "copy"][k], ["original", "copy"][j], ref[j][1]), c, exp, got)
    except Exception as e:  # noqa: BLE001
        return _viol(key, "%s copied with Node.copy(), original and copy trained in alternation: raises %r" % (desc, e), c)
    return None


def _ip_copy(node, c):
    """the node that run_ip fits: a Node.copy() of a fresh / an initialised / an already fitted IPReservoir.  Returns the copy and the
    (a, b, internal_state, state) it starts from (None: not initialised yet, i.e. a = 1, b = 0, zero states)"""
    if c["copy"] == "initialised":
        node.initialize(farr(c["seqs"][0])[:1])
    elif c["copy"] == "fitted":
        node.fit(farr(c["pre"]))
    twin = node.copy(name=uname("iptwin"))
    if not twin.is_initialized:
        return twin, None
    return twin, [np.array(v, dtype=float).ravel().tolist() for v in (twin.a, twin.b, twin.internal_state, twin.state())]


def _judge_ip_copy(c):
    v = _judge_ip(c)
    if v:
        v = dict(v, key="ip:copy-uses-original-gains",
                 what="IPReservoir obtained by Node.copy() of %s node, then fitted (the explicit IP loop starts from the gains / states of the copy): [%s] %s"
                      % ({"fresh": "a never-run", "initialised": "an initialised", "fitted": "a fitted"}[c["copy"]], v["key"], v["what"]))
    return v


def _judge(c):
    if c["kind"] == "teacher":
        return _judge_teacher(c)
    if c["kind"] == "lms-copy":
        return _judge_lms_copy(c)
    if c["kind"] == "ip" and c.get("copy"):
        return _judge_ip_copy(c)
    if c["kind"] == "ip":
        return _judge_ip(c)
    v = _judge_readout(c)
    if v is None and c["kind"] == "lms":
        v = _judge_schedule_kind(c)
    return v


def judge(case):
    return _judge(case["scenario"])


def oracle(ctx, scale=1):
    rng = ctx.rng("oracle")
    cases = gen_cases(rng, ctx.n(240, 2000) * scale)
    # every prefix of one sequence: the same data trained one step per call
    extra = []
    for c in cases[:ctx.n(40, 200)]:
        if c["kind"] == "rls":
            X = [x for call in c["calls"] if not call.get("fail") for x in call["X"]]
            Y = [y for call in c["calls"] if not call.get("fail") for y in call["Y"]]
            extra.append(dict(c, calls=[{"X": [x], "Y": [y]} for x, y in zip(X, Y)]))
    extra += [gen_teacher(rng, i) for i in range(ctx.n(16, 120) * scale)]
    extra += copy_cases(ctx.rng("oracle-copy"), ctx.n(1, 4))
    out, dist = [], {}
    for c in cases + extra:
        dist[c["kind"]] = dist.get(c["kind"], 0) + 1
        v = _judge(c)
        if v:
            out.append(v)
    return {"evaluations": len(cases) + len(extra), "violations": out, "distribution": dist,
            "rule": "exact (Fraction) batch ridge(lambda=alpha) solution and inverse regularised covariance vs RLS Wout/bias/P after every "
                    "train call (and after every single step); explicit exact LMS loop with a counted schedule; a raising train call (targets forgotten, wrong widths) leaves Wout/bias/P and the schedule cursor unchanged and the later updates use the right schedule entries; learn_every gate "
                    "i%k==0 and pre-update outputs by an explicit loop; explicit numpy IP loop vs IPReservoir.fit (a, b) and y=f(a*x+b); Model-level: (Input|Reservoir)>>readout trained by successive Model.train calls "
                    "(learn_every>1, lengths not multiples of it, one-step calls) judged like the node on the observed features; alpha / rate generator "
                    "changed between construction and first use; Model.train with a teacher node failing part-way then trained on an array; "
                    "nodes obtained by Node.copy(): LMS / FORCE(lms) with a list / ndarray schedule copied (fresh or after some updates) and both trained in "
                    "alternation (explicit loop per node, own schedule cursor); IPReservoir copied fresh / initialised / fitted, then fitted (explicit IP loop)"}


def replay(payload):
    v = _judge(payload["scenario"])
    return {"violates": bool(v), "detail": v}
