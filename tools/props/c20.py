"""C20 — dataset helpers (to_forecasting, one_hot_encode) and discrete-map generators (logistic, Henon, NARMA):
correspondence with model/Datasets.v and implementation oracle."""
import contextlib
import io
import json
from fractions import Fraction

import numpy as np

from vlib import core
from vlib.core import q, qmat, qvec, nat, coqstr, coqlist

IMPORTS = ("From Coq Require Import List QArith ZArith String.\n"
           "From RV Require Import base.Num model.Datasets run.RunC20.\nImport ListNotations.\nOpen Scope Q_scope.")
IMPORTS_GEN = ("From Coq Require Import List QArith ZArith String.\n"
               "From RV Require Import base.Num model.Datasets run.RunC20 run.RunGenC20.\nImport ListNotations.\nOpen Scope Q_scope.")
GEN_RENAMES = {"chk_%s " % n: "chk_gen_%s " % n for n in (
    "fc1", "fc2", "fc_rejects", "onehot_z", "onehot_s", "onehot_col_z", "onehot_col_s", "onehot_grid_z", "onehot_grid_s",
    "onehot_multi_z", "onehot_multi_s")}
TRUSTED = ["numpy indexing/moveaxis/unique/eye/split are what the list model gives them as meaning (slices = firstn/skipn, "
           "moveaxis of a 2-D array = transpose, unique = sorted duplicate-free list); compared on every run, not assumed",
           "tie (T) for the helpers: tools/vlib/py2coq_ds.py (fail-closed ast translator of to_forecasting / one_hot_encode, re-run on the tree under "
           "test) and coq/base/DSPrelude.v, the meaning given to the Python/numpy constructs they use (a[lo:hi] with negative bounds incl. -0, "
           "round() = half-to-even on the exact rational product, isinstance on test_size as a 3-constructor type, np.moveaxis as identity (axis 0) / "
           "2-D transposition (axis 1), np.unique = sorted duplicate-free list + position of each label, np.eye(n)[idx], np.cumsum, np.split, "
           "reshape of a trailing singleton axis; the debugging print in one_hot_encode is skipped by exact text); the generated functions are "
           "proved EQUAL to model/Datasets.v (proofs/Gen_datasets_eq.v) and also executed on every correspondence scenario (run/RunGenC20.v)",
           "numpy's RNG is not modelled: narma is always called with a user-supplied u",
           "string labels: Coq's String.leb (byte-wise lexicographic, proved a total order) stands for numpy's code-point order; "
           "scenarios use ASCII labels only"]
ASSUMPTIONS = ["inputs are small dyadic rationals; float test ratios in the correspondence are dyadic so that time_len*test_size is exact "
               "(the oracle also uses arbitrary float ratios)",
               "map generators: n_timesteps <= 10 and trajectories with |value| <= 1e3 (float64 round-off stays far below the 1e-9 tolerance)",
               "narma: x0 is given as a column (k,1), a 1-D array/list of k values, or left to its default; k <= n_timesteps + order"]

WORDS = ["a", "b", "B", "ab", "aB", "a1", "Z", "_x", "10", "9", "cat", "ca", "dog", "Dog", "zz", "A"]


def F(x):
    return Fraction(x)


def jsonable(c):
    return json.loads(json.dumps(c, default=lambda f: str(f)))


def datasets():
    import reservoirpy
    reservoirpy.verbosity(0)
    from reservoirpy import datasets as ds
    return ds


def farr(nested):
    def conv(v):
        if isinstance(v, (list, tuple)):
            return [conv(x) for x in v]
        return float(Fraction(v))
    return np.array(conv(nested), dtype=float)


# ------------------------------------------------------------------------------------------ scenarios
def gen_ts(rng, n, forecast, exact_ratio=True, in_range=False):
    r = rng.random()
    avail = max(n - forecast, 0)
    if r < 0.25:
        return None
    if r < 0.6:
        if in_range:
            return ["int", rng.randint(1, avail)] if avail >= 1 else None
        return ["int", rng.choice([0, 1, 1, 2, 2, 3, 4, -1, avail, avail + 1, n + 2])]
    if exact_ratio and rng.random() < 0.35:
        # ties of Python's round(): time_len * ratio = j + 1/2 exactly (dyadic ratios only)
        ties = [Fraction(2 * j + 1, 2 * n) for j in range(n)]
        ties = [t for t in ties if t < 1 and (t.denominator & (t.denominator - 1)) == 0]
        if ties:
            return ["ratio", str(rng.choice(ties))]
    if exact_ratio:
        return ["ratio", str(Fraction(rng.randint(0, 15), 16) if rng.random() < 0.6 else Fraction(rng.randint(0, 7), 8))]
    return ["ratio", repr(rng.choice([0.1, 0.2, 0.3, 0.25, 0.5, 0.05, 0.15, 0.45, 0.0, rng.random() * 0.6]))]


def gen_forecast(rng, dims, exact_ratio=True, in_range=False):
    ndim = rng.choice(dims)
    shape = [rng.randint(1, 9)] + [rng.randint(1, 3) for _ in range(ndim - 1)]
    rng.shuffle(shape)
    axis = rng.randrange(ndim)
    shape[axis] = rng.randint(2, 10)
    forecast = rng.choice([1, 1, 2, 3]) if not in_range else rng.randint(1, min(3, shape[axis] - 1))
    tot = int(np.prod(shape))
    vals = [core.dyadic(rng, 32, 2) for _ in range(tot)]
    series = np.array([str(v) for v in vals], dtype=object).reshape(shape).tolist()
    if ndim >= 2 and rng.random() < 0.2 and not exact_ratio:
        axis_arg = axis - ndim          # negative axis
    else:
        axis_arg = axis
    ts = gen_ts(rng, shape[axis], forecast, exact_ratio, in_range)
    # forecast / integer test sizes may be numpy integers (signed or unsigned): same meaning as the Python int
    ftype = rng.choice([None, None, None, "uint8", "uint16", "int64", "int32"])
    if ts is not None and ts[0] == "int":
        tt = rng.choice([None, None, "int64", "int32", "uint8"])
        if tt is not None and not (tt.startswith("u") and ts[1] < 0):
            ts = ts + [tt]
    return {"kind": "fc", "ndim": ndim, "axis": axis_arg, "forecast": forecast, "ftype": ftype,
            "ts": ts, "series": series}


def gen_labels(rng, n, typ):
    if typ == "int":
        pool = rng.sample(range(-4, 9), rng.randint(1, 5))
        return [rng.choice(pool) for _ in range(n)]
    if typ == "bool":
        return [rng.choice([True, False]) for _ in range(n)]
    pool = rng.sample(WORDS, rng.randint(1, 5))
    return [rng.choice(pool) for _ in range(n)]


def gen_onehot(rng, min_total=2):
    typ = rng.choice(["int", "int", "str", "str", "bool"])
    if min_total == 1:     # a lone label: (1,) array / one-element list / one sequence of length 1
        lab = gen_labels(rng, 1, typ)
        if rng.random() < 0.6:
            return {"kind": "onehot", "typ": typ, "form": rng.choice(["list", "arr", "col"]), "labels": lab}
        return {"kind": "onehot_multi", "typ": typ, "form": rng.choice(["seqs", "seqs_col"]), "seqs": [lab]}
    if rng.random() < 0.5:
        n = rng.randint(min_total, 10)
        form = rng.choice(["list", "arr", "col"])
        return {"kind": "onehot", "typ": typ, "form": form, "labels": gen_labels(rng, n, typ)}
    form = rng.choice(["seqs", "seqs", "seqs_col", "grid", "grid1"])
    if form in ("grid", "grid1"):
        nr, nc = rng.randint(1, 4), rng.randint(2, 4)
        flat = gen_labels(rng, nr * nc, typ)
        seqs = [flat[i * nc:(i + 1) * nc] for i in range(nr)]
    else:
        k = rng.randint(1, 4)
        lens = [rng.randint(1, 5) for _ in range(k)]
        if sum(lens) < min_total:
            lens[0] += min_total
        flat = gen_labels(rng, sum(lens), typ)
        seqs, p = [], 0
        for ln in lens:
            seqs.append(flat[p:p + ln])
            p += ln
    return {"kind": "onehot_multi", "typ": typ, "form": form, "seqs": seqs}


def gen_map(rng, which):
    n = rng.randint(1, 10)     # exact rationals double in size at every step: 10 steps ~ 10^4 bits
    if which == "logistic":
        if rng.random() < 0.08:
            bad = rng.choice([["0", "1/2"], ["-1", "1/4"], ["3", "0"], ["3", "1"], ["2", "5/4"], ["2", "-1/4"]])
            return {"kind": "logistic_err", "n": n, "r": bad[0], "x0": bad[1]}
        r = Fraction(rng.randint(1, 32), 8)
        j = rng.randint(1, 4)
        x0 = Fraction(rng.randint(1, 2 ** j - 1), 2 ** j)
        return {"kind": "logistic", "n": n, "r": str(r), "x0": str(x0), "defaults": rng.random() < 0.1}
    if which == "henon":
        a = Fraction(rng.randint(0, 12), 8)
        b = Fraction(rng.randint(-4, 4), 8)
        c = {"kind": "henon", "n": n, "a": str(a), "b": str(b),
             "x0": [str(Fraction(rng.randint(-8, 8), 8)), str(Fraction(rng.randint(-8, 8), 8))], "defaults": rng.random() < 0.1}
        # the initial condition as users write it: floats, Python ints, an integer / float32 numpy array, a tuple -- the series is
        # the same real-valued recurrence whatever the dtype of x0
        r = rng.random()
        if r < 0.3:
            c["x0"] = [str(rng.randint(-1, 1)), str(rng.randint(-1, 1))]
            c["x0_form"] = rng.choice(["int-list", "int-array", "int-tuple"])
        elif r < 0.45:
            c["x0_form"] = rng.choice(["float32-array", "float-tuple"])
        return c
    order = rng.randint(1, 4)
    if rng.random() < 0.3:
        par = ["0.2", "0.04", "1.5", "0.001"]       # library defaults (not dyadic: passed as their exact float value)
        n = min(n, 7)
    else:
        par = [str(Fraction(rng.randint(-4, 8), 16)), str(Fraction(rng.randint(-2, 4), 16)),
               str(Fraction(rng.randint(-4, 12), 4)), str(Fraction(rng.randint(-4, 16), 64))]
    u = [str(Fraction(rng.randint(0, 8), 16)) for _ in range(n + order)]
    r = rng.random()
    if r < 0.2:
        x0 = None
    else:
        k = rng.randint(1, min(order + 2, n + order))
        x0 = [str(Fraction(rng.randint(-8, 8), 8)) for _ in range(k)]
    return {"kind": "narma", "n": n, "order": order, "par": par, "u": u, "x0": x0,
            "x0form": rng.choice(["nested", "array", "flat", "flat_array"]), "uform": rng.choice(["col", "col", "flat"])}


def gen_cases(rng, n, oracle=False):
    cases = []
    kinds = ["fc", "onehot", "logistic", "henon", "narma", "fc", "onehot", "narma"]
    for i in range(n):
        kind = kinds[i % len(kinds)]
        if kind == "fc":
            if oracle:
                cases.append(gen_forecast(rng, [1, 2, 2, 3, 3], exact_ratio=rng.random() < 0.5, in_range=rng.random() < 0.6))
            else:
                c = gen_forecast(rng, [1, 2, 2])
                if rng.random() < 0.05:
                    c["ts"] = rng.choice([["ratio", "1"], ["ratio", "3/2"], ["ratio", "-1/4"]])
                    c["kind"] = "fc_err"
                cases.append(c)
        elif kind == "onehot":
            cases.append(gen_onehot(rng, min_total=1 if rng.random() < 0.1 else 2))
        else:
            cases.append(gen_map(rng, kind))
    return cases


# ------------------------------------------------------------------------------------------ running the real library
def ts_arg(ts):
    if ts is None:
        return None
    if ts[0] == "int":
        return getattr(np, ts[2])(ts[1]) if len(ts) > 2 and ts[2] else int(ts[1])
    return float(Fraction(ts[1])) if "/" in ts[1] or "." not in ts[1] else float(ts[1])


def forecast_arg(c):
    return getattr(np, c["ftype"])(c["forecast"]) if c.get("ftype") else int(c["forecast"])


def label_array(labels, typ):
    if typ == "bool":
        return np.array(labels, dtype=bool)
    if typ == "int":
        return np.array(labels, dtype=int)
    return np.array(labels, dtype=str)


def call_quiet(f, *a, **k):
    buf = io.StringIO()
    with contextlib.redirect_stdout(buf):
        return f(*a, **k)


def run_impl(c):
    """Run one scenario on reservoirpy; returns the observation dict (plain lists)."""
    ds = datasets()
    k = c["kind"]
    if k in ("fc", "fc_err"):
        s = farr(c["series"])
        try:
            res = ds.to_forecasting(s, forecast=forecast_arg(c), axis=c["axis"], test_size=ts_arg(c["ts"]))
        except ValueError as e:
            if k == "fc_err":
                return {"rejected": True}
            raise
        return {"parts": [np.asarray(p).tolist() for p in res], "shapes": [list(np.asarray(p).shape) for p in res]}
    if k == "onehot":
        arr = label_array(c["labels"], c["typ"])
        arg = list(c["labels"]) if c["form"] == "list" else (arr.reshape(-1, 1) if c["form"] == "col" else arr)
        enc, cls = call_quiet(ds.one_hot_encode, arg)
        return {"enc": np.asarray(enc).tolist(), "shape": list(np.asarray(enc).shape), "classes": np.asarray(cls).tolist()}
    if k == "onehot_multi":
        if c["form"] in ("grid", "grid1"):
            arg = label_array(c["seqs"], c["typ"])
            if c["form"] == "grid1":
                arg = arg.reshape(arg.shape + (1,))
            enc, cls = call_quiet(ds.one_hot_encode, arg)
            enc = list(np.asarray(enc))
        else:
            arg = [label_array(s, c["typ"]) for s in c["seqs"]]
            if c["form"] == "seqs_col":
                arg = [a.reshape(-1, 1) for a in arg]
            enc, cls = call_quiet(ds.one_hot_encode, arg)
        return {"enc": [np.asarray(e).tolist() for e in enc], "shapes": [list(np.asarray(e).shape) for e in enc],
                "classes": np.asarray(cls).tolist()}
    if k in ("logistic", "logistic_err"):
        try:
            if c.get("defaults"):
                out = ds.logistic_map(c["n"])
            else:
                out = ds.logistic_map(c["n"], r=float(F(c["r"])), x0=float(F(c["x0"])))
        except ValueError:
            if k == "logistic_err":
                return {"rejected": True}
            raise
        return {"out": out.tolist(), "shape": list(out.shape)}
    if k == "henon":
        if c.get("defaults"):
            out = ds.henon_map(c["n"])
        else:
            form = c.get("x0_form", "float-list")
            x0 = [float(F(v)) for v in c["x0"]]
            if form.startswith("int-"):
                x0 = [int(F(v)) for v in c["x0"]]
                x0 = np.array(x0) if form == "int-array" else tuple(x0) if form == "int-tuple" else x0
            elif form == "float32-array":
                x0 = np.array(x0, dtype=np.float32)
            elif form == "float-tuple":
                x0 = tuple(x0)
            out = ds.henon_map(c["n"], a=float(F(c["a"])), b=float(F(c["b"])), x0=x0)
        return {"out": out.tolist(), "shape": list(out.shape)}
    if k == "narma":
        a1, a2, b, cc = [float(p) if "." in p else float(F(p)) for p in c["par"]]
        u = farr(c["u"])
        u = u.reshape(-1, 1) if c["uform"] == "col" else u
        kw = {}
        if c["x0"] is not None:
            col = [[float(F(v))] for v in c["x0"]]
            flat = [float(F(v)) for v in c["x0"]]       # documented shape (init_steps,): one value per timestep
            kw["x0"] = {"array": np.array(col), "nested": col, "flat": flat, "flat_array": np.array(flat)}[c["x0form"]]
        out = ds.narma(c["n"], order=c["order"], a1=a1, a2=a2, b=b, c=cc, u=u, **kw)
        return {"out": out.tolist(), "shape": list(out.shape)}
    raise ValueError(k)


def finite_small(o):
    a = np.asarray(o["out"], dtype=float)
    return bool(np.all(np.isfinite(a)) and (a.size == 0 or np.max(np.abs(a)) <= 1e3))


# ------------------------------------------------------------------------------------------ Gallina terms
def ts_coq(ts):
    if ts is None:
        return "TsNone"
    if ts[0] == "int":
        return "(TsInt (%d)%%Z)" % int(ts[1])
    return "(TsRatio %s)" % q(ts_arg(ts))


def zlit(v):
    return "(%d)%%Z" % int(v)


def lab_coq(v, typ):
    return coqstr(str(v)) if typ == "str" else zlit(v)


def par_values(c):
    return [float(p) if "." in p else float(F(p)) for p in c["par"]]


def to_coq(c, o):
    k = c["kind"]
    if k == "fc_err":
        n = np.asarray(farr(c["series"])).shape[c["axis"]]
        return "chk_fc_rejects %s %s" % (nat(n), ts_coq(c["ts"])) if o.get("rejected") else "false"
    if k == "fc":
        if c["ndim"] == 1:
            return "chk_fc1 %s %s %s %s" % (nat(c["forecast"]), ts_coq(c["ts"]), qvec(farr(c["series"]).tolist()), qmat(o["parts"]))
        return "chk_fc2 %s %s %s %s %s" % (nat(c["axis"] % 2), nat(c["forecast"]), ts_coq(c["ts"]),
                                           qmat(farr(c["series"]).tolist()), coqlist([qmat(p) for p in o["parts"]]))
    if k == "onehot":
        if len(o["shape"]) != 2:
            return "false"
        suffix = "s" if c["typ"] == "str" else "z"
        if c["form"] == "col":     # (n,1) array: the model squeezes the trailing axis itself
            return "chk_onehot_col_%s %s %s %s" % (suffix, coqlist([coqlist([lab_coq(v, c["typ"])]) for v in c["labels"]]), qmat(o["enc"]),
                                                   coqlist([lab_coq(v, c["typ"]) for v in o["classes"]]))
        return "chk_onehot_%s %s %s %s" % (suffix, coqlist([lab_coq(v, c["typ"]) for v in c["labels"]]), qmat(o["enc"]),
                                           coqlist([lab_coq(v, c["typ"]) for v in o["classes"]]))
    if k == "onehot_multi":
        if any(len(s) != 2 for s in o["shapes"]):
            return "false"
        suffix = "s" if c["typ"] == "str" else "z"
        # (n,m) and (n,m,1) arrays go through the array branch (unique + reshape), lists of arrays through concatenate/split
        fn = "chk_onehot_grid_" if c["form"] in ("grid", "grid1") else "chk_onehot_multi_"
        return "%s %s %s %s" % (
            fn + suffix, coqlist([coqlist([lab_coq(v, c["typ"]) for v in s]) for s in c["seqs"]]),
            coqlist([qmat(e) for e in o["enc"]]), coqlist([lab_coq(v, c["typ"]) for v in o["classes"]]))
    if k == "logistic_err":
        return "chk_logistic_rejects %s %s %s" % (nat(c["n"]), q(F(c["r"])), q(F(c["x0"]))) if o.get("rejected") else "false"
    if k == "logistic":
        r, x0 = (3.9, 0.5) if c.get("defaults") else (float(F(c["r"])), float(F(c["x0"])))
        return "chk_logistic %s %s %s %s" % (nat(c["n"]), q(r), q(x0), qmat(o["out"]))
    if k == "henon":
        a, b, x0 = (1.4, 0.3, [0.0, 0.0]) if c.get("defaults") else (float(F(c["a"])), float(F(c["b"])), [float(F(v)) for v in c["x0"]])
        return "chk_henon %s %s %s %s %s %s" % (nat(c["n"]), q(a), q(b), q(x0[0]), q(x0[1]), qmat(o["out"]))
    if k == "narma":
        a1, a2, b, cc = par_values(c)
        x0 = [0.0] if c["x0"] is None else [float(F(v)) for v in c["x0"]]
        return "chk_narma %s %s %s %s %s %s %s %s %s" % (nat(c["n"]), nat(c["order"]), q(a1), q(a2), q(b), q(cc), qvec(x0),
                                                         qvec([float(F(v)) for v in c["u"]]), qmat(o["out"]))
    raise ValueError(k)


def nontrivial(c, o):
    k = c["kind"]
    if k == "fc":
        return all(np.asarray(p).size > 0 for p in o["parts"]) and len(set(farr(c["series"]).ravel().tolist())) >= 2
    if k == "onehot":
        return len(o["classes"]) >= 2 and c["labels"] != sorted(c["labels"])
    if k == "onehot_multi":
        return len(o["classes"]) >= 2 and len(c["seqs"]) >= 2
    if k in ("logistic", "henon"):
        return c["n"] >= 3 and any(v != 0 for r in o["out"][1:] for v in r)
    if k == "narma":
        return c["n"] >= 3 and any(v != 0 for r in o["out"][2:] for v in r)
    return False


def pregen_helpers():
    """tie (T) for the helpers: re-translate to_forecasting (datasets/__init__.py) and one_hot_encode (datasets/_utils.py) of the tree
    under test into coq/gen/Gen_datasets.v (translator vlib/py2coq_ds.py, vocabulary coq/base/DSPrelude.v).  Returns None or the error
    text; on failure a stub that does not compile replaces the file (never a stale model).  Independent of the maps unit."""
    import os
    import traceback
    from vlib import py2coq_ds
    path = os.path.join(core.COQ, "gen", "Gen_datasets.v")
    os.makedirs(os.path.dirname(path), exist_ok=True)
    err = None
    try:
        text = py2coq_ds.emit(core.REPO)
    except py2coq_ds.Reject as ex:
        err = "translation rejected: %s" % ex
    except Exception:
        err = "translator exception: " + traceback.format_exc()[-1500:]
    if err is not None:
        text = "(* GENERATED: translation of the dataset helpers FAILED -- %s *)\nDefinition translation_failed : True := 0.\n" % (
            err.replace("*)", "* )").replace("(*", "( *"))
    old = open(path).read() if os.path.exists(path) else None
    if old != text:               # keep the mtime (and the compiled cone) when nothing changed
        with open(path, "w") as f:
            f.write(text)
    return None if err is None else "unit datasets (to_forecasting, one_hot_encode): %s" % err


def pregen(ctx):
    """tie (T): re-translate logistic_map / henon_map / narma of datasets/_chaos.py of the tree under test into coq/gen/Gen_maps.v,
    and to_forecasting / one_hot_encode into coq/gen/Gen_datasets.v (the two units fail independently)"""
    from vlib import gen
    errs = [e for e in (gen.pregen_units(["maps"]), pregen_helpers()) if e]
    return "\n".join(errs) or None


def correspondence(ctx):
    rng = ctx.rng("corr")
    cases = gen_cases(rng, ctx.n(240, 3000))
    terms, keep, dist, nt = [], [], {}, set()
    for c in cases:
        err = None
        try:
            o = run_impl(c)
            if c["kind"] in ("logistic", "henon", "narma") and not finite_small(o):
                # outside the stated domain (diverging trajectory): not evaluated
                dist["skipped-diverging"] = dist.get("skipped-diverging", 0) + 1
                terms.append("true")
                keep.append({"scenario": jsonable(c), "skipped": "trajectory leaves |v|<=1e3"})
                continue
        except Exception as e:  # the implementation rejected / crashed on a valid scenario
            o = None
            err = repr(e)
        if o is None:
            terms.append("false")
            keep.append({"scenario": jsonable(c), "impl_error": err})
            continue
        terms.append(to_coq(c, o))
        keep.append({"scenario": jsonable(c), "observed": jsonable(o)})
        kk = c["kind"] + (":%dd" % c["ndim"] if c["kind"] == "fc" else "") + (":" + c["typ"] if "typ" in c else "")
        dist[kk] = dist.get(kk, 0) + 1
        if nontrivial(c, o):
            nt.add(repr(jsonable(c)))
    failing, err = core.run_cases(ctx.pid, IMPORTS, terms, chunk=20)
    # the helpers GENERATED from the current source (tie T: coq/gen/Gen_datasets.v), executed at Q on the same scenarios against the
    # same observations (run/RunGenC20.v): validates the translator and the numpy vocabulary of base/DSPrelude.v dynamically
    from vlib import gen
    gfail, gerr, ngen = gen.rerun_generated(ctx.pid, IMPORTS_GEN, terms, GEN_RENAMES, chunk=20)
    dist["generated-helper runs"] = ngen
    dist["generated-helper disagreements"] = len(gfail)
    if gerr:
        err = (err or "") + "generated helpers (Gen_datasets.v): " + gerr
    failing = sorted(set(failing) | set(gfail))
    evaluated = len(cases) - dist.get("skipped-diverging", 0) + ngen
    return {"evaluations": evaluated, "distinct_nontrivial": len(nt),
            "rule": "seeded scenarios: to_forecasting on 1-D/2-D series (time axis 0/1, forecast 1-3, test_size None/int incl. 0, negative, "
                    "too large/dyadic ratio; forecast and int test sizes also as numpy signed/unsigned integers, a few rejected ratios), one_hot_encode on int/str/bool labels (list, array, column, list of "
                    "sequences, (n,m) and (n,m,1) grids), logistic/Henon (n<=10), narma (order 1-4, n<=10, supplied u and x0); "
                    "non-trivial = every returned part non-empty with >=2 distinct values / >=2 classes and unsorted labels or >=2 sequences / "
                    "n>=3 with a non-zero value after the initial condition; distinct by scenario text",
            "samples": [keep[0], keep[1], keep[min(4, len(keep) - 1)]],
            "distribution": dist, "tolerance": "1e-9 relative (qclose); labels and class lists compared exactly",
            "failing": [dict(keep[i], index=i) for i in failing], "error": err}


# ------------------------------------------------------------------------------------------ oracle on the implementation
def _viol(key, what, c, expected=None, observed=None):
    return {"key": key, "what": what, "scenario": jsonable(c), "expected": jsonable(expected), "observed": jsonable(observed)}


def judge(case):
    return _judge(case["scenario"])


def _close(a, b, rel=1e-9):
    """|a-b| <= rel*max(1,|a|), on exact rationals."""
    a, b = Fraction(a), Fraction(b)
    return abs(a - b) <= Fraction(rel) * max(1, abs(a))


def _judge_fc(c):
    ds = datasets()
    s = farr(c["series"])
    ax = c["axis"]
    n, f = s.shape[ax], c["forecast"]
    ts = ts_arg(c["ts"])
    tsv = int(ts) if (c["ts"] is not None and c["ts"][0] == "int") else ts
    res = ds.to_forecasting(s, forecast=forecast_arg(c), axis=ax, test_size=ts)
    res = [np.asarray(p) for p in res]
    if len(res) == 2:
        (X, y), Xt, yt = res, None, None
        Xf, yf, k = X, y, 0
    elif len(res) == 4:
        X, Xt, y, yt = res
        Xf, yf = np.concatenate([X, Xt], axis=ax), np.concatenate([y, yt], axis=ax)
        k = Xt.shape[ax]
        if yt.shape[ax] != k or X.shape[ax] != y.shape[ax]:
            return _viol("forecast:split-cut", "inputs and targets are not cut at the same place", c, None, [list(p.shape) for p in res])
    else:
        return _viol("forecast:arity", "to_forecasting returned %d arrays" % len(res), c)
    m = max(n - f, 0)
    exp_shape = list(s.shape)
    exp_shape[ax] = m
    if list(Xf.shape) != exp_shape or list(yf.shape) != exp_shape:
        return _viol("forecast:length", "train+test parts do not have series length - forecast rows along the time axis", c,
                     exp_shape, [list(Xf.shape), list(yf.shape)])
    for i in range(m):
        if not np.array_equal(np.take(Xf, i, axis=ax), np.take(s, i, axis=ax)):
            return _viol("forecast:alignment", "input row %d is not row %d of the series" % (i, i), c,
                         np.take(s, i, axis=ax).tolist(), np.take(Xf, i, axis=ax).tolist())
        if not np.array_equal(np.take(yf, i, axis=ax), np.take(s, i + f, axis=ax)):
            return _viol("forecast:alignment", "target row %d is not row %d+forecast of the series" % (i, i), c,
                         np.take(s, i + f, axis=ax).tolist(), np.take(yf, i, axis=ax).tolist())
    # requested sizes (only when the request can be met: 1 <= test rows <= n - forecast)
    if c["ts"] is not None and c["ts"][0] == "int" and 1 <= tsv <= m:
        if k != tsv:
            return _viol("forecast:split-size", "test part does not have the requested number of rows", c, tsv, k)
    if c["ts"] is not None and c["ts"][0] == "ratio":
        want = Fraction(ts) * n
        if want + Fraction(1, 2) <= m - 1 and abs(k - want) > Fraction(1, 2) + Fraction(1, 10 ** 9):
            return _viol("forecast:split-size", "test part is not time_len*ratio rows (to the nearest integer)", c, float(want), k)
    if c["ts"] is None and len(res) != 2:
        return _viol("forecast:arity", "test parts returned although no test_size was given", c)
    return None


def _judge_onehot(c):
    ds = datasets()
    typ = c["typ"]
    if c["kind"] == "onehot":
        seqs, o = [c["labels"]], run_impl(c)
        encs, shapes = [o["enc"]], [o["shape"]]
    else:
        seqs, o = c["seqs"], run_impl(c)
        encs, shapes = o["enc"], o["shapes"]
    allv = [v for s in seqs for v in s]
    want_cls = sorted(set(allv))
    if [str(v) for v in o["classes"]] != [str(v) for v in want_cls]:
        return _viol("one_hot:classes", "class list is not the sorted duplicate-free list of labels", c, want_cls, o["classes"])
    kcls = len(want_cls)
    if len(encs) != len(seqs):
        return _viol("one_hot:pieces", "number of encoded sequences differs from the number of sequences", c, len(seqs), len(encs))
    for si, (s, e, sh) in enumerate(zip(seqs, encs, shapes)):
        if sh != [len(s), kcls]:
            lone = len(allv) == 1
            return _viol("one_hot:single-label-shape" if lone else "one_hot:shape",
                         "encoded sequence %d has shape %s instead of (%d, %d)" % (si, sh, len(s), kcls), c, [len(s), kcls], sh)
        for i, v in enumerate(s):
            want = [1.0 if cl == v else 0.0 for cl in want_cls]
            if e[i] != want:
                return _viol("one_hot:row", "row %d of sequence %d is not the unit vector of its label's class index" % (i, si), c, want, e[i])
    return None


def _judge_map(c):
    k = c["kind"]
    o = run_impl(c)
    out = o["out"]
    if not finite_small(o):
        return None
    n = c["n"]
    if k == "logistic":
        r, x0 = (3.9, 0.5) if c.get("defaults") else (float(F(c["r"])), float(F(c["x0"])))
        if o["shape"] != [n, 1]:
            return _viol("logistic:length", "logistic_map does not return (n_timesteps, 1)", c, [n, 1], o["shape"])
        if out[0][0] != x0:
            return _viol("logistic:x0", "first value is not x0", c, x0, out[0][0])
        for i in range(n - 1):
            x = Fraction(out[i][0])
            want = Fraction(r) * x * (1 - x)
            if not _close(want, out[i + 1][0]):
                return _viol("logistic:recurrence", "x[%d] != r x[%d] (1 - x[%d])" % (i + 1, i, i), c, float(want), out[i + 1][0])
        return None
    if k == "henon":
        a, b, x0 = (1.4, 0.3, [0.0, 0.0]) if c.get("defaults") else (float(F(c["a"])), float(F(c["b"])), [float(F(v)) for v in c["x0"]])
        if o["shape"] != [n, 2]:
            return _viol("henon:length", "henon_map does not return (n_timesteps, 2)", c, [n, 2], o["shape"])
        if out[0] != x0:
            return _viol("henon:x0", "first state is not x0", c, x0, out[0])
        for i in range(n - 1):
            x, y = Fraction(out[i][0]), Fraction(out[i][1])
            wx, wy = 1 - Fraction(a) * x * x + y, Fraction(b) * x
            if not (_close(wx, out[i + 1][0]) and _close(wy, out[i + 1][1])):
                return _viol("henon:recurrence", "state %d is not the Henon image of state %d" % (i + 1, i), c, [float(wx), float(wy)], out[i + 1])
        return None
    if k == "narma":
        a1, a2, b, cc = [Fraction(v) for v in par_values(c)]
        order = c["order"]
        u = [Fraction(float(F(v))) for v in c["u"]]
        x0 = [Fraction(0)] if c["x0"] is None else [Fraction(float(F(v))) for v in c["x0"]]
        if o["shape"] != [n, 1]:
            return _viol("narma:length", "narma does not return (n_timesteps, 1)", c, [n, 1], o["shape"])
        # full history: indices < order come from x0 (zero-padded); indices >= order are the returned values
        hist = [(x0[i] if i < len(x0) else Fraction(0)) for i in range(order)] + [Fraction(r[0]) for r in out]
        init = x0[order] if len(x0) > order else Fraction(0)
        if hist[order] != init:
            return _viol("narma:x0", "first returned value is not the initial condition at index `order`", c, float(init), out[0][0])

        def doc(t):      # documented: y[t+1] = a1 y[t] + a2 y[t] sum_{i<n} y[t-i] + b u[t-(n-1)] u[t] + c
            return a1 * hist[t] + a2 * hist[t] * sum(hist[t - i] for i in range(order)) + b * u[t - (order - 1)] * u[t] + cc

        def old(t):      # one step behind: sum_{i<n} y[t-1-i], u[t-n]
            return a1 * hist[t] + a2 * hist[t] * sum(hist[t - 1 - i] for i in range(order)) + b * u[t - order] * u[t] + cc
        for t in range(order, n + order - 1):
            if not _close(doc(t), hist[t + 1]):
                shifted = all(_close(old(s), hist[s + 1]) for s in range(order, n + order - 1))
                return _viol("narma:window-shift" if shifted else "narma:recurrence",
                             "y[%d] does not satisfy the documented NARMA recurrence%s" % (
                                 t + 1, " (it satisfies the recurrence with the window and u shifted one step back)" if shifted else ""),
                             c, float(doc(t)), float(hist[t + 1]))
        return None
    return None


def _judge(c):
    v = _judge0(c)
    if v is None:
        return None
    k = c["kind"]
    if k == "fc":
        # does the same call with plain Python ints satisfy the property?  then the defect is the numpy-integer handling
        ts = c["ts"]
        plain = dict(c, ftype=None, ts=(ts[:2] if ts is not None and ts[0] == "int" else ts))
        if plain != c and _judge0(plain) is None:
            if c.get("ftype") and _judge0(dict(c, ftype=None)) is None:
                return dict(v, key="forecast:numpy-int-forecast",
                            what="forecast given as numpy %s differs from the same Python int: %s" % (c["ftype"], v["what"]))
            return dict(v, key="forecast:numpy-int-test-size",
                        what="integer test_size given as numpy %s differs from the same Python int: %s" % (ts[2], v["what"]))
    if k == "narma" and c.get("x0form") in ("flat", "flat_array") and v["key"] == "narma:exception":
        if _judge0(dict(c, x0form="array")) is None:
            return dict(v, key="narma:x0-1d-rejected",
                        what="x0 of the documented shape (init_steps,) is rejected although the (k,1) column form works: %s" % v["what"])
    return v


def _judge0(c):
    """Decide the property's statement directly on the real code (no Coq model involved)."""
    k = c["kind"]
    try:
        if k == "fc":
            return _judge_fc(c)
        if k in ("onehot", "onehot_multi"):
            return _judge_onehot(c)
        if k in ("logistic", "henon", "narma"):
            return _judge_map(c)
        if k in ("fc_err", "logistic_err"):
            return None if run_impl(c).get("rejected") else _viol(k + ":accepted", "invalid argument accepted", c)
    except Exception as e:
        return _viol("%s:exception" % k.split("_")[0], "valid %s scenario raises %r" % (k, e), c)
    return None


def _judge_onehot_mixed_dtypes():
    """one_hot_encode on a LIST of label sequences whose arrays have different dtypes (numpy picks the width of a string array from its longest
    element; an integer sequence next to a float one): every label of every sequence is in the class list and is mapped to its unit vector"""
    ds = datasets()
    out = []
    probes = [("str", [["a", "b", "a"], ["cat", "a", "dog"], ["Dog", "ab"]]),
              ("str", [["b"], ["ca", "cat", "b"]]),
              ("num", [[1, 2, 1], [0.5, 2.0, 1.5]]),
              ("num", [[3, -1], [2.5, 3.0], [-1, 4]])]
    for typ, seqs in probes:
        c = {"kind": "onehot_mixed", "typ": typ, "seqs": seqs}
        try:
            arg = [np.array(s) for s in seqs]          # each array gets its own natural dtype (<U1 / <U3, int64 / float64)
            enc, cls = call_quiet(ds.one_hot_encode, arg)
            cls = list(np.asarray(cls).tolist())
            want = sorted(set(v for s in seqs for v in s))
            same = len(cls) == len(want) and all((a == b) for a, b in zip(cls, want))
            if not same:
                out.append(_viol("one_hot:mixed-dtype-sequences", "label sequences of dtypes %s: the class list is %r, not the sorted duplicate-free labels %r"
                                 % ([str(a.dtype) for a in arg], cls, want), c, want, cls))
                continue
            if len(enc) != len(seqs):
                out.append(_viol("one_hot:mixed-dtype-sequences", "label sequences of different dtypes: %d pieces for %d sequences" % (len(enc), len(seqs)), c))
                continue
            for si, (sq, e) in enumerate(zip(seqs, enc)):
                e = np.asarray(e)
                exp = np.array([[1.0 if cl == v else 0.0 for cl in want] for v in sq])
                if e.shape != exp.shape or not np.array_equal(e, exp):
                    out.append(_viol("one_hot:mixed-dtype-sequences", "label sequences of dtypes %s: sequence %d is not encoded by the unit vectors of its labels"
                                     % ([str(a.dtype) for a in arg], si), c, exp.tolist(), e.tolist()))
                    break
        except Exception as e:  # noqa: BLE001
            out.append(_viol("one_hot:mixed-dtype-sequences:exception", "one_hot_encode on label sequences of different dtypes raises %r" % (e,), c))
    return out


def oracle(ctx, scale=1):
    rng = ctx.rng("oracle")
    cases = gen_cases(rng, ctx.n(400, 4000) * scale, oracle=True)
    out, dist = [], {}
    for c in cases:
        dist[c["kind"]] = dist.get(c["kind"], 0) + 1
        v = _judge(c)
        if v:
            out.append(v)
    out += _judge_onehot_mixed_dtypes()
    return {"evaluations": len(cases) + 4, "violations": out, "distribution": dist,
            "rule": "direct recomputation on the real functions with Python fractions: row-by-row alignment along the time axis "
                    "(1-D/2-D/3-D, negative axes, arbitrary float ratios), class list = sorted(set(labels)) and unit rows, "
                    "every consecutive pair of logistic/Henon, every step of the documented NARMA recurrence"}


def replay(payload):
    if payload["scenario"].get("kind") == "onehot_mixed":
        vs = _judge_onehot_mixed_dtypes()
        return {"violates": bool(vs), "detail": vs[:1]}
    v = _judge(payload["scenario"])
    return {"violates": bool(v), "detail": v}
