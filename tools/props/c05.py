"""C05 — feedback is delayed by exactly one step; forced feedback replaces it."""
import numpy as np

from vlib import core, scen, scengen
from props import trainmodel
from props import fitfb

IMPORTS = scen.IMPORTS
TRUSTED = ["sub-model feedback senders: ModelSem / ProxySem model them in sync (all `_fb_flag`s agree: all nodes in the running model, entirely upstream or "
           "entirely downstream of the receiver); the flag-parity mechanism itself (reduced sender, senders straddling the receiver or lying partly "
           "outside the model, stand-alone calls, aborted steps) is modelled in coq/model/SubSender.v and tied to /repo by run/RunSubSender.v (family "
           "`subsender`): single receiver, chain senders of 2-3 nodes with one output node, nodes of a reduced sender without feedback of their own; "
           "a raising receiver is taken to raise after it read its feedback",
           "offline fit use of targets as forced feedback and ESN.fit: modelled in coq/model/FitFb.v (theorems C05_fit_forced_*, correspondence "
           "props/fitfb.py) and additionally probed by the implementation oracle"] + trainmodel.TRUSTED + fitfb.TRUSTED
ASSUMPTIONS = ["at rest all state proxies are None; receivers add 100 x feedback so that a timing error is an O(100) difference"] + trainmodel.ASSUMPTIONS + fitfb.ASSUMPTIONS


def sender_dim(sk):
    if sk["send"] is None:
        outs = sk["nodes"][sk["recv"]]["fb"]["model"]["outs"] if False else None
    nd = {n["id"]: n for n in sk["nodes"]}
    if sk["send"] is not None:
        return nd[sk["send"]]["odim"]
    return nd[nd[sk["recv"]]["fb"]["model"]["outs"][0]]["odim"]


def gen_scenario(rng, i, family=None):
    sk = scengen.gen_fb(rng, family)
    d = sk["dim"]
    sc = {"nodes": sk["nodes"], "models": sk["models"], "ops": list(sk["pre"]), "family": sk["family"], "recv": sk["recv"],
          "send": sk["send"], "dim": d, "tag": i}
    fbdim = sender_dim(sk)
    # unforced run, continued run, forced run (keyed by sender or receiver), call with forced feedback, reset run
    sc["ops"].append({"op": "run", "model": 0, "X": scengen.rows(rng, rng.randint(2, 5), d)})
    sc["ops"].append({"op": "run", "model": 0, "X": scengen.rows(rng, rng.randint(1, 3), d)})
    T = rng.randint(2, 4)
    keys = [sk["recv"]] + ([sk["send"]] if sk["send"] is not None else [])
    # an unfitted trainable node (a Ridge given its weights) must appear in any forced-feedback mapping (it is validated like a target)
    lins = [nd["id"] for nd in sk["nodes"] if nd["kind"] == "lin"]
    if lins:
        keys = lins
    key = rng.choice(keys)
    sc["ops"].append({"op": "run", "model": 0, "X": scengen.rows(rng, T, d), "fb": {str(key): scengen.rows(rng, T, fbdim)},
                      "shift_fb": rng.random() < 0.7, "reset": rng.random() < 0.3})
    sc["ops"].append({"op": "run", "model": 0, "X": scengen.rows(rng, rng.randint(1, 3), d)})
    if rng.random() < 0.5:
        sc["ops"].append({"op": "call", "model": 0, "x": scengen.rows(rng, 1, d)[0], "fb": {str(rng.choice(keys)): scengen.rows(rng, 1, fbdim)[0]}})
        sc["ops"].append({"op": "run", "model": 0, "X": scengen.rows(rng, 2, d)})
    if rng.random() < 0.4:
        sc["ops"].append({"op": "run", "model": 0, "X": scengen.rows(rng, rng.randint(2, 3), d), "reset": True})
    # one run over a LIST of sequences: every sequence starts from what the flags say (reset / restored states), in particular the
    # receiver's first step of sequence 2, 3, ... must not see the sender's last output of the previous sequence
    if rng.random() < 0.6:
        flags = rng.choice([{"reset": True}, {"stateful": False}, {"reset": True, "stateful": False}, {}])
        o = dict({"op": "runs", "model": 0, "Xs": [scengen.rows(rng, rng.randint(1, 3), d) for _ in range(rng.randint(2, 3))]}, **flags)
        if rng.random() < 0.3:
            o["fbs"] = {str(key): [scengen.rows(rng, len(x), fbdim) for x in o["Xs"]]}
            o["shift_fb"] = rng.random() < 0.7
        sc["ops"].append(o)
        sc["ops"].append({"op": "run", "model": 0, "X": scengen.rows(rng, 2, d)})
    # single-step calls that start from a reset / a given sender state: the receiver must see THAT state (zero / the given one)
    odim = {nd["id"]: nd["odim"] for nd in sk["nodes"]}
    in_model = sk["models"][0]["nodes"]
    if rng.random() < 0.6:
        sc["ops"].append({"op": "call", "model": 0, "x": scengen.rows(rng, 1, d)[0], "reset": True, "stateful": rng.random() < 0.5})
        sc["ops"].append({"op": "run", "model": 0, "X": scengen.rows(rng, 2, d)})
    if rng.random() < 0.6:
        ids = [j for j in in_model if rng.random() < 0.7] or [in_model[0]]
        sc["ops"].append({"op": "call", "model": 0, "x": scengen.rows(rng, 1, d)[0], "stateful": rng.random() < 0.5,
                          "from_state": {str(j): scengen.rows(rng, 1, odim[j])[0] for j in ids}})
        sc["ops"].append({"op": "run", "model": 0, "X": scengen.rows(rng, 2, d), "from_state": {str(j): scengen.rows(rng, 1, odim[j])[0] for j in ids[:1]}})
    return sc


def correspondence(ctx):
    rng = ctx.rng("corr")
    n = ctx.n(120, 1200)
    terms, keep, nt, dist = [], [], set(), {}
    for i in range(n):
        sc = gen_scenario(rng, i)
        try:
            b, obs = scen.run_history(sc)
            term = scen.to_coq(sc, b, obs)
        except Exception as e:
            terms.append("false")
            keep.append({"scenario": scen.jsonable(sc), "harness_error": repr(e)})
            continue
        terms.append(term)
        keep.append({"scenario": scen.jsonable(sc), "observed": scen.jsonable(obs)})
        dist[sc["family"]] = dist.get(sc["family"], 0) + 1
        if all(o["ok"] for o in obs) and any(abs(v) >= 50 for o in obs for step in o["outs"] for out in step for v in out) or sc["family"] in ("resfb", "resfb-fun"):
            nt.add(repr(scen.jsonable(sc)))
    failing, err = core.run_cases(ctx.pid, IMPORTS, terms, chunk=60)
    # online training of a model (coq/model/TrainModel.v, run/RunTrain.v): Model.train histories, evaluated under the sub-id <pid>_modeltrain
    mt = trainmodel.run(ctx, ctx.n(40, 300))
    dist["modeltrain"] = dict({k: mt[k] for k in ("evaluations", "distinct_nontrivial", "distribution", "rule")}, disagree=len(mt["failing"]))
    if mt["error"]:
        err = (err or "") + "modeltrain: " + mt["error"]
    # offline fit of models with feedback and ESN.fit (coq/model/FitFb.v, run/RunC06.v): same generator as C06, sub-id <pid>_fitfb
    ff = fitfb.run(ctx, ctx.n(21, 210))
    dist["fitfb"] = dict({k: ff[k] for k in ("evaluations", "distinct_nontrivial", "distribution", "rule")}, disagree=len(ff["failing"]))
    if ff["error"]:
        err = (err or "") + "fitfb: " + ff["error"]
    # sub-model senders through the flag-parity mechanism (coq/model/SubSender.v, run/RunSubSender.v), sub-id <pid>_subsender
    ss = subsender_run(ctx, ctx.n(60, 600))
    dist["subsender"] = dict({k: ss[k] for k in ("evaluations", "distinct_nontrivial", "distribution", "rule")}, disagree=len(ss["failing"]))
    if ss["error"]:
        err = (err or "") + "subsender: " + ss["error"]
    mt = dict(mt, evaluations=mt["evaluations"] + ss["evaluations"], distinct_nontrivial=mt["distinct_nontrivial"] + ss["distinct_nontrivial"],
              failing=mt["failing"] + ss["failing"])
    return {"evaluations": n + mt["evaluations"] + ff["evaluations"], "distinct_nontrivial": len(nt) + mt["distinct_nontrivial"] + ff["distinct_nontrivial"],
            "rule": "feedback topologies {sender downstream, upstream, outside the forward graph, sub-model upstream, sub-model downstream, reservoir<-readout}; "
                    "histories run / continued run / run with forced feedback keyed by sender or receiver (shift on/off, reset) / call with forced feedback; "
                    "non-trivial = a feedback contribution (x100) is visible in some output; distinct by scenario text",
            "samples": keep[:2], "distribution": dist, "tolerance": "1e-9 relative (qclose)",
            "failing": [dict(keep[i], index=i) for i in failing] + mt["failing"] + ff["failing"], "error": err}


# ------------------------------------------------------------------------------------------ family `subsender`
# Sub-model feedback senders through the flag-parity mechanism (coq/model/SubSender.v, run/RunSubSender.v): receiver before / between /
# after the sender's nodes, sender partly or wholly outside the model, reduced sender = one node (Node.call) or a chain of two
# (Model.call: proxies loaded and washed in mid-step), stand-alone calls of any node between the runs, steps aborted by a raising node,
# forced feedback.  The desynchronisation of the `_fb_flag` bits is real behaviour of HEAD: the model must PREDICT it, extra calls included.
SS_IMPORTS = ("From Coq Require Import List QArith.\nFrom RV Require Import base.Num model.ModelSem model.ProxySem model.Kinds model.SubSender "
              "run.RunModel run.RunSubSender.\nImport ListNotations.\nOpen Scope Q_scope.")
SS_FAMILIES = ["before", "after", "straddle", "partly-outside", "outside", "mixed"]
_ss_uid = [0]


def _ss_gen(rng, i, family=None):
    fam = family or SS_FAMILIES[i % len(SS_FAMILIES)]
    d = rng.choice([1, 1, 2])
    L = rng.choice([2, 2, 3])
    send = list(range(1, L + 1))
    nodes = [{"id": 0, "name": "R", "kind": "fbadd", "c": rng.choice([100, 100, core.fractions.Fraction(1, 8)]), "odim": d}]
    for j in send:
        if rng.random() < 0.6:
            nodes.append({"id": j, "name": "s%d" % j, "kind": "acc", "odim": d})
        else:
            nodes.append({"id": j, "name": "s%d" % j, "kind": "fun", "a": rng.choice([1, 2, -1, core.fractions.Fraction(1, 2)]), "b": rng.choice([0, 1, -2, 3]),
                          "odim": d})
    nodes.append({"id": 9, "name": "z", "kind": "fun", "a": rng.choice([1, -1, 2]), "b": rng.choice([0, 1]), "odim": d})
    if fam == "before":
        order = [0] + send
    elif fam == "after":
        order = send + [0]
    elif fam == "straddle":
        k = rng.randint(1, L - 1)
        order = send[:k] + [0] + send[k:]
    elif fam == "partly-outside":
        inside = [j for j in send if rng.random() < 0.5] or [send[0]]
        if len(inside) == L:
            inside = inside[:-1]
        order = inside + [0]
        rng.shuffle(order)
    elif fam == "outside":
        order = [0, 9] if rng.random() < 0.5 else [9, 0]
    else:
        inside = [j for j in send if rng.random() < 0.75]
        order = inside + [0]
        rng.shuffle(order)
    if 9 not in order and (len(order) < 2 or rng.random() < 0.3):
        order.insert(rng.randint(0, len(order)), 9)
    sc = {"tag": i, "family": fam, "dim": d, "nodes": nodes, "sender": send, "order": order, "ops": []}
    everyone = [0] + send + [9]

    def run_op(fail=None):
        T = rng.randint(1, 3)
        o = {"op": "run", "X": scengen.rows(rng, T, d)}
        if fail is None and rng.random() < 0.2:
            o["fb"] = scengen.rows(rng, T, d)
            o["shift_fb"] = rng.random() < 0.6
        if fail is not None:
            o["fail"] = [fail]
        return o
    sc["ops"].append(run_op())
    for _ in range(rng.randint(2, 5)):
        u = rng.random()
        if u < 0.35:
            sc["ops"].append(run_op())
        elif u < 0.6:       # ONE stand-alone call of a node (a sender node most of the time; the receiver reads its feedback then, too)
            sc["ops"].append({"op": "node", "n": rng.choice(send + send + everyone), "x": scengen.rows(rng, 1, d)[0]})
        elif u < 0.72:      # a run / call aborted by a node of the model raising at its first step
            sc["ops"].append(run_op(fail=rng.choice(order)))
        elif u < 0.8:       # a stand-alone receiver call whose reduced sender raises (only reached when the flags disagree)
            sc["ops"].append({"op": "node", "n": 0, "x": scengen.rows(rng, 1, d)[0], "fail": [rng.choice(send[1:])]})
        elif u < 0.9:
            o = {"op": "call", "x": scengen.rows(rng, 1, d)[0]}
            if rng.random() < 0.3:
                o["fb"] = scengen.rows(rng, 1, d)[0]
            sc["ops"].append(o)
        else:               # with R.with_feedback(v): R(x1); R(x2)  -- the forced value is consumed by the first read
            sc["ops"].append({"op": "withfb", "n": 0, "v": scengen.rows(rng, 1, d)[0], "xs": scengen.rows(rng, rng.randint(1, 3), d)})
        if rng.random() < 0.5:
            sc["ops"].append(run_op())
    sc["ops"].append(run_op())
    return sc


class _SSBuilt:
    """the real objects of a `subsender` scenario"""

    def __init__(self, sc):
        import functools
        import reservoirpy as rpy
        rpy.verbosity(0)
        from reservoirpy.node import Node
        _ss_uid[0] += 1
        pre = "ssn%s_%d" % (sc["tag"], _ss_uid[0])
        self.sc, self.fail, self.cnt, self.nodes = sc, set(), {}, {}
        d = sc["dim"]

        def init(node, x=None, **kw):
            node.set_input_dim(d); node.set_output_dim(d)

        def fb_init(node, feedback=None):
            node.set_feedback_dim(np.asarray(feedback).shape[-1])
        for nd in sc["nodes"]:
            self.cnt[nd["id"]] = 0
            self.nodes[nd["id"]] = Node(forward=self._forward(nd), initializer=init, fb_initializer=fb_init, input_dim=d, output_dim=d,
                                        name="%s_%s" % (pre, nd["name"]))
        self.sender = functools.reduce(lambda a, b: a >> b, [self.nodes[j] for j in sc["sender"]])
        self.nodes[0] <<= self.sender
        self.model = functools.reduce(lambda a, b: a >> b, [self.nodes[j] for j in sc["order"]])
        self.ids = {n.name: i for i, n in self.nodes.items()}

    def _forward(self, nd):
        i, k = nd["id"], nd["kind"]

        def fwd(node, x):
            self.cnt[i] += 1
            fb = np.asarray(node.feedback()).reshape(1, -1) if k == "fbadd" else None     # a raising receiver raises AFTER it read its feedback
            if i in self.fail:
                raise scen.Boom("node %d raises" % i)
            if k == "acc":
                return x + node.state()
            if k == "fun":
                return float(nd["a"]) * x + float(nd["b"])
            return x + float(nd["c"]) * fb
        return fwd

    def struct(self):
        """observed execution order and parents of the model and of the sender, by ids"""
        from reservoirpy.utils.graphflow import find_parents_and_children
        order = [self.ids[n.name] for n in self.model.nodes]
        par, _ = find_parents_and_children(self.model.edges)
        parents = {self.ids[c.name]: [self.ids[p.name] for p in ps] for c, ps in par.items() if ps}
        spar, _ = find_parents_and_children(self.sender.edges)
        sparents = {self.ids[c.name]: [self.ids[p.name] for p in ps] for c, ps in spar.items() if ps}
        red = self.nodes[0]._feedback._reduced_sender
        redo = [self.ids[n.name] for n in red.nodes] if hasattr(red, "nodes") else [self.ids[red.name]]
        return order, parents, {"all": [self.ids[n.name] for n in self.sender.nodes], "ins": [self.ids[n.name] for n in self.sender.input_nodes],
                                "outs": [self.ids[n.name] for n in self.sender.output_nodes], "red": redo, "parents": sparents}

    def observe(self):
        st = {i: np.asarray(n.state()).ravel().tolist() for i, n in self.nodes.items() if n.is_initialized and n.state() is not None}
        rest = all(n._state_proxy is None for n in self.nodes.values()) and not self.nodes[0]._feedback._clamped
        return {"states": st, "flags": {i: bool(n._fb_flag) for i, n in self.nodes.items()}, "calls": dict(self.cnt), "rest": bool(rest)}


def _ss_run_real(sc):
    b = _SSBuilt(sc)
    R = b.nodes[0]
    obs = []
    order = sc["order"]
    for o in sc["ops"]:
        b.fail = set(o.get("fail") or [])
        ok, outs = True, []
        try:
            if o["op"] == "run":
                kw = {}
                if o.get("fb") is not None:
                    kw = {"forced_feedbacks": {R.name: scen.fl(o["fb"])}, "shift_fb": o.get("shift_fb", True)}
                res = b.model.run(scen.fl(o["X"]), return_states="all", **kw)
                outs = [[np.asarray(res[b.nodes[j].name][t]).ravel().tolist() for j in order] for t in range(len(o["X"]))]
            elif o["op"] == "call":
                kw = {"forced_feedback": {R.name: scen.fl([o["fb"]])}} if o.get("fb") is not None else {}
                res = b.model.call(scen.fl([o["x"]]), return_states="all", **kw)
                outs = [[np.asarray(res[b.nodes[j].name]).ravel().tolist() for j in order]]
            elif o["op"] == "node":
                b.nodes[o["n"]].call(scen.fl([o["x"]]))
            else:
                with b.nodes[o["n"]].with_feedback(scen.fl([o["v"]])):
                    for x in o["xs"]:
                        b.nodes[o["n"]].call(scen.fl([x]))
        except scen.Boom:
            ok = False
        finally:
            b.fail = set()
        obs.append(dict(b.observe(), ok=ok, outs=outs))
    return b, obs


def _ss_to_coq(sc, b, obs):
    nat, q, qvec, qmat, coqlist, coqbool = core.nat, core.q, core.qvec, core.qmat, core.coqlist, core.coqbool
    order, parents, sub = b.struct()
    nodes = []
    for nd in sc["nodes"]:
        fb = "(Some (FbModel %s))" % coqlist([nat(j) for j in sub["outs"]]) if nd["id"] == 0 else "None"
        nodes.append("mkSN %s %s %s %s []" % (nat(nd["id"]), scen.kind_term(nd), fb, nat(nd["odim"])))
    plist = lambda ps: coqlist(["(%s, %s)" % (nat(c), coqlist([nat(p) for p in v])) for c, v in sorted(ps.items())])
    model = "mkSM %s %s %s" % (coqlist([nat(j) for j in order]), plist(parents), coqlist([nat(j) for j in sc["order"]]))
    ssub = "mkSSub 0%%nat %s %s %s %s %s" % (coqlist([nat(j) for j in sub["all"]]), coqlist([nat(j) for j in sub["ins"]]),
                                            coqlist([nat(j) for j in sub["outs"]]), coqlist([nat(j) for j in sub["red"]]), plist(sub["parents"]))
    entry = order[0]
    ops = []
    for o, ob in zip(sc["ops"], obs):
        fail = coqlist([nat(j) for j in (o.get("fail") or [])])
        if o["op"] == "run":
            t = "SRun 0%%nat %s %s %s %s" % (coqlist(["[(%s, %s)]" % (nat(entry), qvec(r)) for r in o["X"]]), coqbool(o.get("shift_fb", True)),
                                             ("[(0%%nat, %s)]" % qmat(o["fb"])) if o.get("fb") is not None else "[]", fail)
        elif o["op"] == "call":
            t = "SCallM 0%%nat [(%s, %s)] %s %s" % (nat(entry), qvec(o["x"]), ("[(0%%nat, %s)]" % qvec(o["fb"])) if o.get("fb") is not None else "[]", fail)
        elif o["op"] == "node":
            t = "SCallN %s %s %s" % (nat(o["n"]), qvec(o["x"]), fail)
        else:
            t = "SWithFb %s %s %s" % (nat(o["n"]), qvec(o["v"]), qmat(o["xs"]))
        obt = "mkSObs %s %s %s %s %s %s" % (coqbool(ob["ok"]), coqlist([qmat(step) for step in ob["outs"]]), scen.pairs(ob["states"], qvec),
                                            scen.pairs(ob["flags"], coqbool), scen.pairs(ob["calls"], nat), coqbool(ob["rest"]))
        ops.append("(%s, %s)" % (t, obt))
    return "chk_subsender %s [%s] [%s] %s" % (coqlist(nodes), model, ssub, coqlist(ops))


def _ss_interesting(sc, obs):
    """non-trivial = the reduced sender was really re-run at least once (some sender node entered more often than the model / the
    stand-alone calls account for) or the flags of the sender's nodes disagree at rest after some operation"""
    desync = any(len({ob["flags"][j] for j in sc["sender"]}) > 1 for ob in obs)
    return desync


def subsender_run(ctx, n):
    rng = ctx.rng("corr-subsender")
    terms, keep, nt, dist = [], [], set(), {}
    for i in range(n):
        sc = _ss_gen(rng, i)
        try:
            b, obs = _ss_run_real(sc)
            term = _ss_to_coq(sc, b, obs)
        except Exception as e:  # noqa: BLE001
            terms.append("false")
            keep.append({"kind": "subsender", "scenario": scen.jsonable(sc), "harness_error": repr(e)})
            continue
        terms.append(term)
        keep.append({"kind": "subsender", "scenario": scen.jsonable(sc), "observed": scen.jsonable(obs)})
        dist[sc["family"]] = dist.get(sc["family"], 0) + 1
        if _ss_interesting(sc, obs):
            nt.add(repr(scen.jsonable(sc)))
    ok, log, bad = core.compile_cone(core.coq_cone("run/RunSubSender.v"))
    if not ok:
        return {"evaluations": n, "distinct_nontrivial": len(nt), "distribution": dist, "rule": "", "failing": [],
                "error": "coqc failed on %s:\n%s" % (bad, log[-1500:])}
    failing, err = core.run_cases(ctx.pid + "_subsender", SS_IMPORTS, terms, chunk=20)
    return {"evaluations": n, "distinct_nontrivial": len(nt), "distribution": dist,
            "rule": "sub-model senders through the `_fb_flag` parity mechanism: receiver before / between / after the sender's nodes, sender partly or "
                    "wholly outside, stand-alone node calls, aborted steps, forced feedback; every per-step state, final states, flags, forward-entry "
                    "counts and at-rest flag compared; non-trivial = the sender's flags disagree at rest after some operation",
            "failing": [dict(keep[i], index="subsender:%d" % i) for i in failing], "error": err}


def subsender_replay(case):
    sc = case["scenario"]
    b, obs = _ss_run_real(sc)
    failing, err = core.run_cases("replay_subsender", SS_IMPORTS, [_ss_to_coq(sc, b, obs)])
    return {"violates": bool(failing) or bool(err), "detail": err}


# ------------------------------------------------------------------------------------------ oracle on the implementation
def _viol(key, what, sc, expected=None, observed=None):
    return {"key": key, "what": what, "scenario": scen.jsonable(sc), "expected": scen.jsonable(expected), "observed": scen.jsonable(observed)}


def _judge(sc):
    """Timing oracle on the real code for 'fbadd' receivers: out_R[t] = x_R[t] + 100 * fb[t] hence fb[t] = (out_R[t] - x_R[t]) / 100;
    the property says fb[t] = sender output at t-1 (pre-existing output at t = 0) or the forced value."""
    if sc["family"] in ("resfb", "resfb-fun"):
        return None
    b = scen.Built(sc)
    model = b.models[0]
    recv = b.nodes[sc["recv"]]
    nd = {n["id"]: n for n in sc["nodes"]}
    if sc["send"] is not None:
        sender = b.nodes[sc["send"]]
    else:
        sender = b.nodes[nd[sc["recv"]]["fb"]["model"]["outs"][0]]
    rng = core.random.Random(str(sc["tag"]))
    d = sc["dim"]
    for o in sc["pre"] if "pre" in sc else []:
        pass
    try:
        for o in sc["ops"]:
            if o["model"] != 0:
                b.models[o["model"]].call(scen.fl([o["x"]]))
        # input of the receiver: its single parent (if any) else the external input
        def recv_input(states, X, t):
            par = [a for a, c in sc["models"][0]["edges"] if c == sc["recv"]]
            return states[b.nodes[par[0]].name][t] if par else X[t]
        prev_sender = np.asarray(sender.state()).ravel() if sender.is_initialized and sender.state() is not None else None
        outside = sc["family"] == "outside"

        def sender_row(states, t):
            # a sender outside the forward graph is never called by the run: its output stays what it was
            return np.asarray(sender.state()).ravel() if outside else states[sender.name][t]
        for rep in range(2):
            T = rng.randint(2, 5)
            X = scen.fl(scengen.rows(rng, T, d))
            states = model.run(X, return_states="all")
            if prev_sender is None:
                prev_sender = np.zeros(sender_dim_sc(sc))
            for t in range(T):
                fb_seen = (states[recv.name][t] - recv_input(states, X, t)) / 100.0
                exp = prev_sender if t == 0 else sender_row(states, t - 1)
                if not np.allclose(fb_seen, exp, atol=1e-9):
                    same_step = np.allclose(fb_seen, sender_row(states, t), atol=1e-9)
                    key = "submodel-sender:same-step-value" if (sc["send"] is None and same_step) else \
                          ("node-sender:same-step-value" if same_step else "unforced:wrong-delay")
                    return _viol(key, "%s: at step %d the receiver saw %s, expected the sender's previous output %s"
                                 % (sc["family"], t, fb_seen.tolist(), np.asarray(exp).tolist()), sc, np.asarray(exp).tolist(), fb_seen.tolist())
            prev_sender = sender_row(states, T - 1)
        # forced feedback, keyed by receiver name; shift on and off
        for shift in (True, False):
            T = rng.randint(2, 4)
            X = scen.fl(scengen.rows(rng, T, d))
            Y = scen.fl(scengen.rows(rng, T, sender_dim_sc(sc)))
            fkey = sender.name if nd[sc["send"] if sc["send"] is not None else sc["recv"]]["kind"] == "lin" else recv.name
            states = model.run(X, forced_feedbacks={fkey: Y}, shift_fb=shift, return_states="all")
            for t in range(T):
                fb_seen = (states[recv.name][t] - recv_input(states, X, t)) / 100.0
                exp = (np.zeros_like(Y[0]) if t == 0 else Y[t - 1]) if shift else Y[t]
                if not np.allclose(fb_seen, exp, atol=1e-9):
                    return _viol("forced:wrong-value:shift=%s" % shift, "%s: forced feedback at step %d: receiver saw %s, expected %s"
                                 % (sc["family"], t, fb_seen.tolist(), exp.tolist()), sc, exp.tolist(), fb_seen.tolist())
        # a call / run that starts from a reset or from a given sender state sees exactly that state at its first step
        if not outside and sc["send"] is not None or sc["family"] in ("sub-up", "sub-down"):
            x1 = scen.fl(scengen.rows(rng, 1, d))
            r = model.call(x1, reset=True, return_states="all")
            fb_seen = (np.asarray(r[recv.name]).ravel() - recv_input({k: np.atleast_2d(v) for k, v in r.items()}, x1, 0)) / 100.0
            if not np.allclose(fb_seen, 0, atol=1e-9):
                return _viol("call:reset-not-seen-by-feedback", "%s: call(reset=True): the receiver saw %s instead of the zero state" % (sc["family"], fb_seen.tolist()),
                             sc, [0.0] * len(fb_seen), fb_seen.tolist())
            sv = scen.fl(scengen.rows(rng, 1, sender_dim_sc(sc)))
            r = model.call(x1, from_state={sender.name: sv}, return_states="all")
            fb_seen = (np.asarray(r[recv.name]).ravel() - recv_input({k: np.atleast_2d(v) for k, v in r.items()}, x1, 0)) / 100.0
            if not np.allclose(fb_seen, sv.ravel(), atol=1e-9):
                return _viol("call:from_state-not-seen-by-feedback", "%s: call(from_state={sender: s}): the receiver saw %s instead of s = %s"
                             % (sc["family"], fb_seen.tolist(), sv.ravel().tolist()), sc, sv.ravel().tolist(), fb_seen.tolist())
            r = model.run(scen.fl(scengen.rows(rng, 2, d)), from_state={sender.name: sv}, return_states="all")
        # one run over several sequences: the first step of EVERY sequence sees what the flags say the sender holds then --
        # zero with reset=True, the sender's state before the run with stateful=False, its last output otherwise
        if not outside:
            for flags in ({"reset": True}, {"stateful": False}, {}):
                model.run(scen.fl(scengen.rows(rng, 2, d)))                      # the sender holds a non-trivial output
                before = np.asarray(sender.state()).ravel().copy()
                Xs = [scen.fl(scengen.rows(rng, rng.randint(2, 3), d)) for _ in range(rng.randint(2, 3))]
                res = model.run(Xs, return_states="all", **flags)
                for k, Xk in enumerate(Xs):
                    stk = {name: seqs[k] for name, seqs in res.items()}
                    fb_seen = (stk[recv.name][0] - recv_input(stk, Xk, 0)) / 100.0
                    if flags.get("reset"):
                        exp = np.zeros_like(before)
                    elif flags.get("stateful") is False or k == 0:
                        exp = before
                    else:
                        exp = {name: seqs[k - 1] for name, seqs in res.items()}[sender.name][-1]
                    if not np.allclose(fb_seen, exp, atol=1e-9):
                        return _viol("multi-sequence:first-step-feedback:%s" % ("reset" if flags.get("reset") else "stateless" if "stateful" in flags else "stateful"),
                                     "%s: run over %d sequences with %s: at the first step of sequence %d the receiver saw %s, expected %s"
                                     % (sc["family"], len(Xs), flags or "default flags", k, fb_seen.tolist(), np.asarray(exp).tolist()), sc,
                                     np.asarray(exp).tolist(), fb_seen.tolist())
        # after a forced run the unforced semantics is back: first step sees the sender's last real output
        X = scen.fl(scengen.rows(rng, 2, d))
        last = np.asarray(sender.state()).ravel()
        states = model.run(X, return_states="all")
        fb_seen = (states[recv.name][0] - recv_input(states, X, 0)) / 100.0
        if not np.allclose(fb_seen, last, atol=1e-9):
            return _viol("forced:leaks-into-next-run", "%s: the first step after a forced run does not see the sender's last output" % sc["family"],
                         sc, last.tolist(), fb_seen.tolist())
    except Exception as e:
        return _viol("run:exception", "valid feedback scenario raises %r" % (e,), sc)
    return None


def sender_dim_sc(sc):
    nd = {n["id"]: n for n in sc["nodes"]}
    if sc["send"] is not None:
        return nd[sc["send"]]["odim"]
    return nd[nd[sc["recv"]]["fb"]["model"]["outs"][0]]["odim"]


def _judge_training(rng, tag):
    """fit uses the targets as forced feedback (shifted, zero first); train with force_teachers likewise; without, real feedback."""
    import reservoirpy as rpy
    rpy.verbosity(0)
    from reservoirpy.node import Node
    from reservoirpy.nodes import Ridge, RLS
    pre = "t%s" % tag
    seen = []

    def init(node, x=None, **kw):
        node.set_input_dim(x.shape[1]); node.set_output_dim(x.shape[1])

    def fwd(node, x):
        fb = np.asarray(node.feedback()).reshape(1, -1)
        seen.append(fb.ravel().copy())
        return x + 0 * fb[:, :1]
    T, d = 5, 1
    X = scen.fl(scengen.rows(rng, T, d)); Y = scen.fl(scengen.rows(rng, T, 1))
    out = []
    # offline fit: receiver sees Y shifted by one, zero first, for every sequence
    R = Node(forward=fwd, initializer=init, name=pre + "_R"); rd = Ridge(ridge=1.0, name=pre + "_rd")
    m = R >> rd; R <<= rd
    seen.clear(); m.fit([X, X], [Y, Y])
    exp = [np.zeros(1)] + [Y[t] for t in range(T - 1)]
    got = seen[-2 * T:]
    for s in range(2):
        for t in range(T):
            if not np.allclose(got[s * T + t], exp[t], atol=1e-12):
                out.append(_viol("fit:targets-not-forced", "offline fit: sequence %d step %d receiver saw %s, expected %s" % (s, t, got[s * T + t], exp[t]),
                                 {"tag": tag, "kind": "fit"}, exp[t].tolist(), got[s * T + t].tolist()))
                return out
    # online train with force_teachers
    for force in (True, False):
        R2 = Node(forward=fwd, initializer=init, name="%s_R%d" % (pre, force)); ro = RLS(name="%s_o%d" % (pre, force))
        m2 = R2 >> ro; R2 <<= ro
        seen.clear(); outs = m2.train(X, Y, force_teachers=force)
        for t in range(T):
            e = (np.zeros(1) if t == 0 else Y[t - 1]) if force else (np.zeros(1) if t == 0 else outs[t - 1])
            if not np.allclose(seen[-T + t], e, atol=1e-9):
                out.append(_viol("train:force_teachers=%s" % force, "online train: step %d receiver saw %s, expected %s" % (t, seen[-T + t], e),
                                 {"tag": tag, "kind": "train", "force": force}, np.asarray(e).tolist(), seen[-T + t].tolist()))
                return out
    # unforced online training with the sender UPSTREAM of the receiver: one-step delay from the very first step of every train call
    A = Node(forward=lambda n, x: 2 * x + 1, initializer=init, name=pre + "_A")
    R3 = Node(forward=fwd, initializer=init, name=pre + "_R3"); o3 = RLS(name=pre + "_o3")
    m3 = A >> R3 >> o3; R3 <<= A
    prevA = np.zeros(1)
    for rep in range(3):
        seen.clear(); m3.train(X, Y, force_teachers=False, learn_every=(1, 3, 2)[rep])
        for t in range(T):
            e = prevA if t == 0 else 2 * X[t - 1] + 1
            if not np.allclose(seen[-T + t], e, atol=1e-9):
                out.append(_viol("train:upstream-sender:wrong-delay", "online train call %d step %d: receiver saw %s, expected the sender's previous output %s"
                                 % (rep, t, seen[-T + t], e), {"tag": tag, "kind": "train", "force": False}, np.asarray(e).tolist(), seen[-T + t].tolist()))
                return out
        prevA = 2 * X[T - 1] + 1
    return out


def _judge_list_sender(rng, tag):
    """feedback from a LIST of senders (r <<= [a, b]): the receiver sees the side-by-side concatenation of the senders' previous outputs"""
    import reservoirpy as rpy
    rpy.verbosity(0)
    from reservoirpy.node import Node
    seen = []

    def init(node, x=None, **kw):
        node.set_input_dim(x.shape[1]); node.set_output_dim(x.shape[1])

    def rf(n, x):
        seen.append(np.asarray(n.feedback()).ravel().copy())
        return x
    ka, kb = float(rng.randint(2, 5)), float(rng.randint(6, 9))
    A = Node(forward=lambda n, x: x * ka, initializer=init, name="ls%s_A" % tag)
    B = Node(forward=lambda n, x: x + kb, initializer=init, name="ls%s_B" % tag)
    R = Node(forward=rf, initializer=init, name="ls%s_R" % tag)
    R <<= [A, B]
    down = rng.random() < 0.5
    m = (R >> A >> B) if down else (A >> B >> R)
    T = 4
    X = scen.fl(scengen.rows(rng, T, 1))
    try:
        m.run(X)
    except Exception as e:
        return _viol("list-sender:exception", "feedback from a list of nodes raises %r" % (e,), {"tag": tag, "kind": "list-sender", "down": down})
    a = X * ka
    b = (a if down else a) + kb
    for t in range(T):
        exp = np.zeros(2) if t == 0 else np.array([a[t - 1, 0], b[t - 1, 0]])
        got = seen[-T + t]
        if got.shape != exp.shape or not np.allclose(sorted(got), sorted(exp), atol=1e-9):
            return _viol("list-sender:not-all-delivered", "step %d: the receiver of feedback from [A, B] saw %s, expected the concatenation of both previous outputs %s"
                         % (t, got.tolist(), exp.tolist()), {"tag": tag, "kind": "list-sender", "down": down}, exp.tolist(), got.tolist())
    return None


def _judge_deep_fit_forcing(rng, tag):
    """offline fit of a deep model with two readouts fitted in different passes and feedback crossing the passes:
    inp-free chain R1 >> ro1 >> R2 >> ro2 with R1 <<= ro2 and R2 <<= ro1.  During Model.fit every receiver sees the TARGET of its
    sender shifted by one step (zero first), in every pass in which it is run."""
    import reservoirpy as rpy
    rpy.verbosity(0)
    from reservoirpy.node import Node
    from reservoirpy.nodes import Ridge
    seen = {"R1": [], "R2": []}

    def init(node, x=None, **kw):
        node.set_input_dim(x.shape[1]); node.set_output_dim(x.shape[1])

    def mk(key):
        def fwd(n, x):
            seen[key].append(np.asarray(n.feedback()).ravel().copy())
            return x
        return fwd
    T = 5
    X = scen.fl(scengen.rows(rng, T, 1)); Y1 = scen.fl(scengen.rows(rng, T, 1, lim=8)); Y2 = scen.fl(scengen.rows(rng, T, 1, lim=8))
    R1 = Node(forward=mk("R1"), initializer=init, name="df%s_R1" % tag); R2 = Node(forward=mk("R2"), initializer=init, name="df%s_R2" % tag)
    ro1 = Ridge(ridge=1.0, name="df%s_ro1" % tag); ro2 = Ridge(ridge=1.0, name="df%s_ro2" % tag)
    m = R1 >> ro1 >> R2 >> ro2
    R1 <<= ro2
    R2 <<= ro1
    sc = {"tag": tag, "kind": "deep-fit"}
    try:
        m.fit(X, {ro1.name: Y1, ro2.name: Y2})
    except Exception as ex:  # noqa: BLE001
        return _viol("fit:exception", "offline fit of a deep model with crossing feedback raises %r" % (ex,), sc)
    for key, Ys in (("R1", Y2), ("R2", Y1)):
        got = seen[key]
        if len(got) == 0 or len(got) % T != 0:
            return _viol("fit:targets-not-forced", "receiver %s was run %d times during the fit (expected a multiple of %d)" % (key, len(got), T), sc)
        for k in range(len(got) // T):
            for t in range(T):
                exp = np.zeros(1) if t == 0 else Ys[t - 1]
                if not np.allclose(got[k * T + t], exp, atol=1e-12):
                    return _viol("fit:targets-not-forced", "deep model fit: pass %d step %d receiver %s saw %s, expected its sender's target of the previous step %s"
                                 % (k, t, key, got[k * T + t].tolist(), np.asarray(exp).tolist()), sc, np.asarray(exp).tolist(), got[k * T + t].tolist())
    return None


def _judge_esn_forced(rng, tag):
    """ESN node with feedback: run(X, forced_feedbacks={readout: F}) must make the reservoir see F[t-1] (zero at t = 0), i.e. equal
    the explicit recurrence computed with the ESN's own matrices and the forced values"""
    import reservoirpy as rpy
    rpy.verbosity(0)
    from reservoirpy.nodes import ESN
    T, d = 6, 2
    X = scen.fl(scengen.rows(rng, T, d)); Y = scen.fl(scengen.rows(rng, T, 1)); Fv = scen.fl(scengen.rows(rng, T, 1, lim=8))
    e = ESN(units=3, lr=0.5, seed=int(rng.randint(0, 10 ** 6)), ridge=0.5, feedback=True, rc_connectivity=1., input_connectivity=1., fb_connectivity=1.,
            activation=scen.ACTS["id"], name="esnff%s" % tag)
    sc = {"tag": tag, "kind": "esn-forced"}
    try:
        e.fit(X, Y)
        res, rd = e.reservoir, e.readout
        W = np.asarray(res.W.todense() if hasattr(res.W, "todense") else res.W); Win = np.asarray(res.Win.todense() if hasattr(res.Win, "todense") else res.Win)
        Wfb = np.asarray(res.Wfb.todense() if hasattr(res.Wfb, "todense") else res.Wfb); bias = np.asarray(res.bias.todense() if hasattr(res.bias, "todense") else res.bias).reshape(-1)
        out = e.run(X, forced_feedbacks={rd.name: Fv}, reset=True, return_states=["reservoir"])["reservoir"]
    except Exception as ex:  # noqa: BLE001
        return _viol("esn-run:exception", "ESN.run with forced feedbacks raises %r" % (ex,), sc)
    r = np.zeros(3)
    for t in range(T):
        fb = np.zeros(1) if t == 0 else Fv[t - 1]
        r = 0.5 * r + 0.5 * (W @ r + Win @ X[t] + bias + Wfb @ fb)
        if not np.allclose(out[t], r, atol=1e-9):
            return _viol("esn-run:forced-feedback-ignored", "ESN.run(forced_feedbacks=...): step %d reservoir state %s differs from the recurrence driven by the forced values %s"
                         % (t, np.asarray(out[t]).tolist(), r.tolist()), sc, r.tolist(), np.asarray(out[t]).tolist())
    return None


def _judge_teacher_node(rng, tag):
    """online training with the targets given as a teacher NODE of the model (Model.train(X, teacher) or {readout: teacher}) and
    force_teachers=True: the feedback receiver sees the teacher node's output of the previous step, exactly as with array targets"""
    import reservoirpy as rpy
    rpy.verbosity(0)
    from reservoirpy.node import Node
    from reservoirpy.nodes import Input, RLS
    seen = []

    def init(node, x=None, **kw):
        node.set_input_dim(x.shape[1]); node.set_output_dim(x.shape[1])

    def fwd(node, x):
        seen.append(np.asarray(node.feedback()).ravel().copy())
        return x
    k = float(rng.randint(2, 5))
    T = 5
    X = scen.fl(scengen.rows(rng, T, 1))
    for form in ("node", "mapping"):
        inp = Input(name="tn%s%s_in" % (tag, form))
        R = Node(forward=fwd, initializer=init, name="tn%s%s_R" % (tag, form)); ro = RLS(name="tn%s%s_o" % (tag, form))
        teacher = Node(forward=lambda n, x: k * x + 1, initializer=init, name="tn%s%s_T" % (tag, form))
        R <<= ro
        m = inp >> [R >> ro, teacher]
        sc = {"tag": tag, "kind": "teacher-node", "form": form}
        seen.clear()
        try:
            m.train(X, teacher if form == "node" else {ro.name: teacher}, force_teachers=True)
        except Exception as ex:  # noqa: BLE001
            return _viol("train:teacher-node:exception", "online training with a teacher node (%s) raises %r" % (form, ex), sc)
        tv = k * X + 1
        for t in range(T):
            e = np.zeros(1) if t == 0 else tv[t - 1]
            if len(seen) < T or not np.allclose(seen[-T + t], e, atol=1e-9):
                return _viol("train:teacher-node-not-forced", "online train with a teacher node (%s), force_teachers=True: step %d receiver saw %s, expected the teacher's previous output %s"
                             % (form, t, seen[-T + t].tolist() if len(seen) >= T else None, np.asarray(e).tolist()), sc)
    return None


def _judge_teacher_node_gate(rng, tag):
    """teacher NODE + force_teachers=True beyond the first call with learn_every=1 (found through coq/model/TrainModel.v): the receiver must see
    the teacher's previous output also after a step on which learn_every skipped the update, and zero at the first step of EVERY train call"""
    import reservoirpy as rpy
    rpy.verbosity(0)
    from reservoirpy.node import Node
    from reservoirpy.nodes import Input, RLS
    seen, out = [], []

    def init(node, x=None, **kw):
        node.set_input_dim(x.shape[1]); node.set_output_dim(x.shape[1])

    def fwd(node, x):
        seen.append(np.asarray(node.feedback()).ravel().copy())
        return x
    k = float(rng.randint(2, 5))
    T = 5
    X = scen.fl(scengen.rows(rng, T, 1))
    X[:, 0] += 3.0          # teacher outputs k*x+1 stay away from zero and from the (near-exact) RLS predictions' coincidences
    tv = k * X + 1
    inp = Input(name="tg%s_in" % tag)
    R = Node(forward=fwd, initializer=init, name="tg%s_R" % tag); ro = RLS(name="tg%s_o" % tag)
    teacher = Node(forward=lambda n, x: k * x + 1, initializer=init, name="tg%s_T" % tag)
    R <<= ro
    m = inp >> [R >> ro, teacher]
    sc = {"tag": tag, "kind": "teacher-node-gate"}
    try:
        seen.clear(); m.train(X, teacher, force_teachers=True, learn_every=2)
        first = [s.copy() for s in seen[-T:]]
        seen.clear(); m.train(X, teacher, force_teachers=True)
        second = [s.copy() for s in seen[-T:]]
    except Exception as ex:  # noqa: BLE001
        return [_viol("train:teacher-node:exception", "online training with a teacher node raises %r" % (ex,), sc)]
    for t in range(1, T):
        if not np.allclose(first[t], tv[t - 1], atol=1e-9):
            out.append(_viol("train:teacher-node:not-forced-after-ungated-step", "Model.train(X, teacher_node, force_teachers=True, learn_every=2): at step %d the receiver saw %s "
                             "(the readout's own output) instead of the teacher's previous output %s" % (t, first[t].tolist(), tv[t - 1].tolist()), sc,
                             tv[t - 1].tolist(), first[t].tolist()))
            break
    if not np.allclose(second[0], 0.0, atol=1e-9):
        out.append(_viol("train:teacher-node:first-step-not-zero", "second Model.train(X, teacher_node, force_teachers=True) call: at its first step the receiver saw %s "
                         "(the readout's last output) instead of zero" % (second[0].tolist(),), sc, [0.0], second[0].tolist()))
    return out


def _judge_esn_handwired(rng, tag):
    """ESN node assembled from a reservoir that was wired to the readout by hand (res <<= readout; ESN(reservoir=res, readout=readout)):
    while fitting, the reservoir sees the targets shifted by one step (zero first) like any other offline fit"""
    import reservoirpy as rpy
    rpy.verbosity(0)
    from reservoirpy.nodes import ESN, Reservoir, Ridge
    T, d = 6, 2
    Xs = [scen.fl(scengen.rows(rng, T, d)) for _ in range(2)]; Ys = [scen.fl(scengen.rows(rng, T, 1, lim=8)) for _ in range(2)]
    res = Reservoir(3, lr=0.5, seed=int(rng.randint(0, 10 ** 6)), rc_connectivity=1., input_connectivity=1., fb_connectivity=1.,
                    activation=scen.ACTS["id"], name="esnhw%s_res" % tag)
    rd = Ridge(ridge=0.5, name="esnhw%s_rd" % tag)
    res <<= rd
    sc = {"tag": tag, "kind": "esn-handwired"}
    try:
        e = ESN(reservoir=res, readout=rd, name="esnhw%s" % tag)
        e.fit(Xs, Ys)
    except Exception as ex:  # noqa: BLE001
        return _viol("esn-fit:exception", "ESN built from a hand-wired feedback reservoir: fit raises %r" % (ex,), sc)
    dn = lambda a: np.asarray(a.todense() if hasattr(a, "todense") else a)
    W, Win, Wfb, bias = dn(res.W), dn(res.Win), dn(res.Wfb), dn(res.bias).reshape(-1)
    S = []
    for X, Y in zip(Xs, Ys):
        r = np.zeros(3)
        for t in range(T):
            fb = np.zeros(1) if t == 0 else Y[t - 1]
            r = 0.5 * r + 0.5 * (W @ r + Win @ X[t] + bias + Wfb @ fb)
            S.append(np.concatenate([[1.0], r]))
    S = np.array(S); Yall = np.vstack(Ys)
    Wref = np.linalg.solve(S.T @ S + 0.5 * np.eye(4), S.T @ Yall)
    got = np.vstack([dn(rd.bias).reshape(1, -1), dn(rd.Wout)])
    if not np.allclose(got, Wref, rtol=1e-7, atol=1e-9):
        return _viol("esn-fit:targets-not-forced", "ESN(reservoir=res, readout=rd) with res <<= rd: the fitted readout differs from ridge regression on the "
                     "states driven by the targets shifted by one step", sc, Wref.tolist(), got.tolist())
    return None


def _judge_fit_unforced(rng, tag):
    """offline fit with force_teachers=False: the targets still fit the readout, but the feedback receiver sees the sender's REAL previous
    output (the unfitted readout is not run during the fit: its pre-existing state) instead of the targets"""
    import reservoirpy as rpy
    rpy.verbosity(0)
    from reservoirpy.node import Node
    from reservoirpy.nodes import Ridge
    seen = []

    def init(node, x=None, **kw):
        node.set_input_dim(x.shape[1]); node.set_output_dim(x.shape[1])

    def fwd(node, x):
        fb = np.asarray(node.feedback()).reshape(1, -1)
        seen.append(fb.ravel().copy())
        return x + fb[:, :1]
    T = 5
    X = scen.fl(scengen.rows(rng, T, 1)); Y = scen.fl(scengen.rows(rng, T, 1, lim=8))
    sc = {"tag": tag, "kind": "fit-unforced"}
    R = Node(forward=fwd, initializer=init, name="fu%s_R" % tag); rd = Ridge(ridge=1.0, name="fu%s_rd" % tag)
    m = R >> rd; R <<= rd
    try:
        m.fit([X, X], [Y, Y], force_teachers=False)
    except Exception as ex:  # noqa: BLE001
        return _viol("fit:force_teachers=False:unusable", "Model.fit(X, Y, force_teachers=False) raises %r" % (ex,), sc)
    got = seen[-2 * T:]
    if len(got) < 2 * T or any(not np.allclose(g, 0.0, atol=1e-12) for g in got):
        return _viol("fit:unforced:receiver-saw-other-value", "offline fit with force_teachers=False: the receiver saw %s, expected the unfitted readout's own state (zeros)"
                     % [g.tolist() for g in got], sc)
    S = np.vstack([np.c_[np.ones(T), X], np.c_[np.ones(T), X]]); Yall = np.vstack([Y, Y])
    Wref = np.linalg.solve(S.T @ S + 1.0 * np.eye(2), S.T @ Yall)
    gotW = np.vstack([np.asarray(rd.bias).reshape(1, -1), np.asarray(rd.Wout)])
    if not np.allclose(gotW, Wref, rtol=1e-8, atol=1e-10):
        return _viol("fit:unforced:targets-not-used", "offline fit with force_teachers=False: the readout is not the ridge solution on the unforced states and the targets",
                     sc, Wref.tolist(), gotW.tolist())
    return None


def _judge_fit_submodel_sender(rng, tag):
    """offline fit, feedback sender = a SUB-MODEL that contains the readout being fitted (readout >> gain, or the list [readout]):
    the forced value is the sender's response to the targets, gain(Y[t-1]) resp. Y[t-1], zero at the first step of each sequence"""
    import reservoirpy as rpy
    rpy.verbosity(0)
    from reservoirpy.node import Node
    from reservoirpy.nodes import Ridge
    out = None
    for how in ("list", "chain"):
        seen = []

        def init(node, x=None, **kw):
            node.set_input_dim(x.shape[1]); node.set_output_dim(x.shape[1])

        def fb_init(node, feedback=None):
            node.set_feedback_dim(feedback.shape[1])

        def fwd(node, x):
            fb = np.asarray(node.feedback()).reshape(1, -1)
            seen.append(fb.ravel().copy())
            return x + 100.0 * fb[:, :1]

        def gain(node, x):
            return 2.0 * x
        T = 4
        X = scen.fl(scengen.rows(rng, T, 1)); Y = scen.fl(scengen.rows(rng, T, 1, lim=8)) + 3.0
        sc = {"tag": tag, "kind": "fit-submodel-sender", "how": how}
        R = Node(forward=fwd, initializer=init, fb_initializer=fb_init, name="fs%s%s_R" % (tag, how))
        rd = Ridge(ridge=1.0, name="fs%s%s_rd" % (tag, how))
        try:
            if how == "list":
                R <<= [rd]
                m = R >> rd
                f = lambda v: v
            else:
                g = Node(forward=gain, initializer=init, name="fs%s%s_g" % (tag, how))
                R <<= (rd >> g)
                m = R >> rd >> g
                f = lambda v: 2.0 * v
            m.fit([X, X], [Y, Y])
        except Exception as ex:  # noqa: BLE001
            return _viol("fit:submodel-sender:exception", "fit of a model whose feedback sender is a sub-model containing the readout (%s) raises %r" % (how, ex), sc)
        got = seen[-2 * T:]
        exp = [np.zeros(1) if t == 0 else f(Y[t - 1]) for _ in range(2) for t in range(T)]
        if len(got) < 2 * T or any(not np.allclose(g_, e_, atol=1e-9) for g_, e_ in zip(got, exp)):
            out = out or _viol("fit:submodel-sender-containing-trained-readout:targets-not-forced",
                               "offline fit, sender = %s: the receiver saw %s, expected the sender's response to the targets of the previous step %s"
                               % ("[readout]" if how == "list" else "readout >> gain", [g_.tolist() for g_ in got], [np.asarray(e_).tolist() for e_ in exp]), sc)
    return out


def _judge_standalone_train(rng, tag):
    """a readout trained ALONE with Node.train (teachers forced, the default), then reset, then used as feedback sender in a model run:
    the receiver's first step must see the sender's state after the reset (zero), not the last teacher value"""
    import reservoirpy as rpy
    rpy.verbosity(0)
    from reservoirpy.node import Node
    from reservoirpy.nodes import RLS
    seen = []

    def init(node, x=None, **kw):
        node.set_input_dim(x.shape[1]); node.set_output_dim(x.shape[1])

    def fwd(node, x):
        fb = np.asarray(node.feedback()).reshape(1, -1)
        seen.append(fb.ravel().copy())
        return x + 100.0 * fb[:, :1]
    T = 4
    X = scen.fl(scengen.rows(rng, T, 1)); Y = scen.fl(scengen.rows(rng, T, 1, lim=8)) + 3.0
    sc = {"tag": tag, "kind": "standalone-train"}
    ro = RLS(1, name="st%s_ro" % tag)
    R = Node(forward=fwd, initializer=init, name="st%s_R" % tag)
    try:
        ro.train(X, Y)
        ro.reset()
        R <<= ro
        m = R >> ro
        m.run(scen.fl(scengen.rows(rng, 2, 1)))
    except Exception as ex:  # noqa: BLE001
        return _viol("standalone-train:exception", "train alone, reset, then run in a feedback model raises %r" % (ex,), sc)
    if not seen or not np.allclose(seen[0], 0.0, atol=1e-12):
        return _viol("standalone-train:teacher-left-in-state-proxy", "after readout.train(X, Y) alone and readout.reset(), the first step of a model run hands the "
                     "feedback receiver %s (the last teacher value, still held in the sender's state proxy) instead of the reset state 0"
                     % (seen[0].tolist() if seen else None), sc, [0.0], seen[0].tolist() if seen else None)
    return None


def _judge_flag_parity(rng, tag):
    """sub-model sender (a >> b) inside the model r >> a >> b with r <<= (a >> b): after (i) ONE stand-alone call of b, or (ii) a run that
    failed inside b (a already called in that step), the next run's first step must hand r the sender's pre-existing output b.state(),
    and b must be called once per step"""
    import reservoirpy as rpy
    rpy.verbosity(0)
    from reservoirpy.node import Node
    out = []
    for route in ("standalone-call", "failed-step"):
        seen, cnt = [], {"n": 0, "boom": None}

        def init(node, x=None, **kw):
            node.set_input_dim(x.shape[1]); node.set_output_dim(x.shape[1])

        def fb_init(node, feedback=None):
            node.set_feedback_dim(feedback.shape[1])

        def fwd(node, x):
            fb = np.asarray(node.feedback()).reshape(1, -1)
            seen.append(float(fb[0, 0]))
            return x + fb[:, :1] / 8.0

        def acc(node, x):
            return node.state() + x

        def accb(node, x):
            cnt["n"] += 1
            if cnt["boom"] is not None and cnt["n"] == cnt["boom"]:
                raise RuntimeError("boom")
            return node.state() + x
        sc = {"tag": tag, "kind": "flag-parity", "route": route}
        X = scen.fl(scengen.rows(rng, 3, 1)) + 1.0
        try:
            R = Node(forward=fwd, initializer=init, fb_initializer=fb_init, name="fp%s%s_R" % (tag, route[:2]))
            a = Node(forward=acc, initializer=init, name="fp%s%s_a" % (tag, route[:2]))
            b = Node(forward=accb, initializer=init, name="fp%s%s_b" % (tag, route[:2]))
            m = R >> a >> b
            R <<= (a >> b)
            m.run(X)
            if route == "standalone-call":
                b.call(np.zeros((1, 1)))
            else:
                cnt["boom"] = cnt["n"] + 2
                try:
                    m.run(X)
                except RuntimeError:
                    pass
                cnt["boom"] = None
            seen.clear()
            before, nb = float(b.state()[0, 0]), cnt["n"]
            m.run(X)
        except Exception as ex:  # noqa: BLE001
            out.append(_viol("submodel-sender:flag-parity:exception", "route %s raises %r" % (route, ex), sc))
            continue
        if not seen or abs(seen[0] - before) > 1e-9 or cnt["n"] - nb != len(X):
            out.append(_viol("submodel-sender:flag-parity-desync:%s" % route,
                             "model r >> a >> b with r <<= (a >> b), after %s: the first step of the next run hands the receiver %r instead of the sender's "
                             "pre-existing output %r, and b is called %d times in a %d-step run"
                             % ("one stand-alone b.call()" if route == "standalone-call" else "a run that raised inside b (a already called in that step)",
                                seen[0] if seen else None, before, cnt["n"] - nb, len(X)), sc, [before], seen[:1]))
    return out


def _judge_straddling(rng, tag):
    """sub-model sender (a >> b) with the receiver placed BETWEEN its nodes (a >> R >> b, R <<= (a >> b)), fresh model: at step 0 the receiver sees the
    sender's pre-existing output (zero), at step k its output of step k-1, and b is called once per step"""
    import reservoirpy as rpy
    rpy.verbosity(0)
    from reservoirpy.node import Node
    seen, calls = [], [0]

    def init(node, x=None, **kw):
        node.set_input_dim(x.shape[1]); node.set_output_dim(x.shape[1])

    def fb_init(node, feedback=None):
        node.set_feedback_dim(feedback.shape[1])

    def recv(node, x):
        seen.append(float(np.asarray(node.feedback())[0, 0]))
        return x

    def fb(node, x):
        calls[0] += 1
        return 2.0 * x + 1.0
    sc = {"tag": tag, "kind": "straddling"}
    X = scen.fl(scengen.rows(rng, 3, 1)) + 1.0
    try:
        a = Node(forward=lambda n, x: x, initializer=init, name="sd%s_a" % tag)
        b = Node(forward=fb, initializer=init, name="sd%s_b" % tag)
        R = Node(forward=recv, initializer=init, fb_initializer=fb_init, name="sd%s_R" % tag)
        R <<= (a >> b)
        (a >> R >> b).run(X)
    except Exception as ex:  # noqa: BLE001
        return _viol("submodel-sender:straddling:exception", "a >> R >> b with R <<= (a >> b) raises %r" % (ex,), sc)
    exp = [0.0] + [2.0 * float(x[0]) + 1.0 for x in X[:-1]]
    if not np.allclose(seen, exp, atol=1e-9) or calls[0] != len(X):
        return _viol("submodel-sender:straddling-receiver:first-step-recomputed",
                     "fresh model a >> R >> b with R <<= (a >> b) (the receiver sits between the sender's nodes): the receiver sees %r, the one-step-delayed sender "
                     "outputs are %r; b is called %d times in a %d-step run (at the first step the flag bits of a and b disagree at read time, so the reduced sender "
                     "is re-run on a's proxy)" % (seen, exp, calls[0], len(X)), sc, exp, seen)
    return None


def judge(case):
    if case.get("kind") in ("modeltrain", "fitfb", "subsender"):       # Model.train history / fit-with-feedback scenario: decided by the correspondence only
        return None
    return _judge(case["scenario"])


def oracle(ctx, scale=1):
    rng = ctx.rng("oracle")
    n = ctx.n(60, 600) * scale
    out = []
    fams = ["down", "up", "outside", "sub-up", "sub-down"]
    for i in range(n):
        sc = gen_scenario(rng, "o%d" % i, fams[i % len(fams)])
        v = _judge(sc)
        if v:
            out.append(v)
    for i in range(ctx.n(3, 20)):
        out += _judge_training(rng, "%d_%d" % (ctx.seed, i))
        out += _judge_teacher_node_gate(rng, "%d_%d" % (ctx.seed, i))
        for v in (_judge_list_sender(rng, "%d_%d" % (ctx.seed, i)), _judge_esn_forced(rng, "%d_%d" % (ctx.seed, i)),
                  _judge_deep_fit_forcing(rng, "%d_%d" % (ctx.seed, i)), _judge_teacher_node(rng, "%d_%d" % (ctx.seed, i)),
                  _judge_esn_handwired(rng, "%d_%d" % (ctx.seed, i)), _judge_fit_unforced(rng, "%d_%d" % (ctx.seed, i)),
                  _judge_standalone_train(rng, "%d_%d" % (ctx.seed, i)), _judge_fit_submodel_sender(rng, "%d_%d" % (ctx.seed, i))):
            if v:
                out.append(v)
        out += _judge_flag_parity(rng, "%d_%d" % (ctx.seed, i))
        v = _judge_straddling(rng, "%d_%d" % (ctx.seed, i))
        if v:
            out.append(v)
    return {"evaluations": n + ctx.n(3, 20), "violations": out,
            "rule": "feedback value seen by a receiver (recovered from out = x + 100 fb) vs sender's previous output / forced value; fit and train forcing"}


def replay(payload):
    ffc = [c for c in payload.get("corr_cases", []) if c.get("kind") == "fitfb"]
    if ffc:                                    # a disagreeing fit-with-feedback scenario stored by the correspondence
        return fitfb.replay(ffc[0])
    ssc = [c for c in payload.get("corr_cases", []) if c.get("kind") == "subsender"]
    if ssc:                                    # a disagreeing sub-model-sender history stored by the correspondence
        return subsender_replay(ssc[0])
    mt = [c for c in payload.get("corr_cases", []) if c.get("kind") == "modeltrain"]
    if mt:                                     # a disagreeing Model.train history stored by the correspondence
        return trainmodel.replay(mt[0])
    sc = payload["scenario"]
    if sc.get("kind") == "deep-fit":
        vs = [v for v in (_judge_deep_fit_forcing(core.random.Random(i), "rd%d" % i) for i in range(4)) if v]
        return {"violates": bool(vs), "detail": vs[:1]}
    if sc.get("kind") == "fit-unforced":
        vs = [v for v in (_judge_fit_unforced(core.random.Random(i), "rf%d" % i) for i in range(3)) if v]
        return {"violates": bool(vs), "detail": vs[:1]}
    if sc.get("kind") == "fit-submodel-sender":
        vs = [v for v in (_judge_fit_submodel_sender(core.random.Random(i), "rm%d" % i) for i in range(3)) if v]
        return {"violates": bool(vs), "detail": vs[:1]}
    if sc.get("kind") == "straddling":
        vs = [v for v in (_judge_straddling(core.random.Random(i), "rs%d" % i) for i in range(2)) if v]
        return {"violates": bool(vs), "detail": vs[:1]}
    if sc.get("kind") == "flag-parity":
        vs = [v for i in range(2) for v in _judge_flag_parity(core.random.Random(i), "rf%d" % i) if v["key"] == payload.get("key", v["key"])]
        return {"violates": bool(vs), "detail": vs[:1]}
    if sc.get("kind") == "standalone-train":
        vs = [v for v in (_judge_standalone_train(core.random.Random(i), "rs%d" % i) for i in range(3)) if v]
        return {"violates": bool(vs), "detail": vs[:1]}
    if sc.get("kind") == "teacher-node-gate":
        vs = [v for i in range(3) for v in _judge_teacher_node_gate(core.random.Random(i), "rg%d" % i) if v["key"] == payload.get("key", v["key"])]
        return {"violates": bool(vs), "detail": vs[:1]}
    if sc.get("kind") == "teacher-node":
        vs = [v for v in (_judge_teacher_node(core.random.Random(i), "rt%d" % i) for i in range(4)) if v]
        return {"violates": bool(vs), "detail": vs[:1]}
    if sc.get("kind") == "esn-handwired":
        vs = [v for v in (_judge_esn_handwired(core.random.Random(i), "rh%d" % i) for i in range(4)) if v]
        return {"violates": bool(vs), "detail": vs[:1]}
    if sc.get("kind") == "esn-forced":
        vs = [v for v in (_judge_esn_forced(core.random.Random(i), "rq%d" % i) for i in range(4)) if v]
        return {"violates": bool(vs), "detail": vs[:1]}
    if sc.get("kind") == "list-sender":
        vs = [v for v in (_judge_list_sender(core.random.Random(i), "rp%d" % i) for i in range(6)) if v]
        return {"violates": bool(vs), "detail": vs[:1]}
    if sc.get("kind") in ("fit", "train"):
        v = _judge_training(core.random.Random(str(sc["tag"])), "rp")
        return {"violates": bool(v), "detail": v}
    v = _judge(sc)
    return {"violates": bool(v), "detail": v}


def pregen(ctx):
    """tie (T): re-translate Node.state_proxy / set_state_proxy / with_feedback (node.py), Model._load_proxys / _clean_proxys / with_feedback
    (model.py) and DistantFeedback.clamp / call_distant_node (_base.py) of the tree under test into coq/gen/Gen_feedback.v (translator
    vlib/py2coq_fb.py on top of vlib/py2coq_state.py, vocabulary coq/base/CtxPrelude.v + FbPrelude.v); proofs/Gen_feedback_eq.v then proves
    them equal to the operations of model/ProxySem.v and model/SubSender.v.  Returns None or the error text; on rejection a stub that does
    not compile replaces the file (never a stale model)."""
    import os
    import traceback
    from vlib import py2coq_fb
    path = os.path.join(core.COQ, "gen", "Gen_feedback.v")
    os.makedirs(os.path.dirname(path), exist_ok=True)
    err = None
    try:
        text = py2coq_fb.emit(core.REPO)
    except py2coq_fb.Reject as ex:
        err = "translation rejected: %s" % ex
    except Exception:
        err = "translator exception: " + traceback.format_exc()[-1500:]
    if err is not None:
        text = "(* GENERATED: translation of the feedback machinery FAILED -- %s *)\nDefinition translation_failed : True := 0.\n" % (
            err.replace("*)", "* )").replace("(*", "( *"))
    old = open(path).read() if os.path.exists(path) else None
    if old != text:               # keep the mtime (and the compiled cone) when nothing changed
        with open(path, "w") as f:
            f.write(text)
    return None if err is None else ("unit feedback (Node.state_proxy / set_state_proxy / with_feedback, Model._load_proxys / _clean_proxys / "
                                     "with_feedback, DistantFeedback.clamp / call_distant_node): %s" % err)
