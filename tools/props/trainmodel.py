"""Correspondence scenarios for coq/model/TrainModel.v (online training of a MODEL: Model.train), shared by C05 and C07.

terms(ctx, n) generates n seeded scenarios - small models with a feedback receiver (x + c*feedback node, or a Reservoir with Wfb)
fed back by an online readout (RLS / LMS) or by an upstream node, optionally a second readout, a Concat in front of the readout,
a teacher NODE fed by an Input node - runs 1-3 successive Model.train calls (learn_every 1-3, force_teachers on/off, sometimes
reset) on the real library and prints `chk_train` terms for coq/run/RunTrain.v: per-step states of every node, states after each
call and Wout / bias / P of every readout after each call are compared with the model at F := Q."""
from fractions import Fraction

import numpy as np

from vlib import core, scen, scengen
from vlib.core import q, qvec, qmat, nat, coqbool, coqlist

IMPORTS = ("From Coq Require Import List QArith.\nFrom RV Require Import base.Num model.ModelSem model.Kinds model.Online model.TrainModel "
           "run.RunModel run.RunTrain.\nImport ListNotations.\nOpen Scope Q_scope.")
TRUSTED = ["Model.train (online training of a model) is modelled in coq/model/TrainModel.v and tied to /repo by run/RunTrain.v on seeded histories "
           "(tools/props/trainmodel.py): stateful calls on one sequence, array or one-key-mapping inputs, targets as one array / {readout: array} / "
           "teacher node / {readout: teacher node}, RLS and LMS, learn_every 1-3, force_teachers on/off, reset.  Not modelled (oracle or not covered): "
           "from_state, stateful=False, readouts that themselves receive feedback, teacher nodes that are themselves online-trained, a forward "
           "function raising in the middle of a train call"]
ASSUMPTIONS = ["Model.train histories: RLS alpha in {1/2,1,2,4}, LMS rates dyadic <= 1/4, |feedback gain| <= 1, <= 8 steps (<= 6 with an RLS readout), "
               "dims <= 3, so float64 agrees with the exact rational run to 1e-9 relative; node ids distinct (NoDup) in the forcing theorems; every "
               "online readout of the description is a node of the model"]
FAMILIES = ["loop", "up", "two", "teacher", "concat"]


def _recv(rng, i, idim, fbdim, sender):
    """feedback receiver: out = x + c * fb (needs fbdim == idim) or a Reservoir with Wfb"""
    if fbdim == idim and rng.random() < 0.5:
        nd = scengen.make_node(rng, i, "fbadd", idim)
        nd["c"] = str(rng.choice([Fraction(1, 2), Fraction(-1, 2), Fraction(1, 4), Fraction(1)]))
    else:
        nd = scengen.make_node(rng, i, "res", idim)
        u = 2       # two units: exact rational RLS on a 2- or 3-dimensional input stays small
        nd.update(W=scengen.mat(rng, u, u, 2, 2), Win=scengen.mat(rng, u, idim, 2, 1), bias=[scengen.dy(rng, 2, 1) for _ in range(u)],
                  lr=[str(Fraction(rng.randint(1, 4), 4))] * u, odim=u)
        nd.update(kind="resfb", Wfb=scengen.mat(rng, u, fbdim, 2, 1), fbact=rng.choice(["id", "relu", "half"]))
    nd["fb"] = {"node": sender}
    return nd


def _readout(rng, i, idim, odim):
    rule = rng.choice(["rls", "lms"])
    nd = {"id": i, "name": "n%d" % i, "kind": rule, "idim": idim, "odim": odim, "bias": rng.random() < 0.7}
    nd["alpha"] = str(rng.choice([Fraction(1, 2), Fraction(1), Fraction(2), Fraction(4)]) if rule == "rls" else
                      rng.choice([Fraction(1, 4), Fraction(1, 8), Fraction(1, 16)]))
    return nd


def gen_scenario(rng, tag, family=None):
    fam = family or rng.choice(FAMILIES)
    d = 1 if fam == "concat" else rng.randint(1, 2)
    teachers = {}
    if fam == "loop":
        o = rng.randint(1, 2)
        r = _recv(rng, 0, d, o, 1)
        nodes = [r, _readout(rng, 1, r["odim"], o)]
        edges = [[0, 1]]
    elif fam == "up":
        o = rng.randint(1, 2)
        up = scengen.make_node(rng, 0, rng.choice(["fun", "acc"]), d)
        sender = rng.choice([0, 2])
        r = _recv(rng, 1, d, d if sender == 0 else o, sender)
        nodes = [up, r, _readout(rng, 2, r["odim"], o)]
        edges = [[0, 1], [1, 2]]
    elif fam == "concat":      # [up, recv] >> readout : reservoirpy inserts a Concat node
        o = rng.randint(1, 2)
        up = scengen.make_node(rng, 0, rng.choice(["fun", "acc"]), d)
        sender = rng.choice([0, 2])
        r = _recv(rng, 1, d, d if sender == 0 else o, sender)
        nodes = [up, r, _readout(rng, 2, d + r["odim"], o)]
        edges = [[0, 1], [0, 2], [1, 2]]
    elif fam == "two":
        o1, o2 = rng.randint(1, 2), rng.randint(1, 2)
        chain = rng.random() < 0.4
        sender = rng.choice([1, 2])
        r = _recv(rng, 0, d, o1 if sender == 1 else o2, sender)
        ro1 = _readout(rng, 1, r["odim"], o1)
        ro2 = _readout(rng, 2, o1 if chain else r["odim"], o2)
        nodes = [r, ro1, ro2]
        edges = [[0, 1], [1, 2]] if chain else [[0, 1], [0, 2]]
    else:  # teacher: inp >> [recv >> ro, teacher]; the readout's targets are the teacher node's outputs
        inp = {"id": 0, "name": "n0", "kind": "input", "idim": d, "odim": d}
        t = scengen.make_node(rng, 3, "fun", d)
        r = _recv(rng, 1, d, d, 2)
        nodes = [inp, r, _readout(rng, 2, r["odim"], d), t]
        edges = [[0, 1], [1, 2], [0, 3]]
        teachers = {2: 3}
    rds = [nd["id"] for nd in nodes if nd["kind"] in ("rls", "lms")]
    odim = {nd["id"]: nd["odim"] for nd in nodes}
    if teachers:
        yform = rng.choice(["node", "nodemap"])
    elif len(rds) == 1 or (len({odim[i] for i in rds}) == 1 and rng.random() < 0.3):
        yform = rng.choice(["array", "mapping"]) if len(rds) == 1 else "array"
    else:
        yform = "mapping"
    ncalls = rng.choice([1, 2, 2, 3])
    # exact rational arithmetic through an unforced loop with an RLS readout grows fast: fewer steps there
    budget, calls = (6 if any(nd["kind"] == "rls" for nd in nodes) else 8), []
    for c in range(ncalls):
        T = rng.randint(1, min(5, budget - (ncalls - 1 - c)))
        budget -= T
        call = {"k": rng.choice([1, 1, 2, 3]), "force": rng.random() < 0.5, "reset": rng.random() < 0.15, "X": scengen.rows(rng, T, d, 2, 1),
                "xmap": rng.random() < 0.3}       # xmap: X passed as a one-key {entry node name: array} mapping
        if not teachers:
            if yform == "array":
                Y = scengen.rows(rng, T, odim[rds[0]], 2, 1)
                call["Y"] = {str(i): Y for i in rds}
            else:
                call["Y"] = {str(i): scengen.rows(rng, T, odim[i], 2, 1) for i in rds}
        calls.append(call)
    return {"family": fam, "tag": tag, "dim": d, "nodes": nodes, "edges": edges, "teachers": {str(a): b for a, b in teachers.items()},
            "yform": yform, "calls": calls}


# ------------------------------------------------------------------------------------------ real library
class TBuilt(scen.Built):
    """scen.Built for one model whose description may contain online readouts"""

    def __init__(self, sc):  # noqa: super().__init__ is replaced on purpose (readout kinds)
        from reservoirpy.model import Model
        from reservoirpy.nodes import LMS, RLS
        scen.rpy()
        self.sc = dict(sc, models=[{"nodes": [nd["id"] for nd in sc["nodes"]], "edges": sc["edges"]}])
        self.prefix = "tm%d" % next(scen._uid)
        self.nodes = {}
        for nd in sc["nodes"]:
            name = "%s_%s" % (self.prefix, nd["name"])
            if nd["kind"] == "rls":
                self.nodes[nd["id"]] = RLS(alpha=float(Fraction(nd["alpha"])), input_bias=nd["bias"], name=name)
            elif nd["kind"] == "lms":
                self.nodes[nd["id"]] = LMS(alpha=float(Fraction(nd["alpha"])), input_bias=nd["bias"], name=name)
            else:
                self.nodes[nd["id"]] = scen.build_node(nd, self.prefix)
        self.desc = {nd["id"]: nd for nd in sc["nodes"]}
        self.extra, self.extra_dim = {}, {}
        self.models = [Model([self.nodes[nd["id"]] for nd in sc["nodes"]], [(self.nodes[a], self.nodes[b]) for a, b in sc["edges"]],
                             name="%s_m" % self.prefix)]
        for nd in sc["nodes"]:
            if nd.get("fb"):
                self.nodes[nd["id"]] <<= self.nodes[nd["fb"]["node"]]
        self.ids = {n.name: i for i, n in self.nodes.items()}


def run_real(sc):
    """Runs the train calls.  Returns (TBuilt, [obs per call]); obs = {steps: [{id: row}], states: {id: row}, params: {rid: (W, b, P)}}"""
    b = TBuilt(sc)
    m = b.models[0]
    rds = [nd["id"] for nd in sc["nodes"] if nd["kind"] in ("rls", "lms")]
    obs = []
    for call in sc["calls"]:
        X = scen.fl(call["X"])
        if sc["yform"] == "node":
            Y = b.nodes[list(sc["teachers"].values())[0]]
        elif sc["yform"] == "nodemap":
            Y = {b.nodes[int(r)].name: b.nodes[t] for r, t in sc["teachers"].items()}
        elif sc["yform"] == "array":
            Y = scen.fl(call["Y"][str(rds[0])])
        else:
            Y = {b.nodes[int(r)].name: scen.fl(rows) for r, rows in call["Y"].items()}
        if call.get("xmap"):
            X = {m.input_nodes[0].name: X}
        out = m.train(X, Y, force_teachers=call["force"], learn_every=call["k"], reset=call["reset"], return_states="all")
        b.model_struct(0)      # registers inserted Concat nodes
        T = len(call["X"])
        steps = [{i: np.asarray(out[n.name], dtype=float).reshape(T, -1)[t].tolist() for i, n in b.all_nodes().items()} for t in range(T)]
        states = {i: np.asarray(n.state(), dtype=float).ravel().tolist() for i, n in b.all_nodes().items()}
        params = {}
        for r in rds:
            n = b.nodes[r]
            P = np.asarray(n.P, dtype=float).tolist() if b.desc[r]["kind"] == "rls" else []
            params[r] = (np.asarray(n.Wout, dtype=float).tolist(), np.asarray(n.bias, dtype=float).ravel().tolist(), P)
        obs.append({"steps": steps, "states": states, "params": params,
                    "rest": scen.at_rest(b), "teachers_left": [b.nodes[r]._teacher is not None for r in rds]})
    return b, obs


# ------------------------------------------------------------------------------------------ Gallina
def _rule(nd):
    if nd["kind"] == "rls":
        return "(RuleRLS %s)" % coqbool(nd["bias"])
    return "(RuleLMS ([], %s) %s)" % (q(nd["alpha"]), coqbool(nd["bias"]))


def to_coq(sc, b, obs):
    order, parents, outs = b.model_struct(0)
    odim = {nd["id"]: nd["odim"] for nd in sc["nodes"]}
    nodes = []
    for nd in sc["nodes"]:
        if nd["kind"] in ("rls", "lms"):
            nodes.append("mkSN %s KId None %s []" % (nat(nd["id"]), nat(nd["odim"])))
        else:
            nodes.append("mkSN %s %s %s %s %s" % (nat(nd["id"]), scen.kind_term(nd), scen.fb_term(nd, b), nat(nd["odim"]), scen.hid_term(nd)))
    for i in order:
        if i >= 1000:
            odim[i] = sum(odim[p] for p in parents.get(i, []))
            nodes.append("mkSN %s KId None %s []" % (nat(i), nat(odim[i])))
    sm = "(mkSM %s %s %s)" % (coqlist([nat(i) for i in order]),
                              coqlist(["(%s, %s)" % (nat(c), coqlist([nat(p) for p in ps])) for c, ps in sorted(parents.items())]),
                              coqlist([nat(i) for i in outs]))
    rds = []
    for nd in sc["nodes"]:
        if nd["kind"] in ("rls", "lms"):
            idim = sum(odim[p] for p in parents.get(nd["id"], [])) or nd["idim"]
            t = sc["teachers"].get(str(nd["id"]))
            rds.append("mkSR %s %s %s %s %s %s" % (nat(nd["id"]), _rule(nd), nat(idim), nat(nd["odim"]),
                                                   "TArr" if t is None else "(TNode %s)" % nat(t), q(nd["alpha"])))
    entries = [i for i in order if not parents.get(i)]
    calls = []
    for call, ob in zip(sc["calls"], obs):
        steps = []
        for t, row in enumerate(call["X"]):
            ext = scen.pairs({i: row for i in entries}, qvec)
            tgt = scen.pairs({int(r): rows[t] for r, rows in (call.get("Y") or {}).items()}, qvec)
            steps.append("(%s, %s)" % (ext, tgt))
        tc = "mkTC %s %s %s %s" % (nat(call["k"]), coqbool(call["force"]), coqbool(call["reset"]), coqlist(steps))
        to = "mkTO %s %s %s" % (coqlist([scen.pairs(s, qvec) for s in ob["steps"]]), scen.pairs(ob["states"], qvec),
                                coqlist(["(%s, %s, %s, %s)" % (nat(r), qmat(W), qvec(bb), qmat(P)) for r, (W, bb, P) in sorted(ob["params"].items())]))
        calls.append("(%s, %s)" % (tc, to))
    return "chk_train %s %s %s %s" % (coqlist(nodes), sm, coqlist(rds), coqlist(calls))


def n_updates(sc):
    return sum(1 for c in sc["calls"] for i in range(len(c["X"])) if i % c["k"] == 0 or len(c["X"]) == 1)


def terms(ctx, n, stream="modeltrain"):
    """-> (terms, keep, stats): n seeded scenarios run on the real library; keep[i] carries the scenario JSON (replayable) and the observations"""
    rng = ctx.rng(stream)
    out, keep, dist, nt = [], [], {}, set()
    for i in range(n):
        sc = gen_scenario(rng, "%s%d" % (stream, i), FAMILIES[i % len(FAMILIES)])
        try:
            b, obs = run_real(sc)
            term = to_coq(sc, b, obs)
        except Exception as e:  # noqa: BLE001
            out.append("false")
            keep.append({"scenario": scen.jsonable(sc), "kind": "modeltrain", "harness_error": repr(e)})
            continue
        out.append(term)
        keep.append({"scenario": scen.jsonable(sc), "kind": "modeltrain", "observed": scen.jsonable(obs)})
        for key in ([sc["family"], "yform=" + sc["yform"], "calls=%d" % len(sc["calls"])] +
                    sorted({"rule=" + nd["kind"] for nd in sc["nodes"] if nd["kind"] in ("rls", "lms")}) +
                    sorted({"force=%s" % c["force"] for c in sc["calls"]}) + sorted({"learn_every=%d" % c["k"] for c in sc["calls"]})):
            dist[key] = dist.get(key, 0) + 1
        if n_updates(sc) >= 2 and sum(len(c["X"]) for c in sc["calls"]) >= 3:
            nt.add(repr(scen.jsonable(sc)))
    return out, keep, {"evaluations": n, "distinct_nontrivial": len(nt), "distribution": dist,
                       "rule": "Model.train histories (1-3 calls, <= 8 steps, learn_every 1-3, force_teachers on/off) on models with a feedback receiver fed by an "
                               "online readout or an upstream node; non-trivial = at least two learning updates and three steps; distinct by scenario text"}


def run(ctx, n):
    """evaluate the scenarios; -> dict(evaluations, distinct_nontrivial, distribution, failing, error)"""
    ts, keep, stats = terms(ctx, n)
    ok, log, bad = core.compile_cone(core.coq_cone("run/RunTrain.v"))      # no-op when run/RunTrain.vo is up to date
    if not ok:
        return dict(stats, failing=[], error="coqc failed on %s:\n%s" % (bad, log[-1500:]))
    failing, err = core.run_cases(ctx.pid + "_modeltrain", IMPORTS, ts, chunk=20)
    return dict(stats, failing=[dict(keep[i], index="modeltrain:%d" % i) for i in failing], error=err)


def replay(payload):
    """re-run a stored scenario on the real library and in Coq"""
    sc = payload["scenario"]
    b, obs = run_real(sc)
    failing, err = core.run_cases("replay_modeltrain", IMPORTS, [to_coq(sc, b, obs)])
    return {"violates": bool(failing) or bool(err), "detail": err}
