"""C11 — training touches only what it should and sessions are isolated.

Correspondence: random histories of run / partial_fit / fit / train / freeze on real Ridge, RLS, LMS, ScikitLearnNode(sklearn Ridge),
a custom default-buffer node (SumOffline) and reservoir >> readout(s) models; after every operation the sha256 of every parameter,
the buffer flags and the learned values are handed to coq/run/RunC11.v, which runs coq/model/TrainSem.v (kernels at Q) on the same
history.  Oracle: decides the statement directly on the real objects (no Coq)."""
import copy
import hashlib
import json
from fractions import Fraction

import numpy as np

from vlib import core
from vlib.core import q, qmat, qvec, nat, coqbool, coqlist

IMPORTS = ("From Coq Require Import List QArith.\nFrom RV Require Import base.Num model.TrainSem model.TrainSemQ run.RunC11.\n"
           "Import ListNotations.\nOpen Scope Q_scope.")
TRUSTED = [
    "the numeric kernels of model/TrainSem.v are Section variables (acc0, acc_step, bk_buf, bk_def, train_fn, fwd): every C11 theorem "
    "holds for all of them; the runs instantiate them with model/Ridge.v (Gauss-Jordan over Q for LAPACK; None = LinAlgError on an "
    "exactly singular system), model/Online.v (RLS / LMS) and a concatenate-and-sum rule for the default-buffer node",
    "feature oracle: what a readout inside a Model receives is obtained by running a deep copy of the real reservoir (taken just before "
    "the operation) on the same sequences; the reservoir's forward function is not modelled here (C01/C02 do that)",
    "parameter identity is observed through sha256 of dtype+shape+bytes of every array in node.params (sparse -> dense), repr of scalar "
    "hypers, coef_/intercept_ of scikit-learn estimators; Reservoir.params['internal_state'] is state, not a weight, and is excluded",
    "exception classification: no exception = Done; TypeError / RuntimeError = Rejected; ValueError 'Warmup set to' = FailedPartial; "
    "anything else = FailedBackward",
]
ASSUMPTIONS = [
    "models have one training stage (reservoir >> readout(s), no feedback, no readout feeding another trained node)",
    "a batch fails only through a sequence not longer than the warm-up; the learning rule fails only on an exactly singular system "
    "(ridge = 0 with a null input column) or on np.concatenate of ragged default buffers",
    "node initialisation (parameters going from None to their first value) is not a change; IPReservoir and memmap files on disk "
    "(clean_tempfile) are not observed",
]

_uid = [0]


def uname(prefix):
    _uid[0] += 1
    return "c11_%s_%d" % (prefix, _uid[0])


def rpy():
    import reservoirpy
    reservoirpy.verbosity(0)
    return reservoirpy


def rows(rng, T, dim, lim=6, maxpow=1):
    return [[core.dyadic(rng, lim, maxpow) for _ in range(dim)] for _ in range(T)]


def farr(rs, dim):
    return np.array([[float(Fraction(v)) for v in r] for r in rs], dtype=float).reshape(len(rs), dim)


def jsonable(c):
    return json.loads(json.dumps(c, default=lambda f: str(f)))


def hardtanh(x):
    return np.clip(x, -1.0, 1.0)


# ------------------------------------------------------------------------------------------ real nodes
def so_forward(node, x):
    return np.zeros((x.shape[0], node.output_dim))


def so_backward(node, X=None, Y=None):
    X_ = np.concatenate(X, axis=0)
    Y_ = np.concatenate(Y, axis=0)
    node.set_param("b", np.array([X_.sum(), Y_.sum(), float(len(X_)), float(len(Y_))]))


def so_initialize(node, x=None, y=None):
    if x is not None:
        node.set_input_dim(x.shape[1])
        if node.output_dim is None:
            node.set_output_dim(y.shape[1])


def make_sumoffline(dout, name):
    """A custom offline node that relies on the default partial_backward (buffers _X / _Y), like ScikitLearnNode."""
    from reservoirpy.node import Node
    return Node(params={"b": None}, forward=so_forward, backward=so_backward, initializer=so_initialize, output_dim=dout, name=name)


LEARNED = {"ridge": ("Wout", "bias"), "rls": ("Wout", "bias", "P"), "lms": ("Wout", "bias"), "sumoff": ("b",),
           "sklearn": ("instances",), "res": ()}
EXCLUDED = {"res": ("internal_state",)}


def build_node(spec):
    rpy()
    from reservoirpy.nodes import LMS, RLS, Reservoir, Ridge, ScikitLearnNode
    k, d, dout = spec["kind"], spec["din"], spec["dout"]
    nm = uname(k)
    if k == "res":
        return Reservoir(units=d, lr=float(Fraction(spec["lr"])), W=farr(spec["W"], d), Win=farr(spec["Win"], spec["xin"]),
                         bias=farr(spec["b"], 1), activation=hardtanh, name=nm)
    if k == "ridge":
        return Ridge(output_dim=dout, ridge=float(Fraction(spec["lam"])), input_bias=bool(spec["bias"]), name=nm)
    if k == "rls":
        return RLS(output_dim=dout, alpha=float(Fraction(spec["alpha"])), input_bias=bool(spec["bias"]), name=nm)
    if k == "lms":
        return LMS(output_dim=dout, alpha=float(Fraction(spec["alpha"])), input_bias=bool(spec["bias"]), name=nm)
    if k == "sumoff":
        return make_sumoffline(dout, nm)
    if k == "sklearn":
        from sklearn.linear_model import Ridge as SKRidge
        return ScikitLearnNode(SKRidge, model_hypers={"alpha": 0.5}, output_dim=dout, name=nm)
    raise ValueError(k)


def hval(v):
    if v is None:
        return "None"
    if hasattr(v, "toarray"):
        v = v.toarray()
    if isinstance(v, np.ndarray):
        a = np.ascontiguousarray(v)
        return hashlib.sha256(repr((str(a.dtype), a.shape)).encode() + a.tobytes()).hexdigest()
    if hasattr(v, "predict"):  # a scikit-learn estimator
        if hasattr(v, "coef_"):
            return "sk:" + hval(np.asarray(v.coef_)) + hval(np.asarray(v.intercept_))
        return "sk:unfit"
    if isinstance(v, list):
        return "[" + ",".join(hval(x) for x in v) + "]"
    if isinstance(v, (int, float, bool, str, np.generic)):
        return repr(v)
    return "obj:%s" % type(v).__name__


def snapshot(kind, node):
    """name -> hash, split into fixed and learned."""
    fixed, learned = {}, {}
    for nm, v in node.params.items():
        if nm in EXCLUDED.get(kind, ()):
            continue
        (learned if nm in LEARNED[kind] else fixed)["p:" + nm] = hval(v)
    for nm, v in node.hypers.items():
        fixed["h:" + nm] = hval(v)
    return fixed, learned


def changed(before, after):
    """names whose hash changed; None -> value (initialisation) is not a change"""
    return sorted(k for k in after if k in before and before[k] != after[k] and before[k] != "None")


def flags(node):
    return {"nbuf": len(node._buffers), "alias": node._X is node._Y, "lx": len(node._X), "ly": len(node._Y),
            "fitted": bool(node.fitted), "trainable": bool(node.is_trainable)}


def numeric(kind, node):
    if kind in ("ridge", "rls", "lms"):
        W, b = node.params.get("Wout"), node.params.get("bias")
        if W is None or b is None:
            return None
        return [np.asarray(W, dtype=float).tolist(), np.asarray(b, dtype=float).reshape(-1).tolist()]
    if kind == "sumoff":
        b = node.params.get("b")
        if b is None:
            return None
        return [[], np.asarray(b, dtype=float).reshape(-1).tolist()]
    return None


def classify(exc, o=None):
    if exc is None:
        return 0
    if isinstance(exc, (TypeError, RuntimeError)):
        return 1
    if o is not None and o.get("fault") and o["fault"]["kind"] in FAULTS_LOOP:
        return 2      # whatever a malformed sequence k raises while it is processed: the batch failed at index k
    if isinstance(exc, ValueError) and "Warmup set to" in str(exc):
        return 2
    return 3


# ------------------------------------------------------------------------------------------ scenarios
LAMS = [Fraction(1, 4), Fraction(1, 2), Fraction(1), Fraction(2)]


def gen_store(rng, force=None):
    """A store: one reservoir (index 0) of d units on a d-dimensional input, and 1-3 readouts of input dimension d.
    Models: reservoir >> readout(s) (all offline, or all online)."""
    d = rng.randint(1, 3)
    nodes = [{"kind": "res", "din": d, "dout": d, "xin": d, "lr": rng.choice([Fraction(1, 2), Fraction(1)]),
              "W": rows(rng, d, d, 2, 2), "Win": rows(rng, d, d, 2, 1), "b": rows(rng, d, 1, 2, 2)}]
    kinds = force or rng.choice([["ridge"], ["ridge", "ridge"], ["ridge", "sumoff"], ["sumoff"], ["sklearn"], ["rls"], ["lms"],
                                 ["rls", "lms"], ["ridge", "sklearn"], ["ridge", "rls"], ["sumoff", "lms"]])
    for k in kinds:
        # (multi-output ScikitLearnNode needs estimator._get_tags, absent from the installed scikit-learn: single output only)
        dout = 1 if k == "sklearn" else rng.choice([1, d]) if k == "sumoff" else rng.randint(1, 2)
        nodes.append({"kind": k, "din": d, "dout": dout, "bias": rng.random() < 0.6, "lam": rng.choice(LAMS),
                      "alpha": rng.choice([Fraction(1), Fraction(1, 2)]) if k == "rls" else rng.choice([Fraction(1, 8), Fraction(1, 16)])})
    off = [i for i, n in enumerate(nodes) if n["kind"] in ("ridge", "sumoff", "sklearn")]
    on = [i for i, n in enumerate(nodes) if n["kind"] in ("rls", "lms")]
    models = []
    if off:
        models.append({"readouts": off})
    if on:
        models.append({"readouts": on})
    # an ESN node built on the SAME reservoir and (Ridge) readout objects: ESN.fit = per-sequence partial_fit from a reset
    # reservoir copy, then readout.fit()
    esn = nodes[1]["kind"] == "ridge"
    return {"d": d, "nodes": nodes, "models": models, "esn": bool(esn)}


FAULTS_LOOP = ("yshort", "yshort1", "ylong")                      # raise while sequence k is processed (run phase / partial_backward)
FAULTS_ALL = ("yshort", "yshort1", "ylong", "ywide", "nan", "ynan")


def gen_batch(rng, d, douts, warmup, nseq, bad=None, fault=None):
    """nseq sequences; sequence `bad` (if any) is not longer than the warm-up, or -- with `fault` -- is malformed:
    yshort / yshort1 / ylong: the target sequence has far fewer / one fewer / more rows than the input sequence; ywide: one more target column;
    nan / ynan: a NaN among the inputs / targets (applied when the arrays are built)."""
    lens = [warmup + rng.randint(2, 4) for _ in range(nseq)]
    if bad is not None and fault is None:
        lens[bad] = rng.randint(1, warmup)
    if bad is not None and fault is not None:
        lens[bad] = warmup + 4
    b = {"X": [rows(rng, T, d) for T in lens], "Y": {str(i): [rows(rng, T, dd) for T in lens] for i, dd in douts.items()}}
    if bad is not None and fault is not None:
        b["fault"] = {"kind": fault, "k": bad}
    return b


def apply_fault(o, X, Ys):
    """X: list of arrays; Ys: {node index: list of arrays}.  Returns the malformed batch of the scenario."""
    f = o.get("fault")
    if not f:
        return X, Ys
    k, kind = f["k"], f["kind"]
    X = [x.copy() for x in X]
    Ys = {j: [y.copy() for y in ys] for j, ys in Ys.items()}
    for j in Ys:
        y = Ys[j][k]
        if kind == "yshort":       # much shorter: the model cannot even be run over the sequence (IndexError on the targets)
            Ys[j][k] = y[:1]
        elif kind == "yshort1":    # one row short
            Ys[j][k] = y[:-1]
        elif kind == "ylong":
            Ys[j][k] = np.vstack([y, y[:1]])
        elif kind == "ywide":
            Ys[j][k] = np.hstack([y, y[:, :1]])
        elif kind == "ynan":
            Ys[j][k][-1, 0] = np.nan
    if kind == "nan":
        X[k][-1, 0] = np.nan
    return X, Ys


def gen_ops(rng, store, nops):
    d, nodes = store["d"], store["nodes"]
    readouts = list(range(1, len(nodes)))
    offl = [j for j in readouts if nodes[j]["kind"] in ("ridge", "sumoff", "sklearn")]
    onl = [j for j in readouts if nodes[j]["kind"] in ("rls", "lms")]

    def pick(pref):
        # mostly a node that has the learning rule the operation needs, sometimes one that has not (Rejected)
        return rng.choice(pref) if pref and rng.random() < 0.85 else rng.choice(readouts)

    def pick_model(pref_kinds):
        good = [m for m, md in enumerate(store["models"]) if nodes[md["readouts"][0]]["kind"] in pref_kinds]
        return rng.choice(good) if good and rng.random() < 0.85 else rng.randrange(len(store["models"]))
    all_ridge = bool(offl) and all(nodes[j]["kind"] == "ridge" for j in offl)

    def badseq(w, nseq, p):
        """(index of the bad sequence or None, fault kind or None)"""
        if rng.random() >= p:
            return None, None
        if all_ridge and rng.random() < 0.5:
            return rng.randrange(nseq), rng.choice(FAULTS_LOOP)
        return (rng.randrange(nseq), None) if w > 0 else (None, None)
    ops = []
    for _ in range(nops):
        r = rng.random()
        i = pick(onl) if 0.56 <= r < 0.68 else pick(offl)
        if r < 0.10:
            tgt = rng.choice(["node", "model"])
            if tgt == "node":
                j = rng.choice([0] + readouts)
                ops.append({"op": "run", "node": j, "X": rows(rng, rng.randint(1, 3), d)})
            else:
                ops.append({"op": "mrun", "model": rng.randrange(len(store["models"])), "X": rows(rng, rng.randint(1, 3), d)})
        elif r < 0.20:
            w = rng.choice([0, 1, 2])
            nseq = rng.randint(1, 2)
            bad = rng.randrange(nseq) if (w > 0 and rng.random() < 0.3) else None
            ops.append(dict(op="partial_fit", node=i, warmup=w, **gen_batch(rng, d, {i: nodes[i]["dout"]}, w, nseq, bad)))
            if rng.random() < 0.5:
                ops.append({"op": "fit0", "node": i})      # batched fitting: partial_fit ... then fit()
        elif r < 0.50:
            w = rng.choice([0, 1, 1, 2])
            nseq = rng.randint(1, 3)
            bad, fault = badseq(w, nseq, 0.35)
            ops.append(dict(op="fit", node=i, warmup=w, **gen_batch(rng, d, {i: nodes[i]["dout"]}, w, nseq, bad, fault)))
        elif r < 0.56:
            ops.append({"op": "fit0", "node": i})
        elif r < 0.68:
            ops.append(dict(op="train", node=i, **gen_batch(rng, d, {i: nodes[i]["dout"]}, 0, 1)))
        elif r < 0.75:
            ops.append({"op": "freeze", "node": rng.choice([0] + readouts + readouts), "value": rng.random() < 0.25})
        elif r < 0.83 and store.get("esn"):
            w = rng.choice([0, 1, 1, 2])
            nseq = rng.randint(1, 3)
            bad, fault = badseq(w, nseq, 0.4)
            ops.append(dict(op="efit", node=1, warmup=w, **gen_batch(rng, d, {1: nodes[1]["dout"]}, w, nseq, bad, fault)))
        elif r < 0.92:
            m = pick_model(("ridge", "sumoff", "sklearn"))
            rd = store["models"][m]["readouts"]
            w = rng.choice([0, 1, 1, 2])
            nseq = rng.randint(1, 3)
            bad, fault = badseq(w, nseq, 0.35)
            ops.append(dict(op="mfit", model=m, warmup=w, tform=rng.choice(["auto", "dict"]),
                            **gen_batch(rng, d, {j: nodes[j]["dout"] for j in rd}, w, nseq, bad, fault)))
        else:
            m = pick_model(("rls", "lms"))
            rd = store["models"][m]["readouts"]
            ops.append(dict(op="mtrain", model=m, tform=rng.choice(["auto", "dict"]),
                            **gen_batch(rng, d, {j: nodes[j]["dout"] for j in rd}, 0, 1)))
    return ops


def gen_scenario(rng, i):
    store = gen_store(rng)
    sc = dict(store, ops=gen_ops(rng, store, rng.randint(3, 8)), tag=i)
    # fit0 (Node.fit() without data) is only meaningful on an initialised node: drop it when nothing initialised the node before
    seen, ops = set(), []
    for o in sc["ops"]:
        if o["op"] == "fit0" and o["node"] not in seen:
            continue
        if o["op"] in ("run", "partial_fit", "fit", "train", "efit"):
            seen.add(o["node"])
        if o["op"] in ("mrun", "mfit", "mtrain"):
            seen.update(sc["models"][o["model"]]["readouts"])
        ops.append(o)
    sc["ops"] = ops
    return sc


# ------------------------------------------------------------------------------------------ running a history on the real library
class World:
    def __init__(self, sc):
        self.sc = sc
        self.nodes = [build_node(s) for s in sc["nodes"]]
        self.kinds = [s["kind"] for s in sc["nodes"]]
        # twins: two distinct live readouts that carry the SAME name (deep copies of one template are all called
        # "<template>-(copy)"; the name registry is per class, so a Ridge and a Ridge subclass may share a name)
        for i, spec in enumerate(sc["nodes"]):
            tw = spec.get("twin")
            if not tw:
                continue
            j = tw["of"]
            if tw["how"] == "copy":
                template = self.nodes[j]
                self.nodes[j], self.nodes[i] = copy.deepcopy(template), copy.deepcopy(template)
            else:
                from reservoirpy.nodes import Ridge
                TwinRidge = type("TwinRidge", (Ridge,), {})
                self.nodes[i] = TwinRidge(output_dim=spec["dout"], ridge=float(Fraction(spec["lam"])), input_bias=bool(spec["bias"]),
                                          name=self.nodes[j].name)
            assert self.nodes[i] is not self.nodes[j] and self.nodes[i].name == self.nodes[j].name
        # models and the ESN are assembled at their first use, so that a freeze can come before or after the assembly
        self._models = [None] * len(sc["models"])
        self._esn = None

    def model(self, m):
        if self._models[m] is None:
            rd = [self.nodes[j] for j in self.sc["models"][m]["readouts"]]
            self._models[m] = self.nodes[0] >> (rd if len(rd) > 1 else rd[0])
        return self._models[m]

    @property
    def esn(self):
        if self._esn is None and self.sc.get("esn"):
            from reservoirpy.nodes import ESN
            self._esn = ESN(reservoir=self.nodes[0], readout=self.nodes[1], workers=1, name=uname("esn"))
        return self._esn

    def batch(self, o, js):
        d = self.sc["d"]
        X = [farr(sq, d) for sq in o["X"]]
        Ys = {j: [farr(sq, self.sc["nodes"][j]["dout"]) for sq in o["Y"][str(j)]] for j in js}
        return apply_fault(o, X, Ys)

    def targets_arg(self, o, rd, Ys, seq):
        """array (single readout) or name-keyed mapping; seq=True: lists of sequences, else one sequence"""
        pick = (lambda ys: ys) if seq else (lambda ys: ys[0])
        if len(rd) == 1 and o.get("tform", "auto") != "dict":
            return pick(Ys[rd[0]])
        return {self.nodes[j].name: pick(Ys[j]) for j in rd}

    def snap(self):
        return [snapshot(k, n) for k, n in zip(self.kinds, self.nodes)]

    def ydata(self, o, j, as_list=True):
        dd = self.sc["nodes"][j]["dout"]
        ys = [farr(s, dd) for s in o["Y"][str(j)]]
        return ys if as_list else ys[0]

    def apply(self, o):
        """Execute one op; returns (exception or None, features) -- features: what each readout of a model op received."""
        d = self.sc["d"]
        feats = None
        try:
            if o["op"] == "run":
                self.nodes[o["node"]].run(farr(o["X"], d))
            elif o["op"] == "mrun":
                self.model(o["model"]).run(farr(o["X"], d))
            elif o["op"] == "partial_fit":
                j = o["node"]
                self.nodes[j].partial_fit([farr(s, d) for s in o["X"]], self.ydata(o, j), warmup=o["warmup"])
            elif o["op"] == "fit":
                j = o["node"]
                X, Ys = self.batch(o, [j])
                self.nodes[j].fit(X, Ys[j], warmup=o["warmup"])
            elif o["op"] == "fit0":
                self.nodes[o["node"]].fit()
            elif o["op"] == "train":
                j = o["node"]
                self.nodes[j].train(farr(o["X"][0], d), self.ydata(o, j, False))
            elif o["op"] == "freeze":
                self.nodes[o["node"]].is_trainable = bool(o["value"])
            elif o["op"] == "efit":
                # feature oracle: ESN.fit runs every sequence on a reset deep copy of the reservoir
                feats = []
                for sq in o["X"]:
                    rc = copy.deepcopy(self.nodes[0])
                    if rc.is_initialized:
                        rc.reset()
                    feats.append(np.asarray(rc.run(farr(sq, d)), dtype=float).tolist())
                X, Ys = self.batch(o, [1])
                self.esn.fit(X, Ys[1], warmup=o["warmup"])
            elif o["op"] in ("mfit", "mtrain"):
                m = o["model"]
                rd = self.sc["models"][m]["readouts"]
                rc = copy.deepcopy(self.nodes[0])          # feature oracle: the reservoir as it is before the operation
                if not self.model(m).is_initialized and rc.is_initialized:
                    rc.reset()                            # Model.initialize resets the states of its nodes at first use
                feats = [np.asarray(rc.run(farr(s, d)), dtype=float).tolist() for s in o["X"]]
                X, Ys = self.batch(o, rd)
                if o["op"] == "mfit" and o.get("only"):
                    # targets named for SOME readouts only (a legal way to refit part of an already fitted model)
                    self.model(m).fit(X, {self.nodes[j].name: Ys[j] for j in o["only"]}, warmup=o["warmup"], **o.get("kw", {}))
                elif o["op"] == "mfit":
                    self.model(m).fit(X, self.targets_arg(o, rd, Ys, True), warmup=o["warmup"], **o.get("kw", {}))
                else:
                    self.model(m).train(X[0], self.targets_arg(o, rd, Ys, False))
            else:
                raise ValueError(o["op"])
        except Exception as e:  # noqa: BLE001 -- the exception IS the observation
            if isinstance(e, KeyError) and e.args and e.args[0] in ("warmup", "X", "Y", "node", "model", "op", "value"):
                raise          # a malformed scenario is a harness bug, not an observation
            return e, feats
        return None, feats


def runnable(w, o):
    """Operations outside the scope of the property are dropped from the history at run time:
    Node.fit() on a node that was never initialised (RuntimeError unrelated to training), and anything that would make an
    unfitted scikit-learn estimator predict (NotFittedError of the estimator, not of reservoirpy)."""
    def sk_unfit(j):
        inst = w.nodes[j].params.get("instances")
        return w.kinds[j] == "sklearn" and (inst is None or not hasattr(inst, "coef_"))
    if o["op"] == "fit0":
        return bool(w.nodes[o["node"]].is_initialized)
    if o["op"] == "efit":
        # ESN.fit does not look at is_trainable before creating / cleaning buffers: only unfrozen readouts are modelled
        return bool(w.sc.get("esn")) and bool(w.nodes[1].is_trainable)
    if o["op"] == "run":
        return not sk_unfit(o["node"])
    if o["op"] in ("mrun", "mtrain"):
        return not any(sk_unfit(j) for j in w.sc["models"][o["model"]]["readouts"])
    if o["op"] == "mfit":
        return not any(sk_unfit(j) and not w.nodes[j].is_trainable for j in w.sc["models"][o["model"]]["readouts"])
    return True


def run_history(sc):
    """Runs the history; sc['ops'] is replaced by the operations actually executed (see runnable)."""
    w = World(sc)
    obs, done = [], []
    before = w.snap()
    for o in sc["ops"]:
        if not runnable(w, o):
            continue
        done.append(o)
        exc, feats = w.apply(o)
        after = w.snap()
        per = []
        for j, (k, n) in enumerate(zip(w.kinds, w.nodes)):
            per.append(dict(flags(n), fixed_changed=changed(before[j][0], after[j][0]), learned_changed=changed(before[j][1], after[j][1]),
                            W=numeric(k, n)))
        order = None
        if "model" in o:
            order = [[id(x) for x in w.nodes].index(id(n)) for n in w.model(o["model"]).nodes]
        if o["op"] == "efit":
            order = [0, 1]
        obs.append({"code": classify(exc, o), "exc": None if exc is None else "%s: %s" % (type(exc).__name__, str(exc)[:120]),
                    "nodes": per, "feats": feats, "order": order})
        before = after
    sc["ops"] = done
    return w, obs


# ------------------------------------------------------------------------------------------ Gallina
def F(rs):
    return [[Fraction(v) for v in r] for r in rs]


def coq_node(s):
    k, d, dout = s["kind"], s["din"], s["dout"]
    if k == "res":
        return "nd_plain %s %s" % (nat(d), nat(dout))
    if k == "ridge":
        return "nd_ridge %s %s %s %s" % (coqbool(s["bias"]), q(Fraction(s["lam"])), nat(d), nat(dout))
    if k in ("sumoff", "sklearn"):
        return "nd_def %s %s" % (nat(d), nat(dout))
    if k == "rls":
        return "nd_rls %s %s %s %s" % (coqbool(s["bias"]), q(Fraction(s["alpha"])), nat(d), nat(dout))
    return "nd_lms %s %s %s %s" % (coqbool(s["bias"]), q(Fraction(s["alpha"])), nat(d), nat(dout))


def coq_seqs(xs, ys, fault=None):
    out = ["(%s, Some %s)" % (qmat(x), qmat(F(y))) for x, y in zip(xs, ys)]
    if fault:
        out[fault["k"]] = "([], Some [])"      # rejected when reached, after sequences 0..k-1 (model: FailedPartial at k)
    return coqlist(out)


def coq_op(sc, o, ob):
    if o["op"] == "run":
        return "ORun [(%s, %s)]" % (nat(o["node"]), qmat(F(o["X"])))
    if o["op"] == "mrun":
        return "ORun []"      # state changes are not compared
    if o["op"] == "partial_fit":
        return "OPartialFit %s %s %s" % (nat(o["node"]), nat(o["warmup"]), coq_seqs([F(x) for x in o["X"]], o["Y"][str(o["node"])]))
    if o["op"] == "fit":
        return "OFit %s %s (Some %s)" % (nat(o["node"]), nat(o["warmup"]),
                                         coq_seqs([F(x) for x in o["X"]], o["Y"][str(o["node"])], o.get("fault")))
    if o["op"] == "fit0":
        return "OFit %s %s None" % (nat(o["node"]), nat(0))
    if o["op"] == "train":
        j = o["node"]
        return "OTrain %s (%s, Some %s)" % (nat(j), qmat(F(o["X"][0])), qmat(F(o["Y"][str(j)][0])))
    if o["op"] == "freeze":
        return "OFreeze %s %s" % (nat(o["node"]), coqbool(o["value"]))
    if o["op"] == "efit":
        # ESN.fit has the shape of a one-stage Model.fit on [reservoir; readout]: initialize_buffers, partial_fit per sequence
        # (clean the readout and re-raise on failure), readout.fit()
        fk = o["fault"]["k"] if o.get("fault") else None
        seqs = coqlist([coqlist(["(%s, ([], Some []))" % nat(1) if k == fk else
                                 "(%s, (%s, Some %s))" % (nat(1), qmat(ob["feats"][k]), qmat(F(o["Y"]["1"][k])))])
                        for k in range(len(o["X"]))])
        return "OMFit [%s;%s] %s [] %s" % (nat(0), nat(1), nat(o["warmup"]), seqs)
    rd = sc["models"][o["model"]]["readouts"]
    # members in the order of Model.nodes (observed: it is the order in which Model.fit fits the readouts of a stage)
    members = coqlist([nat(j) for j in ob["order"]])
    feats = ob["feats"]
    if o["op"] == "mfit":
        fk = o["fault"]["k"] if o.get("fault") else None
        seqs = coqlist([coqlist(["(%s, ([], Some []))" % nat(j) if s == fk else
                                 "(%s, (%s, Some %s))" % (nat(j), qmat(feats[s]), qmat(F(o["Y"][str(j)][s]))) for j in rd])
                        for s in range(len(o["X"]))])
        return "OMFit %s %s [] %s" % (members, nat(o["warmup"]), seqs)
    ds = coqlist(["(%s, (%s, Some %s))" % (nat(j), qmat(feats[0]), qmat(F(o["Y"][str(j)][0]))) for j in rd])
    return "OMTrain %s [] %s" % (members, ds)


def coq_obs(ob):
    per = []
    for n in ob["nodes"]:
        W = "None" if n["W"] is None else "(Some (%s, %s))" % (qmat(n["W"][0]), qvec(n["W"][1]))
        per.append("mkObs %s %s %s %s %s %s %s %s %s" % (
            coqbool(bool(n["fixed_changed"])), coqbool(bool(n["learned_changed"])), nat(n["nbuf"]), coqbool(n["alias"]),
            nat(n["lx"]), nat(n["ly"]), coqbool(n["fitted"]), coqbool(n["trainable"]), W))
    return "(%s, %s)" % (nat(ob["code"]), coqlist(per))


def to_coq(sc, obs):
    st = coqlist([coq_node(s) for s in sc["nodes"]])
    h = coqlist(["(%s, %s)" % (coq_op(sc, o, ob), coq_obs(ob)) for o, ob in zip(sc["ops"], obs)])
    return "chk_hist %s %s" % (st, h)


def slim(obs):
    return [{"code": o["code"], "exc": o["exc"],
             "nodes": [{k: v for k, v in n.items() if k != "W"} for n in o["nodes"]]} for o in obs]


def correspondence(ctx):
    rng = ctx.rng("corr")
    n = ctx.n(150, 1500)
    terms, keep, nt, dist = [], [], set(), {}
    for i in range(n):
        sc = gen_freeze(rng, i // 5) if i % 5 == 4 else gen_twins(rng, i // 5) if i % 5 == 3 else gen_scenario(rng, i)
        try:
            _, obs = run_history(sc)
            term = to_coq(sc, obs)
        except Exception as e:  # noqa: BLE001
            terms.append("false")
            keep.append({"scenario": jsonable(sc), "harness_error": repr(e)})
            continue
        terms.append(term)
        keep.append({"scenario": jsonable(sc), "observed": jsonable(slim(obs))})
        for o, ob in zip(sc["ops"], obs):
            k = "%s/%s" % (o["op"], ["done", "rejected", "failed-partial", "failed-backward"][ob["code"]])
            dist[k] = dist.get(k, 0) + 1
        trained = sum(1 for o, ob in zip(sc["ops"], obs) if o["op"] in ("fit", "mfit", "efit", "fit0", "train", "mtrain") and ob["code"] == 0)
        failed = sum(1 for ob in obs if ob["code"] >= 2)
        if trained >= 2 or (trained >= 1 and failed >= 1):
            nt.add(repr(jsonable(sc)))
    failing, err = core.run_cases(ctx.pid, IMPORTS, terms, chunk=40)
    return {"evaluations": n, "distinct_nontrivial": len(nt),
            "rule": "seeded histories of 3-8 operations (run, partial_fit, fit with/without data, train, freeze, Model.fit, ESN.fit, Model.train, "
                    "Model.run; batches of 1-3 sequences with a too-short sequence at a random index in ~1/3 of the fits) on a store of one "
                    "reservoir and 1-2 readouts among Ridge / RLS / LMS / ScikitLearnNode(Ridge) / SumOffline (default buffers), used both "
                    "alone and inside reservoir >> readout(s) (array and name-keyed targets; models assembled at first use, so freezes come before or "
                    "after assembly; a malformed sequence k -- targets shorter / longer than inputs -- in half of the failing Ridge batches); one "
                    "history in five is a freeze scenario (two readouts of one kind, one frozen) and one in five a twins scenario (two same-named "
                    "Ridge readouts with interleaved partial_fit sessions: the model's stores keep their buffers apart); after every operation and for every node: which parameter hashes changed, "
                    "len(_buffers), `_X is _Y`, len(_X), len(_Y), fitted, is_trainable, the exception class and Wout/bias are compared with "
                    "the model at Q; non-trivial = at least two completed training operations, or one completed and one failed; distinct by "
                    "scenario text",
            "samples": [keep[0], keep[1], keep[min(12, len(keep) - 1)]],
            "distribution": dist, "tolerance": "1e-9 relative (qclose) on Wout/bias; flags, lengths and change patterns exactly",
            "failing": [dict(keep[i], index=i) for i in failing], "error": err}


# ------------------------------------------------------------------------------------------ oracle on the implementation
def _viol(key, what, sc, expected=None, observed=None):
    return {"key": key, "what": what, "scenario": jsonable(sc), "expected": jsonable(expected), "observed": jsonable(observed)}


def _targets(w, o):
    """Nodes the operation is entitled to train (decided on the real objects BEFORE the operation)."""
    sc = w.sc
    off = ("ridge", "sumoff", "sklearn")
    on = ("rls", "lms")
    if o["op"] in ("fit", "fit0", "efit"):
        j = o["node"]
        return {j} if w.kinds[j] in off and w.nodes[j].is_trainable else set()
    if o["op"] == "train":
        j = o["node"]
        return {j} if w.kinds[j] in on and w.nodes[j].is_trainable else set()
    if o["op"] == "mfit":
        return {j for j in (o.get("only") or sc["models"][o["model"]]["readouts"]) if w.kinds[j] in off and w.nodes[j].is_trainable}
    if o["op"] == "mtrain":
        return {j for j in sc["models"][o["model"]]["readouts"] if w.kinds[j] in on and w.nodes[j].is_trainable}
    return set()


def judge_frame(sc):
    """(i) inference changes no parameter; (ii) a training operation changes only learned parameters of its trainable targets;
    fixed parameters never change."""
    w = World(sc)
    before = w.snap()
    for t, o in enumerate(sc["ops"]):
        if not runnable(w, o):
            continue
        tg = _targets(w, o)
        frozen = [not n.is_trainable for n in w.nodes]
        w.apply(o)
        after = w.snap()
        for j, k in enumerate(w.kinds):
            fc, lc = changed(before[j][0], after[j][0]), changed(before[j][1], after[j][1])
            where = "op %d (%s) node %d (%s)" % (t, o["op"], j, k)
            if fc:
                return _viol("fixed-param-changed:%s" % k, "%s: fixed parameter(s) %s changed" % (where, fc), dict(sc, ops=sc["ops"][:t + 1]), [], fc)
            if lc and o["op"] in ("run", "mrun", "freeze", "partial_fit"):
                return _viol("inference:param-changed", "%s: a non-training operation changed %s" % (where, lc), dict(sc, ops=sc["ops"][:t + 1]), [], lc)
            if lc and frozen[j]:
                return _viol("train:frozen-node-changed", "%s: a frozen / untrainable node changed %s" % (where, lc), dict(sc, ops=sc["ops"][:t + 1]), [], lc)
            if lc and j not in tg:
                return _viol("train:untargeted-param-changed", "%s: %s changed although the node is not a target" % (where, lc),
                             dict(sc, ops=sc["ops"][:t + 1]), sorted(tg), lc)
        before = after
    return None


def _learned_values(kind, node):
    if kind == "sklearn":
        inst = node.params.get("instances")
        if inst is None or not hasattr(inst, "coef_"):
            return None
        return [np.asarray(inst.coef_, dtype=float).reshape(-1), np.asarray(inst.intercept_, dtype=float).reshape(-1)]
    v = numeric(kind, node)
    return None if v is None else [np.asarray(v[0], dtype=float).reshape(-1), np.asarray(v[1], dtype=float).reshape(-1)]


def _same(a, b):
    if a is None or b is None:
        return a is None and b is None
    return all(x.shape == y.shape and np.allclose(x, y, rtol=1e-9, atol=1e-12) for x, y in zip(a, b))


def _fit_outcome(w, o):
    exc, _ = w.apply(o)
    rd = [o["node"]] if "node" in o else w.sc["models"][o["model"]]["readouts"]
    return classify(exc, o), [(_learned_values(w.kinds[j], w.nodes[j])) for j in rd]


def judge_session(sc):
    """sc: {store..., 'first': op or None, 'second': op, 'alt': op or None, 'key': ...}.
    After `first` (a completed or failed fit), `second` must give what it gives on a fresh copy of the same objects;
    with `alt` (another first operation), `second` must not depend on which of first/alt came before."""
    base = dict(sc, ops=[])
    ref = _fit_outcome(World(base), sc["second"])
    w = World(base)
    c1, _ = _fit_outcome(w, sc["first"])
    aliased_before = [n._X is n._Y for n in w.nodes]
    got = _fit_outcome(w, sc["second"])
    ok = got[0] == ref[0] and (got[0] != 0 or all(_same(a, b) for a, b in zip(got[1], ref[1])))
    if not ok:
        rd = [sc["second"]["node"]] if "node" in sc["second"] else sc["models"][sc["second"]["model"]]["readouts"]
        key = sc["key"]
        # the readouts whose result differs; if all of them are default-buffer nodes whose two lists were one object when the
        # second fit started, the difference is the (open) aliasing defect of clean_buffers, whatever the first fit was
        bad = [j for j, a, b in zip(rd, got[1], ref[1]) if got[0] != ref[0] or not _same(a, b)]
        if bad and all(sc["nodes"][j]["kind"] in ("sumoff", "sklearn") and aliased_before[j] for j in bad):
            key = "refit:XY-aliased-default-buffers"
        return _viol(key, "a fit that follows a %s fit differs from the same fit on fresh objects (first fit outcome code %d)"
                     % ("completed" if c1 == 0 else "failed", c1), sc,
                     [ref[0], [None if v is None else [x.tolist() for x in v] for v in ref[1]]],
                     [got[0], [None if v is None else [x.tolist() for x in v] for v in got[1]]])
    if sc.get("alt") is not None:
        w2 = World(base)
        _fit_outcome(w2, sc["alt"])
        got2 = _fit_outcome(w2, sc["second"])
        if got2[0] != got[0] or (got[0] == 0 and not all(_same(a, b) for a, b in zip(got[1], got2[1]))):
            return _viol("refit:depends-on-earlier-data", "the result of a fit depends on the data of the previous completed fit", sc,
                         [got[0]], [got2[0]])
    return None


def gen_session(rng, i):
    """Structured two-fit scenarios for (iii) (iv) (v)."""
    mode = ["refit-node", "failed-node", "failed-model", "singular-node", "singular-model", "refit-model", "refit-default", "failed-default",
            "failed-esn", "refit-esn"][i % 10]
    if mode in ("refit-default", "failed-default"):
        store = gen_store(rng, force=[rng.choice(["sumoff", "sklearn"])])
    elif mode.startswith("singular"):
        store = gen_store(rng, force=["ridge"])
        store["d"] = d = 2
        store["nodes"][0].update(din=2, dout=2, xin=2, W=[[0, 0], [0, 0]], Win=[[1, 0], [0, 1]], b=[[0], [0]], lr=Fraction(1))
        store["nodes"][1].update(din=2, lam=Fraction(0), bias=False)
    elif mode.endswith("esn"):
        store = gen_store(rng, force=["ridge"])
    else:
        store = gen_store(rng, force=rng.choice([["ridge"], ["ridge", "ridge"]]))
    d, nodes = store["d"], store["nodes"]
    model = mode.endswith("model")
    rd = store["models"][0]["readouts"] if model else [1]
    douts = {j: nodes[j]["dout"] for j in rd}
    w = rng.choice([1, 2]) if mode.startswith("failed") else rng.choice([0, 1])
    tgt = {"op": "mfit", "model": 0, "kw": {"reset": True}} if model else {"op": "efit", "node": 1} if mode.endswith("esn") \
        else {"op": "fit", "node": 1}
    nseq = rng.randint(2, 3)
    if mode.startswith("failed"):
        # the bad sequence (index k >= 1): not longer than the warm-up, or malformed (fewer / more / wider targets, NaN)
        # every failure kind in turn for every API (Node.fit, Model.fit, ESN.fit), whatever the seed
        fault = ([None, "yshort", "ylong", "ywide", "nan", "ynan", "yshort1"][(i // 10) % 7]) if mode != "failed-default" else None
        first = dict(tgt, warmup=w, **gen_batch(rng, d, douts, w, nseq, rng.randint(1, nseq - 1), fault))
        key = "failed-fit:partial-sums-kept:%s" % ("model" if model else "esn" if mode.endswith("esn") else "node")
        if fault in ("nan", "ynan"):
            key = "failed-fit:backward-raised:sums-kept"     # NaN passes partial_fit and makes the solve raise
    elif mode.startswith("singular"):
        # second input column null and ridge = 0: XXT is exactly singular -> LinAlgError in backward
        b = gen_batch(rng, d, douts, w, nseq)
        b["X"] = [[[r[0], 0] for r in s] for s in b["X"]]
        first = dict(tgt, warmup=w, **b)
        key = "failed-fit:backward-raised:sums-kept"
    else:
        first = dict(tgt, warmup=w, **gen_batch(rng, d, douts, w, nseq))
        key = "refit:differs-from-fresh"
    w2 = rng.choice([0, 1])
    b2 = gen_batch(rng, d, douts, w2, rng.randint(1, 2))
    if mode.startswith("singular"):
        # full-rank second data set whatever the draw
        b2["X"][0] = b2["X"][0] + [[1, 0], [0, 1], [1, 1]]
        for j in douts:
            b2["Y"][str(j)][0] = b2["Y"][str(j)][0] + rows(rng, 3, douts[j])
    second = dict(tgt, warmup=w2, **b2)
    alt = None
    if mode.startswith("refit"):
        alt = dict(tgt, warmup=w, **gen_batch(rng, d, douts, w, rng.randint(1, 3)))
    return dict(store, first=first, second=second, alt=alt, key=key, mode=mode + ("" if not first.get("fault") else ":" + first["fault"]["kind"]), tag=i)


def gen_freeze(rng, i):
    """Two readouts of one kind on one reservoir; one of them is frozen before the model is assembled / after assembly /
    after a first training session; then Model.train or Model.fit (array or name-keyed targets that still name the frozen
    node) and the node-level training call, twice on different data."""
    kind = ["lms", "rls", "ridge", "sumoff", "lms", "ridge"][i % 6]
    when = ["before-assembly", "after-assembly", "after-first-training"][(i // 6) % 3]
    store = gen_store(rng, force=[kind, kind])
    d, nodes = store["d"], store["nodes"]
    online = kind in ("lms", "rls")
    douts = {1: nodes[1]["dout"], 2: nodes[2]["dout"]}
    def mop(single):
        rd = [2] if single else [1, 2]
        b = gen_batch(rng, d, {j: douts[j] for j in rd}, 0, 1 if online else rng.randint(1, 2))
        return dict(op="mtrain" if online else "mfit", model=1 if single else 0, warmup=0, tform=rng.choice(["dict", "dict", "auto"]), **b)
    def nop():
        return dict(op="train" if online else "fit", node=2, warmup=0, **gen_batch(rng, d, {2: douts[2]}, 0, 1))
    # model 0: reservoir >> [keep, frozen]; model 1: reservoir >> frozen alone
    store["models"] = [{"readouts": [1, 2]}, {"readouts": [2]}]
    store["esn"] = False
    fr = {"op": "freeze", "node": 2, "value": False}
    asm = {"op": "mrun", "model": 0, "X": rows(rng, 2, d)}
    asm1 = {"op": "mrun", "model": 1, "X": rows(rng, 2, d)}
    if when == "before-assembly":
        pre = [fr]
    elif when == "after-assembly":
        pre = ([asm, asm1] if online or kind == "ridge" else []) + [fr]
        if not pre[:-1]:
            when = "before-assembly"
    else:
        pre = [mop(False), fr]
    ops = pre + [mop(False), mop(False), nop(), mop(True), {"op": "freeze", "node": 2, "value": True}, mop(False), nop()]
    return dict(store, ops=ops, frozen=2, nfreeze=len(pre), mode="%s/%s" % (kind, when), tag=i)


def judge_freeze(sc):
    """After the freeze, no parameter of the frozen node changes (its initialisation from None apart); fixed parameters of
    every node never change."""
    w = World(sc)
    j = sc["frozen"]
    before = w.snap()
    for t, o in enumerate(sc["ops"]):
        if not runnable(w, o):
            continue
        w.apply(o)
        after = w.snap()
        for i2, k in enumerate(w.kinds):
            fc = changed(before[i2][0], after[i2][0])
            if fc:
                return _viol("fixed-param-changed:%s" % k, "op %d (%s): fixed parameter(s) %s of node %d changed" % (t, o["op"], fc, i2), sc, [], fc)
        lc = changed(before[j][1], after[j][1])
        if t >= sc["nfreeze"] and lc:
            return _viol("train:frozen-node-changed", "op %d (%s, targets %s): parameters %s of the frozen %s readout changed (%s)"
                         % (t, o["op"], o.get("tform", "-"), lc, w.kinds[j], sc["mode"]), sc, [], lc)
        before = after
    return None


def gen_twins(rng, i):
    """Two same-named Ridge readouts (copy twins / a Ridge and a subclass with an identical name) whose offline sessions
    overlap: partial_fit calls on one while the session of the other is open, then fit() on both; sometimes a second round."""
    d, dout = rng.randint(1, 3), rng.randint(1, 2)
    rd = {"kind": "ridge", "din": d, "dout": dout, "bias": rng.random() < 0.6, "lam": rng.choice(LAMS), "alpha": Fraction(1)}
    nodes = [{"kind": "res", "din": d, "dout": d, "xin": d, "lr": Fraction(1), "W": rows(rng, d, d, 2, 2), "Win": rows(rng, d, d, 2, 1),
              "b": rows(rng, d, 1, 2, 2)}, dict(rd), dict(rd, twin={"of": 1, "how": ["copy", "subclass"][i % 2]})]
    ops = []
    for rnd in range(rng.choice([1, 1, 2])):
        w = rng.choice([0, 0, 1])
        turns = [1, 2] * rng.randint(1, 2) + [rng.choice([1, 2]) for _ in range(rng.randint(0, 2))]
        if rng.random() < 0.5:
            rng.shuffle(turns)
        if turns[0] == turns[-1] and len(set(turns)) == 2:
            turns.append(3 - turns[0])
        for j in turns:
            ops.append(dict(op="partial_fit", node=j, warmup=w, **gen_batch(rng, d, {j: dout}, w, rng.randint(1, 2))))
        closing = [1, 2] if rng.random() < 0.5 else [2, 1]
        for j in closing:
            if rnd == 1 and rng.random() < 0.4:
                ops.append(dict(op="fit", node=j, warmup=w, **gen_batch(rng, d, {j: dout}, w, rng.randint(1, 2))))
            else:
                ops.append({"op": "fit0", "node": j})
    return {"d": d, "nodes": nodes, "models": [], "esn": False, "ops": ops, "twins": [1, 2], "mode": "twins:" + nodes[2]["twin"]["how"], "tag": i}


def judge_twins(sc):
    """Each twin must end up exactly like the same readout going through its OWN operations only (the other one idle)."""
    w = World(sc)
    for o in sc["ops"]:
        if runnable(w, o):
            w.apply(o)
    for j in sc["twins"]:
        alone = World(sc)
        for o in sc["ops"]:
            if o.get("node") == j and runnable(alone, o):
                alone.apply(o)
        got, ref = _learned_values("ridge", w.nodes[j]), _learned_values("ridge", alone.nodes[j])
        if not _same(got, ref):
            return _viol("twins:interleaved-sessions-mix-data",
                         "two live readouts named %r (%s) trained batch-wise in one loop: node %d differs from the same readout trained "
                         "alone on its own batches" % (w.nodes[j].name, sc["mode"], j), sc,
                         None if ref is None else [x.tolist() for x in ref], None if got is None else [x.tolist() for x in got])
    return None


def gen_legacy(rng, i):
    """The legacy trainer (reservoirpy.compat): ESN.train / RidgeRegression.fit on a batch whose sequence k >= 1 is malformed
    (NaN among inputs / targets: the final solve raises; targets shorter / longer / wider: sequence k is rejected while it is
    processed), then the same call on clean data, compared with fresh objects trained on the clean data only."""
    api = ["esn.train", "rr.fit"][i % 2]
    fault = ["nan", "ynan", "ywide", "yshort", "ylong"][(i // 2) % 5]
    N, d, dout = rng.randint(2, 4), rng.randint(1, 2), 1
    nseq = rng.randint(2, 3)
    din = d if api == "esn.train" else N
    def batch(n):
        lens = [rng.randint(4, 7) for _ in range(n)]
        return [rows(rng, T, din) for T in lens], [rows(rng, T, dout) for T in lens]
    X, Y = batch(nseq)
    X2, Y2 = batch(rng.randint(1, 2))
    return {"legacy": api, "fault": {"kind": fault, "k": rng.randint(1, nseq - 1)}, "N": N, "d": d, "dout": dout,
            "W": rows(rng, N, N, 2, 2), "Win": rows(rng, N, d + 1, 2, 1), "lr": Fraction(1, 2), "lam": rng.choice(LAMS),
            "X": X, "Y": Y, "X2": X2, "Y2": Y2, "mode": "legacy:%s:%s" % (api, fault), "tag": i}


def judge_legacy(sc):
    rpy()
    from reservoirpy.compat import ESN as LegacyESN
    from reservoirpy.compat.regression_models import RidgeRegression
    api, din = sc["legacy"], (sc["d"] if sc["legacy"] == "esn.train" else sc["N"])

    def make():
        if api == "esn.train":
            return LegacyESN(lr=float(Fraction(sc["lr"])), W=farr(sc["W"], sc["N"]), Win=farr(sc["Win"], sc["d"] + 1),
                             ridge=float(Fraction(sc["lam"])), input_bias=True)
        m = RidgeRegression(float(Fraction(sc["lam"])), workers=1)
        m.initialize(sc["N"], sc["dout"])
        return m

    def go(o, X, Y):
        return o.train(X, Y, workers=1) if api == "esn.train" else o.fit(X, Y)

    def wout(o):
        return None if o.Wout is None else [np.asarray(o.Wout, dtype=float).reshape(-1)]
    X, Ys = apply_fault({"fault": sc["fault"]}, [farr(s, din) for s in sc["X"]], {0: [farr(s, sc["dout"]) for s in sc["Y"]]})
    X2, Y2 = [farr(s, din) for s in sc["X2"]], [farr(s, sc["dout"]) for s in sc["Y2"]]
    e, f = make(), make()
    w0 = wout(e)
    try:
        go(e, X, Ys[0])
        return None                      # the malformed batch was accepted: nothing to compare
    except Exception as ex:  # noqa: BLE001
        first = "%s: %s" % (type(ex).__name__, str(ex)[:80])
    # what 6a8f27d repaired (the solve raising, RidgeRegression.fit's own loop) vs the per-sequence loop of the legacy ESN.train
    key = "failed-fit:sums-kept:legacy" if (api == "rr.fit" or sc["fault"]["kind"] in ("nan", "ynan")) \
        else "failed-fit:partial-sums-kept:legacy-esn-train"
    if not _same(w0, wout(e)):
        return _viol("failed-fit:weights-changed:legacy", "a failed legacy %s (%s) changed Wout" % (api, first), sc, None, None)
    go(f, X2, Y2)
    try:
        go(e, X2, Y2)
    except Exception as ex:  # noqa: BLE001
        return _viol(key, "legacy %s on clean data raises %s: %s after a failed one (%s)" % (api, type(ex).__name__, str(ex)[:60], first),
                     sc, [x.tolist() for x in wout(f)], None)
    if not _same(wout(e), wout(f)):
        return _viol(key, "legacy %s on clean data after a failed one (%s) differs from the same call on a fresh object" % (api, first),
                     sc, [x.tolist() for x in wout(f)], [x.tolist() for x in wout(e)])
    return None


def judge(case):
    sc = case["scenario"]
    if "legacy" in sc:
        return judge_legacy(sc)
    if "twins" in sc:
        return judge_twins(sc)
    if "second" in sc:
        return judge_session(sc)
    if "frozen" in sc:
        return judge_freeze(sc)
    return judge_frame(sc)


def gen_partial_targets(rng, i):
    """reservoir >> [2-3 Ridge readouts]: a complete Model.fit, then Model.fit naming targets for SOME readouts only (whether the
    library accepts or refuses that call, the readouts it does not name must keep their parameters), then a model run."""
    store = gen_store(rng, force=["ridge"] * rng.randint(2, 3))
    d, nodes = store["d"], store["nodes"]
    rd = store["models"][0]["readouts"]
    for j in rd:
        nodes[j]["lam"] = rng.choice([l for l in LAMS if l > 0] or LAMS)
    w1, w2 = rng.choice([0, 1]), rng.choice([0, 1])
    only = sorted(rng.sample(rd, rng.randint(1, len(rd) - 1)))
    ops = [dict(op="mfit", model=0, warmup=w1, tform="dict", **gen_batch(rng, d, {j: nodes[j]["dout"] for j in rd}, w1, rng.randint(1, 2))),
           dict(op="mfit", model=0, warmup=w2, tform="dict", only=only, **gen_batch(rng, d, {j: nodes[j]["dout"] for j in rd}, w2, rng.randint(1, 2))),
           {"op": "mrun", "model": 0, "X": rows(rng, 2, d)}]
    return dict(store, ops=ops, tag="pt%d" % i, esn=False)


def oracle(ctx, scale=1):
    rng = ctx.rng("oracle")
    out, n1, n2 = [], ctx.n(60, 500) * scale, ctx.n(70, 560) * scale
    dist = {}
    n0 = ctx.n(12, 120) * scale
    rng0 = ctx.rng("oracle-partial-targets")
    for i in range(n0):
        v = judge_frame(gen_partial_targets(rng0, i))
        dist["partial-targets-refit"] = dist.get("partial-targets-refit", 0) + 1
        if v:
            out.append(v)
    for i in range(n1):
        sc = gen_scenario(rng, i)
        v = judge_frame(sc)
        if v:
            out.append(v)
    for i in range(n2):
        sc = gen_session(rng, i)
        dist[sc["mode"]] = dist.get(sc["mode"], 0) + 1
        v = judge_session(sc)
        if v:
            out.append(v)
    n3 = ctx.n(36, 360) * scale
    for i in range(n3):
        sc = gen_freeze(rng, i)
        dist["freeze:" + sc["mode"]] = dist.get("freeze:" + sc["mode"], 0) + 1
        v = judge_freeze(sc)
        if v:
            out.append(v)
    n4 = ctx.n(24, 300) * scale
    for i in range(n4):
        sc = gen_twins(rng, i)
        dist[sc["mode"]] = dist.get(sc["mode"], 0) + 1
        v = judge_twins(sc)
        if v:
            out.append(v)
    n3 += n4
    n5 = ctx.n(20, 200) * scale
    for i in range(n5):
        sc = gen_legacy(rng, i)
        dist[sc["mode"]] = dist.get(sc["mode"], 0) + 1
        v = judge_legacy(sc)
        if v:
            out.append(v)
    n3 += n5
    return {"evaluations": n0 + n1 + n2 + n3, "violations": out, "distribution": dist,
            "rule": "(i)/(ii) sha256 of every parameter and hyper of every node before/after each operation of a random history: fixed ones "
                    "never change, learned ones only on trainable targets of a training operation; (iii)-(v) two-fit sessions on Ridge, "
                    "reservoir >> Ridge(s), ESN(reservoir, Ridge), SumOffline and ScikitLearnNode: second fit after a completed fit / after a fit failing at "
                    "sequence k >= 1 / after a fit whose solve is singular == the same fit on fresh objects, and independent of the "
                    "first fit's data (the failing sequence: too short for the warm-up, targets shorter / longer / wider than the inputs, "
                    "NaN); freeze scenarios: a readout (LMS, RLS, Ridge, SumOffline) frozen before / after model assembly / after a first "
                    "session, then Model.train / Model.fit with array and name-keyed targets naming it, and node-level calls: its parameters "
                    "never change; twins: two same-named live Ridge readouts (deep copies of one template / a Ridge and a subclass) with interleaved "
                    "partial_fit sessions each equal the same readout trained alone on its own batches; legacy trainer (compat.ESN.train, "
                    "compat RidgeRegression.fit): a call failing on a malformed sequence k >= 1 / on NaN data, then the same call on clean data == "
                    "fresh objects on the clean data, Wout untouched by the failed call"}


def replay(payload):
    sc = payload["scenario"]
    v = judge_legacy(sc) if "legacy" in sc else judge_twins(sc) if "twins" in sc else judge_session(sc) if "second" in sc else judge_freeze(sc) if "frozen" in sc \
        else judge_frame(sc)
    return {"violates": bool(v), "detail": v}


def pregen(ctx):
    """tie (T): re-translate Node.is_trainable (getter and setter) / is_trained_offline / is_trained_online / initialize_buffers /
    clean_buffers / get_buffer / partial_fit / fit and _partial_backward_default (node.py) of the tree under test into coq/gen/Gen_fit.v (translator vlib/py2coq_fit.py, a subclass of the C08
    translator; vocabulary coq/base/FitPrelude.v); proofs/Gen_fit_eq.v then proves them equal to clean_buffers / init_buffers /
    partial_backward / partial_fit / fit HEAD / set_trainable of model/TrainSem.v (C11_generated_*).  Returns None or the error text; on rejection a stub
    that does not compile replaces the file (never a stale model)."""
    import os
    import traceback
    from vlib import py2coq_fit
    path = os.path.join(core.COQ, "gen", "Gen_fit.v")
    os.makedirs(os.path.dirname(path), exist_ok=True)
    err = None
    try:
        text = py2coq_fit.emit(core.REPO)
    except py2coq_fit.Reject as ex:
        err = "translation rejected: %s" % ex
    except Exception:
        err = "translator exception: " + traceback.format_exc()[-1500:]
    if err is not None:
        text = "(* GENERATED: translation of the offline-training skeleton FAILED -- %s *)\nDefinition translation_failed : True := 0.\n" % (
            err.replace("*)", "* )").replace("(*", "( *"))
    old = open(path).read() if os.path.exists(path) else None
    if old != text:               # keep the mtime (and the compiled cone) when nothing changed
        with open(path, "w") as f:
            f.write(text)
    return None if err is None else "offline-training skeleton (Node.fit / partial_fit / clean_buffers / initialize_buffers): %s" % err
