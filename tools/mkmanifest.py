"""Regenerates MANIFEST.json from tools/manifest_data.py (kept valid at all times)."""
import json, os, sys
sys.path.insert(0, os.path.dirname(os.path.abspath(__file__)))
from manifest_data import CHECKS, NOT_YET
ALL = ["C%02d" % i for i in range(1, 21)]
checks = []
for pid in ALL:
    if pid not in CHECKS:
        continue
    c = CHECKS[pid]
    checks.append({
        "property_id": pid,
        "quick_cmd": "./check %s --tier quick" % pid,
        "thorough_cmd": "./check %s --tier thorough" % pid,
        "evidence_file": "/verif/evidence/%s.json" % pid,
        "replay_cmd_template": "./check %s --replay {path}" % pid,
        "engine": "coq-proof+correspondence",
        "level_claimed": {"category": "proof", "text": c["text"], "design_ref": "DESIGN.md §8 %s" % pid},
        "level_note": c["note"],
        "technique": c["technique"],
    })
na = [{"property_id": p, "reason": NOT_YET.get(p, "check not built yet in this session (planned: Coq model + theorems + correspondence, DESIGN.md §8)")}
      for p in ALL if p not in CHECKS]
m = {
    "version": 1,
    "setup_cmd": "./setup.sh",
    "hooks": {"guard": "RESERVOIRPY_VERIF", "enable": "no hook exists: /repo carries no instrumentation (C09's schedule probes are injected from the harness side); the guard name is reserved only",
              "baseline_off_cmd": "cd /repo && env -u RESERVOIRPY_VERIF /venv/bin/python -m pytest -ra -q -p no:cacheprovider --timeout=900 --continue-on-collection-errors",
              "source_commits": [], "add_only": True},
    "engines": [{"name": "coq-proof+correspondence", "path": "/verif/check",
                 "serves_properties": sorted(CHECKS),
                 "kind_free_text": "Coq 8.16.1 theorems about an executable Gallina model (coq/), tied to /repo on every run (a) by regenerating the numeric "
                                   "kernels' definitions from the current source text with a fail-closed translator and re-proving them equal to the model "
                                   "(all twenty properties; C07 through Node.run) and (b) by executing the model inside Coq (vm_compute at Q) on the scenarios the real "
                                   "library just ran, plus a property oracle on the real code that produces the replay"}],
    "checks": checks,
    "notes": "See DESIGN.md. Every check: (0) re-translation of the property's kernels from the current source (coq/gen/, where a translator exists), (1) full .vo rebuild of the cone of coq/props/<id>.v with Print Assumptions, (2) model-vs-implementation "
             "correspondence, (3) implementation oracle; known findings in known_findings.json.",
    "not_applicable": na,
}
json.dump(m, open(os.path.join(os.path.dirname(os.path.dirname(os.path.abspath(__file__))), "MANIFEST.json"), "w"), indent=1)
print("claimed:", sorted(CHECKS), "unclaimed:", [x["property_id"] for x in na])
