CHECKS = {
 "C17": {
  "text": "Machine-checked theorems (coq/props/C17.v, closed under the global context) that the Delay, NVAR and Concat models compute the documented "
          "window functions for every input sequence, delay, order, stride and dimension, and that the model's combination enumeration is exactly "
          "itertools' (weakly increasing tuples, each once, lexicographic). The model is tied to the code by running both on the same seeded "
          "scenarios on every run; an implementation oracle recomputes the formulas directly.",
  "note": "Trusted: Coq kernel, the hand-written model coq/model/Windows.v as a rendering of delay.py/nvar.py/concat.py and graphflow's fan-in sort, "
          "the harness tools/props/c17.py, float64 exactness on small dyadic inputs. Node state handling of these nodes is C08/C12, not C17.",
  "technique": "Coq proof (induction over the input list) about an executable Gallina model + model-vs-code correspondence by vm_compute",
 },
}

CHECKS["C02"] = {
  "text": "Machine-checked theorems (coq/props/C02.v, closed under the global context) about the executable model of Model._call/forward/"
          "DataDispatcher for ANY family of node forward functions and any topologically ordered graph: one step yields an environment that "
          "satisfies, for every node, new state = forward(own previous state, concatenation of the predecessors' NEW states + external input, "
          "feedback); that system has a unique solution, so the result is independent of the valid order picked; nodes outside the model are "
          "untouched; name-keyed inputs reach exactly the named nodes; a run is the step applied per timestep. The model is tied to the code "
          "by running seeded histories on random DAGs on both and comparing every output and every node state inside Coq.",
  "note": "Trusted: Coq kernel; coq/model/ModelSem.v + Kinds.v as a rendering of model.py/_base.py/graphflow.py and of the node kinds; the "
          "execution order and fan-in order are read from the real Model and validated (is_topo) rather than predicted (C03/C17 cover them); "
          "harness tools/props/c02.py + tools/vlib/scen.py; float64 exact on small dyadic data.",
  "technique": "Coq proof (induction over the execution order; uniqueness of the solution of the graph equations) + model-vs-code correspondence by vm_compute",
}
CHECKS["C18"] = {
  "text": "Machine-checked theorems (coq/props/C18.v) about Gallina definitions regenerated from the current text of activationsfunc.py on every run: "
          "softmax is non-negative, sums to one, is shift-invariant, orders its outputs like its inputs for beta>0 and equals exp(beta x_k)/sum exp(beta x_i); "
          "sigmoid (both branches), softplus, tanh, relu, identity equal their definitions; shapes are preserved; every exp argument is <= 0, every divisor in [1,n], "
          "every log argument in [1,2] (overflow freedom on the real intermediates); the pre-fix formulas are refuted. An implementation oracle checks the float "
          "behaviour (4 ulp vs a 60-digit decimal reference over the whole float range, softmax algebra, shapes, activation nodes).",
  "note": "Trusted: Coq kernel and the Reals axioms; the fail-closed translator tools/vlib/py2coq_act.py (Python ast -> Gallina); np.vectorize modelled as map, arrays flattened "
          "to lists; python decimal as reference. Rounding, subnormals and signed zeros are float/libm facts decided by the oracle only (partial).",
  "technique": "Coq proof over R about source-translated definitions (translator tie) + exact evaluation of the translated IR vs the code + float oracle vs high-precision reference",
}

NOT_YET = {}
