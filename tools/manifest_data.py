CHECKS = {
 "C17": {
  "text": "Machine-checked theorems (coq/props/C17.v, closed under the global context) that the Delay, NVAR and Concat models compute the documented "
          "window functions for every input sequence, delay, order, stride and dimension, and that the model's combination enumeration is exactly "
          "itertools' (weakly increasing tuples, each once, lexicographic). The model is tied to the code by running both on the same seeded "
          "scenarios on every run; an implementation oracle recomputes the formulas directly."
          " NVAR.forward, Delay.forward and concat_forward are ALSO translated from the current source text on every run (coq/gen/Gen_windows.v) and proved equal to the model for every Num instance (C17_generated_*).",
  "note": "Trusted: Coq kernel, the hand-written model coq/model/Windows.v as a rendering of delay.py/nvar.py/concat.py and graphflow's fan-in sort, "
          "the harness tools/props/c17.py, float64 exactness on small dyadic inputs. Node state handling of these nodes is C08/C12, not C17."
          "; the fail-closed kernel translator tools/vlib/py2coq_la.py + la_specs.py (np.roll, strided rows, slice writes, deque appendleft/pop as list operations of base/GenPrelude.v)",
  "technique": "Coq proof (induction over the input list) about an executable Gallina model + model-vs-code correspondence by vm_compute + source-translated forward functions proved equal to the model (translator tie)",
 },
}

CHECKS["C02"] = {
  "text": "Machine-checked theorems (coq/props/C02.v, closed under the global context) about the executable model of Model._call/forward/"
          "DataDispatcher for ANY family of node forward functions and any topologically ordered graph: one step yields an environment that "
          "satisfies, for every node, new state = forward(own previous state, concatenation of the predecessors' NEW states + external input, "
          "feedback); that system has a unique solution, so the result is independent of the valid order picked; nodes outside the model are "
          "untouched; name-keyed inputs reach exactly the named nodes; a run is the step applied per timestep. The model is tied to the code "
          "by running seeded histories on random DAGs on both and comparing every output and every node state inside Coq.",
  "note": "Trusted: Coq kernel; coq/model/ModelSem.v + Kinds.v as a rendering of model.py/_base.py/graphflow.py and of the node kinds; the "
          "execution order and fan-in order are read from the real Model and validated (is_topo) rather than predicted (C03/C17 cover them); "
          "harness tools/props/c02.py + tools/vlib/scen.py; float64 exact on small dyadic data.",
  "technique": "Coq proof (induction over the execution order; uniqueness of the solution of the graph equations) + model-vs-code correspondence by vm_compute",
}
CHECKS["C18"] = {
  "text": "Machine-checked theorems (coq/props/C18.v) about Gallina definitions regenerated from the current text of activationsfunc.py on every run: "
          "softmax is non-negative, sums to one, is shift-invariant, orders its outputs like its inputs for beta>0 and equals exp(beta x_k)/sum exp(beta x_i); "
          "sigmoid (both branches), softplus, tanh, relu, identity equal their definitions; shapes are preserved; every exp argument is <= 0, every divisor in [1,n], "
          "every log argument in [1,2] (overflow freedom on the real intermediates); the pre-fix formulas are refuted. An implementation oracle checks the float "
          "behaviour (4 ulp vs a 60-digit decimal reference over the whole float range, softmax algebra, shapes, activation nodes).",
  "note": "Trusted: Coq kernel and the Reals axioms; the fail-closed translator tools/vlib/py2coq_act.py (Python ast -> Gallina); np.vectorize modelled as map, arrays flattened "
          "to lists; python decimal as reference. Rounding, subnormals and signed zeros are float/libm facts decided by the oracle only (partial).",
  "technique": "Coq proof over R about source-translated definitions (translator tie) + exact evaluation of the translated IR vs the code + float oracle vs high-precision reference",
}

CHECKS["C01"] = {
  "text": "Machine-checked theorems (coq/props/C01.v) that the reservoir model obeys, component by component and for every dimension, weight matrix, input, feedback value, start state, "
          "activation function and scalar or per-unit leak rate, the documented law with zero noise gains: internal x' = (1-lr)x + lr f(W x + Win u + b [+ Wfb g(y)]); external s' = (1-lr)s + lr(W x + ...), "
          "x' = f(s'); at every step of a run by induction over the input list; scalar lr = constant vector; Win with a bias column = split (bias, Win'); run(xs++ys) = run ys after run xs; noise draws "
          "irrelevant at gain 0. The model is tied to the code on every run by executing both on seeded scenarios (dense/csr/csc W, seeded initialisers read back, bias on/off/in Win, both equations, "
          "exact and named activations via a recorded table, feedback stand-alone and inside a Model, from_state) and comparing inside Coq; a numpy oracle recomputes each step from the node's matrices."
          " The kernels reservoir_kernel / forward_internal / forward_external / noise are ALSO translated from the current source text on every run (tools/vlib/py2coq_la.py -> coq/gen/Gen_reservoir.v) and proved equal to the model (theorems C01_generated_*), and the generated code is executed at Q against the observations.",
  "note": "Trusted: Coq kernel; the hand-written model coq/model/Reservoir.v as a rendering of nodes/reservoirs/base.py (tie is correspondence only); the harness; named activations treated as "
          "uninterpreted functions (their values are C18); float64 within 1e-9 of exact on small dyadic data. Not decided: float rounding, the random initialisers themselves (C13/C14), feedback timing (C05)."
          "; the fail-closed kernel translator tools/vlib/py2coq_la.py + la_specs.py",
  "technique": "Coq proof (list induction, index-level sums) about an executable Gallina model polymorphic over a Num class (R for theorems, Q for vm_compute execution) + model-vs-code correspondence + implementation oracle + source-translated kernels proved equal to the model (translator tie)",
}
CHECKS["C15"] = {
  "text": "Machine-checked theorems (coq/props/C15.v) on the same model as C01: for every element-wise 1-Lipschitz activation, scalar leak rate a in [0,1], W with |Wv| <= sigma|v|, and all Win, bias, "
          "feedback, inputs and pairs of states, one internal step contracts the 2-norm distance by (1-a)+a*sigma (Cauchy-Schwarz), t steps by its t-th power, the factor is < 1 when sigma < 1 and a > 0, "
          "and the initial state is forgotten (below any eps after N steps uniformly in the inputs); activations with values in [-1,1] and lr in [0,1] (scalar or per-unit) keep [-1,1]^n invariant for every "
          "input; tanh (stdlib sinh/cosh, MVT), relu, identity and hard-tanh are proved to satisfy the hypotheses; the Frobenius norm is proved to bound sigma. Each run executes pairs of real Reservoir "
          "trajectories, has Coq confirm model = observed, certify sigma and check the inequality exactly at Q; an oracle checks the inequality at every step on SVD-rescaled reservoirs with "
          "tanh/relu/identity and inputs up to 1e6."
          " The contraction is also stated about forward_internal as translated from the current source on every run (C15_generated_step_contraction; coq/gen/Gen_reservoir.v).",
  "note": "Contraction is proved for the 'internal' equation with a scalar leak rate (what the property states). Trusted: as C01, plus numpy SVD in the oracle only; the oracle's slack models float64 rounding of the pre-activation."
          "; the fail-closed kernel translator tools/vlib/py2coq_la.py",
  "technique": "Coq proof over R (finite sums, Cauchy-Schwarz, stdlib MVT for tanh) + exact rational evaluation of the same model on real trajectories + source-translated kernel (translator tie)",
}
CHECKS["C19"] = {
  "text": "Machine-checked theorems (coq/props/C19.v) about an executable model of observables.py: mse is (1/n)Sum(y-yhat)^2 for every length; rmse^2 = mse; R^2 is 1 for a perfect prediction and 0 for the "
          "mean predictor (SS_tot != 0 explicit) and invariant under common affine maps; mse/rmse scale by a^2/|a|; nrmse is affine-invariant for minmax and q1q3 (sorting commutes with positive affine maps), "
          "divides by a for norm=var (a variance, not a standard deviation), and equals a*rmse/(a*mean+b) for norm=mean; dimensionwise results on 2-D/3-D arrays equal the 1-D metric of every feature column; "
          "all metrics reject different shapes; effective_spectral_radius takes the radius of lr*W+(1-lr)*I entrywise. The model is run at Q against the real functions on seeded 1-D/2-D/3-D arrays (all norms, "
          "dimensionwise on/off, zero denominators <=> non-finite result) on every run; an oracle recomputes the formulas with fractions and compares sparse/dense/eigvals spectral radii on structured matrices.",
  "note": "Trusted: Coq kernel + Reals axioms, model coq/model/Metrics.v as a rendering of observables.py, harness tools/props/c19.py, float64 accuracy on small dyadic inputs (1e-9). sqrt is Coq's Reals sqrt applied "
          "to the model mse; rmse/nrmse are tied through squares plus sign. Spectral radius (ARPACK/LAPACK/eigvals agreement, 'largest eigenvalue modulus') is NOT proved: oracle only, tol 1e-6, |rho|<1e-3 counts as 0, "
          "n <= 40. memory_capacity is outside the property.",
  "technique": "Coq proof (list induction, field/lra over R) about an executable Gallina model + model-vs-code correspondence by vm_compute + direct implementation oracle",
}
CHECKS["C05"] = {
  "text": "Machine-checked theorems (coq/props/C05.v, closed under the global context) about the executable model of state proxies / DistantFeedback / with_feedback / dispatch: the value handed to a receiver "
          "is read from the environment frozen before the step's first node is called - the sender's state at the end of step k-1 at step k of a run (pre-existing state at k = 0), for node and "
          "(in-sync) sub-model senders wherever they sit; a forced value replaces it; with shifting the forced value is zero at step 0 and Y[t] at step t+1, Y[t] without. The decisive part is the tie: "
          "seeded feedback topologies (sender downstream / upstream / outside the graph / sub-model upstream / sub-model downstream / reservoir<-readout) with forced feedback keyed by sender or receiver "
          "are run on the real library and on the model and compared inside Coq; an oracle recovers the feedback each receiver actually saw (out = x + 100 fb) and checks the timing, fit and train forcing.",
  "note": "Trusted: Coq kernel; ModelSem.v as a rendering of model.py/_base.py proxies and DistantFeedback (the model freezes feedback per step by construction, so the timing theorems are close to definitional: "
          "the assurance is the correspondence); sub-model senders straddling the receiver or partly outside the model, and the use of targets as forced feedback in fit/train, are decided by the oracle only (partial).",
  "technique": "Coq proof about an executable Gallina state machine + model-vs-code correspondence by vm_compute + feedback-recovering implementation oracle",
}
CHECKS["C07"] = {
  "text": "Machine-checked theorems (coq/props/C07.v, closed under the global context): for every model (a node is a one-node model), any node forward functions, feedback loops and hidden memory "
          "included, run(xs ++ ys) = run ys after run xs with concatenated outputs, hence any cutting into consecutive chunks (single-step calls included) gives the same outputs and final environment; "
          "online training as a fold with the learn_every gate restarting at each call is compositional when the cut is a multiple of learn_every (and a counter-example shows the hypothesis is needed). "
          "Tie: sequences cut at random points are executed piece by piece on the real library and on the model and compared inside Coq; an oracle compares whole vs chunked runs on two copies of the real "
          "objects (outputs, final states, continuation), the ESN node, and RLS/LMS nodes and a reservoir>>RLS model trained in chunks.",
  "note": "Trusted: Coq kernel; ModelSem.v/Kinds.v as renderings of the code; online learning rules themselves are C10's model - here the training half is the generic fold law plus the implementation oracle (partial).",
  "technique": "Coq proof (induction over the step list / chunk list) about an executable Gallina state machine + model-vs-code correspondence by vm_compute",
}
CHECKS["C08"] = {
  "text": "Machine-checked theorems (coq/props/C08.v): in the model of Node/Model.with_state, run and call, a stateful=False operation with any reset/from_state leaves the current state of every node "
          "unchanged whether it completes or a forward function raises part-way; it is repeatable when no hidden memory changed; reset gives every node the zero state of its dimension and leaves hidden "
          "memory alone; from_state/reset start the operation from exactly the given states; and C08_hidden_memory_refuted exhibits (Delay) that hidden memory breaks repeatability and freshness - the open "
          "known findings hidden-memory:*. Tie: histories of run/call/reset with every flag combination, 30% with a node raising at its k-th call, compared op by op (success flag, outputs, all states) inside Coq; "
          "an oracle checks state preservation (also on failure), repeatability, reset = fresh copy, from_state = state set first, on the real objects.",
  "note": "Trusted: Coq kernel; functional_extensionality_dep (stdlib) in C08_stateless_repeatable; ModelSem.v as a rendering of with_state/reset (after the try/finally repair c89bff1). Hidden memory is mirrored, not repaired.",
  "technique": "Coq proof (frame lemmas over the execution order, fold invariants) about an executable Gallina state machine with failure + model-vs-code correspondence by vm_compute",
}

CHECKS["C04"] = {
  "text": "Machine-checked theorems (coq/props/C04.v; only the standard Reals axioms) about an executable model of Ridge.fit: for any list of sequences, any warm-up, dimensions, bias on/off, the accumulators are the "
          "Gram sums over the retained rows; any parameters satisfying (XXT+lambda I)W=YXT^T are, for lambda>0, the unique minimiser of Sum_retained|W^T x+b-y|^2+lambda(|W|^2+|b|^2) (per output coordinate and in total); "
          "XXT+lambda I has a trivial kernel, so under the stated LAPACK oracle the fitted Wout/bias satisfy the normal equations and are that minimiser; prediction is Wout^T x+bias; the first `warmup` rows of every "
          "sequence do not influence the result. Each run ties the model to the code on seeded datasets (2-D, 3-D, ragged) by comparing Wout, bias and predictions and re-checking the normal equations on the observed "
          "parameters; an exact-rational oracle checks residual, perturbation optimality, warm-up independence and affinity on the real node."
          " partial_backward / _accumulate / backward / _solve_ridge / readout_forward are ALSO translated from the current source text on every run (coq/gen/Gen_ridge.v) and proved equal to the model for every Num instance (C04_generated_*).",
  "note": "Trusted: Coq kernel; hand-written model coq/model/Ridge.v as a rendering of ridge.py / readouts/base.py / Node.partial_fit / add_bias; scipy.linalg.solve as Section Variable + hypothesis solve_spec (used only by "
          "C04_normal_equations / C04_optimal / C04_optimal_total / C04_unique; the core optimality theorems and the per-run normal-equation check on observed values do not use it); float64 rounding within 1e-9 "
          "(lambda >= 1/8, small dyadic data); fresh node per fit, single process."
          "; the fail-closed kernel translator tools/vlib/py2coq_la.py + la_specs.py (add_bias is a pinned primitive)",
  "technique": "Coq proof (index-level finite-sum algebra for the ridge gap identity + list-level bridge by induction over sequences/rows) about an executable Gallina model; model-vs-code correspondence by vm_compute over Q with Gauss-Jordan; exact-rational implementation oracle + source-translated kernels proved equal to the model (translator tie)",
}
CHECKS["C10"] = {
  "text": "Machine-checked theorems (coq/props/C10.v): RLS from zero weights equals the ridge(lambda=alpha) solution on the samples selected by learn_every and P is the inverse regularised covariance (denominators proved "
          "positive from a PSD invariant, for any list of successive train calls); LMS performs w - alpha_k(yhat-y)x~^T with the schedule consumed once per update, never on skipped steps; the train loop updates exactly on "
          "i mod learn_every = 0 and returns pre-update predictions; IP applies the documented tanh/sigmoid gradient step once per timestep, sequence, epoch, in that order. The model is run at Q against real RLS/LMS/FORCE/"
          "IPReservoir nodes on every run; an exact-Fraction ridge / explicit-loop oracle checks the real nodes directly."
          " _rls, _lms, the two train functions and the readout helpers of readouts/base.py are ALSO translated from the current source text on every run (coq/gen/Gen_online.v) -- likewise gaussian_gradients / exp_gradients / apply_gradients / ip / ip_activation of intrinsic_plasticity.py (coq/gen/Gen_ip.v) --, proved equal to the model (C10_generated_*), and executed at Q inside the same train loop against the real nodes.",
  "note": "IP / train-loop model hand-written (the RLS / LMS rules and readout helpers are additionally translated, see text); FORCE covered by correspondence only; IP activation values are recorded from the run (tanh/exp not evaluated in Coq; y=f(a x+b) checked by the Python oracle); default zero "
          "initial weights; noise gains 0; RLS alpha in [1/4, 4] and LMS rates <= 1/8 in scenarios. Trusted: Coq kernel + Reals axioms, coq/model/Online.v, harness tools/props/c10.py."
          "; the fail-closed kernel translator tools/vlib/py2coq_la.py + la_specs.py (add_bias is a pinned primitive)",
  "technique": "Coq proof over R (Sherman-Morrison + normal equations at index level on BSum, PSD invariant for the denominators; list induction for loop/gate/cursor/IP order) + Q-executed model vs real nodes (1e-9) + exact Fraction ridge / explicit-loop oracle + source-translated update rules proved equal to the model (translator tie)",
}
CHECKS["C14"] = {
  "text": "Machine-checked theorems (coq/props/C14.v, closed under the global context) about a provenance semantics of reservoirpy's seed plumbing "
          "(set_seed, rand_generator, noise, Reservoir.__init__/initialize/initialize_feedback, mackey_glass/narma default seed, ScikitLearnNode "
          "random_state): with an integer seed the provenance of W, Win, bias, Wfb and of every noise draw of a reservoir is the same for any two "
          "program states and any two histories that interleave its own operations with arbitrary other ones (non-interference, induction over "
          "histories); after set_seed(s) every array of any script is a function of s and the script; gain 0 consumes no draw and yields the noiseless "
          "trajectory term; every component of a seeded reservoir is rooted in its seed; different seeds give different terms. The model is tied to the "
          "code relationally on every run: random histories are executed on the real library, every produced array is SHA-256-hashed, and Coq checks "
          "for all pairs that equal provenance implies equal bytes and different seeds imply different bytes; an independent oracle compares bytes directly.",
  "note": "Trusted: Coq kernel; numpy/scipy/sklearn determinism (the value of a draw is a function of root seed, requests already served, request: "
          "Section hypothesis np_value); negligible collision between different seeds for rich draws; coq/model/Prov.v as a rendering of utils/random.py, "
          "mat_gen.py, reservoirs/base.py+reservoir.py, datasets/_chaos.py, sklearn_node.py; harness tools/props/c14.py. ARPACK non-convergence retries "
          "(re-draw) are out of scope. The theorem is about information flow, not numeric values (partial by nature).",
  "technique": "Coq proof (non-interference by induction over operation histories on a provenance semantics) + relational model-vs-code correspondence by vm_compute on hashed arrays",
}

CHECKS["C03"] = {
  "text": "Machine-checked theorems (coq/props/C03.v, closed under the global context) about an executable model of graphflow/ops/Model.__init__. Kahn's algorithm with the deque-as-stack discipline returns a permutation "
          "of the nodes with every edge forward, rejects every graph with a directed cycle and accepts every rankable graph, for every order of the entry set and of the edge list. Entries and exits are exactly the nodes "
          "without predecessors / successors. link builds union + outputs x inputs and merge builds the union, nothing twice. Concat insertion gives every multi-parent non-Concat node exactly one fresh Concat parent whose "
          "parents are the former ones, each once, and changes nothing else. Merging is commutative (explicit renaming of Concat ids, accepted together) and idempotent. Chaining associativity is proved for 216 operand "
          "triples by computation (general statement kept as a Definition). The model is tied to the code on every run: all digraphs on 2-3 (thorough: <=4 and a 5-node sample) nodes built both directly and through "
          ">>/&/&=, plus random expressions. Everything but the execution order is compared as sets; the observed order is checked to be topological. The open finding fanin:predecessor-delivered-twice is mirrored by "
          "the model (C03_fanin_twice_refuted).",
  "note": "Trusted: Coq kernel; coq/model/Graph.v as a rendering of ops.py/graphflow.py/model.py (abstract ids for object identity, isc table for type(node), observed child->Concat tables for names); tools/props/c03.py; "
          "networkx in the oracle only. Not decided by proof: general chain associativity (bounded), FrozenModel / dimension-mismatch errors, explicit node lists with duplicates.",
  "technique": "Coq proof (invariant induction over Kahn steps; list/set reasoning for link/merge/concat insertion; vm_compute for the bounded associativity sweep and the refutation witness) + exhaustive small-digraph and random-expression model-vs-code correspondence by vm_compute",
}

CHECKS["C13"] = {
  "text": "Machine-checked theorems (coq/props/C13.v) about the LOGIC around numpy/scipy's generators: the Initializer.__call__ dictionary state machine (partial application never alters an existing initializer, "
          "later calls on the original answer as before, init(**k1)(*shape, **k2) = init(*shape, **(k1 updated by k2)) for all kwargs), spectral-radius rescaling over R under an assumed homogeneity law (a positive "
          "multiple of the draw with the requested radius when the radius is >= eps; the draw unchanged when it is null; the pre-fix epsilon formula and the open mis-estimated-null-radius finding are refuted by witnesses), "
          "scalar / per-column input scaling entrywise, ring / line index formulas (exactly one entry per row and column), and exact degrees of the COO assembly under a `choice` oracle hypothesis. The model runs at Q "
          "against the real initializers fed the observed same-seed draw, the library's own radius and numpy's replayed choice answers; an independent oracle checks shape, format, dtype, scipy's nnz formula, "
          "degrees, value support, purity, positive-multiple + radius on the real matrices.",
  "note": "Density, value support and seed determinism are facts about numpy/scipy generators: oracle-only (partial). Spectral radius is an assumed oracle law (rho_hom). Deprecated kwargs aliases are excluded from the composition "
          "theorem. Open finding sr:null-radius-misestimated-blown-up is mirrored by C13_sr_null_misestimated_refuted. Radius equality checked at rtol 1e-6 widened by a conditioning probe. Trusted: Coq kernel + Reals axioms, "
          "coq/model/MatGen.v, harness tools/props/c13.py.",
  "technique": "Coq proof (ordered-dict algebra, heap frame lemmas, real algebra under a homogeneity hypothesis, index arithmetic for ring/line/degree) + Q-executed model vs real initializers + implementation oracle",
}
CHECKS["C20"] = {
  "text": "Machine-checked theorems (coq/props/C20.v): to_forecasting returns X[i]=series[i], y[i]=series[i+forecast] with n-forecast rows; with a test size the four parts are contiguous, ordered and disjoint, cut at the same "
          "place for X and y, with the test part of the requested size (an int, or the nearest integer of n*ratio by Python round), along axis 0/1 of 2-D series; one_hot_encode returns the sorted duplicate-free class list "
          "and, for every label, the unit vector of its class index, for 1-D, (n,1) and (n,m) arrays and lists of sequences (pieces keep their lengths); logistic_map and henon_map return n rows starting at x0 whose "
          "consecutive rows satisfy the map; narma returns n rows of an array satisfying its documented recurrence at every loop step; the pre-fix narma loop is refuted by a witness. The model runs at Q against the real "
          "functions on every run; an oracle recomputes everything with Python fractions (also N-D series and negative axes)."
          " logistic_map, henon_map and narma are ALSO translated from the current source text on every run (coq/gen/Gen_maps.v: the for-loops that fill the arrays element by element become folds over seq) and proved equal to the models for every Num instance (C20_generated_*).",
  "note": "Hand-written model coq/model/Datasets.v; N-D (3-D or higher) series are decided by the oracle only; narma always gets a supplied u (numpy RNG not modelled); map runs are capped at n <= 10 because exact rationals "
          "double in size each step. Trusted: Coq kernel (+ Reals axioms on the R-valued theorems), harness tools/props/c20.py."
          "; the fail-closed kernel translator tools/vlib/py2coq_la.py + la_specs.py (for i in range(a, b) = fold over seq; X[i] = v = list update; integer subtractions accepted only where they provably stay >= 0)",
  "technique": "Coq proofs by induction over lists and loop steps (lia, lra, ring via BSum), vm_compute witness for the refutation + model-vs-code correspondence at Q + fractions oracle + source-translated map generators proved equal to the model (translator tie)",
}

CHECKS["C09"] = {
 "text": "Machine-checked theorems (coq/props/C09.v; the schedule and order theorems are closed under the global context): in the transition system of N workers doing acquire; read XXT; write XXT+c; read YXT; write YXT+d; release "
         "on shared buffers, for every N, all contributions in any commutative monoid and EVERY schedule, the lock gives mutual exclusion, at every moment the buffers hold exactly the contributions already written, and once all "
         "workers are done XXT, YXT = initial + the sum of all contributions (nothing lost, nothing counted twice); a terminating schedule exists for every N; without the lock a two-worker schedule loses an update (model of the "
         "pre-fix legacy trainers). Sorting any permutation of the (index, result) pairs by index returns the results in input order (_sort_and_unpack). Data level: the executable model of partial_fit/_accumulate fills XXT, YXT with "
         "numbers that depend only on the multiset of retained (input, target) rows, whatever the split into sequences, their order, the grouping into partial fits and the warm-ups. Tied to the code on every run: Ridge on one array / "
         "lists in several orders / partial-fit groupings (buffers read back), ESN.fit over worker counts and backends, legacy compat ESN.train and RidgeRegression.fit, ESN.run on lists; observed Wout, bias, buffers and the logged "
         "accumulation schedules are checked inside Coq against the model (exact rational solve; schedules replayed through the transition system)."
          " The critical section is tied to the source: in the code translated from ridge.py on every run a worker's effect on the shared buffers is XXT += c; YXT += d with (c, d) a function of its own sequence only, with or without the lock (C09_generated_worker_adds_its_own_contribution).",
  "note": "No hook in /repo: the harness injects probe accumulators (ndarray subclass with a non-atomic += and a seeded dwell) in place of the shared buffers; this observes mutual exclusion for the threading/sequential backends only. "
         "For loky/multiprocessing only final Wout/bias are compared; real interleavings, memmap coherence between processes and joblib pickling are outside the model (partial). Trusted: Coq kernel, Reals axioms for the data-level "
         "theorem only, the hand-written models Conc.v/BatchAcc.v, the probe, LA.qsolve standing for scipy.linalg.solve, reservoir states taken from a twin Reservoir run (C01)."
          "; the fail-closed kernel translator tools/vlib/py2coq_la.py",
  "technique": "Coq proof (lock invariant preserved by every step of every schedule; permutation/regrouping invariance of sums over a commutative monoid; uniqueness of a sorted permutation) + replay of observed schedules and data sets through the same executable model by vm_compute + implementation oracle + source-translated accumulation (translator tie)",
}

CHECKS["C16"] = {
  "text": "Machine-checked theorems (coq/props/C16.v) over an explicit object-store model of reservoirpy nodes, models, name registries and deepcopy/pickle/Node.copy: every cell of a copy is fresh and any sequence of writes "
          "to one side leaves every cell of the other unchanged (frame); the only shared cell of Node.copy is the documented feedback sender; copied cells have equal contents, hence for every forward function of the node "
          "contents and every input sequence the copy returns what the original would have at copy time, whatever is done to the other side afterwards (bisimulation); a deep-copied model finds each node under its new name, "
          "so stateless runs, return_states and name-keyed I/O are defined; refutations for the pre-fix registry and for the open name-collision finding; over R, for every shaped v0.2 ESN, activation, fbfunc, state and input "
          "sequence, the ESN built by load_compat goes through the same states and outputs, with Q refutations of the pre-fix conversion. Tie: random DAG, feedback and single-node scenarios run, copied (deepcopy / pickle / "
          "Node.copy), the other side run and overwritten in place, history replayed; names, registry keys, senders, sharing and the whole numeric history checked in Coq; legacy ESNs saved, loaded, converted and run. Oracle on "
          "the real objects: equal outputs, supported operations, no shared bytes, load exact, load_compat to 1e-9.",
  "note": "Trusted: Coq kernel; Reals axioms plus functional_extensionality_dep for the three load_compat theorems over R; deepcopy/pickle memo-table semantics; closedness of the reachable set re-checked per scenario (boolean "
          "hypothesis); np.tanh via a recorded table; disk formats and dill as oracles; noise 0. Open finding copy:renamed-name-collision is mirrored (C16_name_collision_refuted), not repaired.",
  "technique": "Coq proof (frame theorem over write sequences, bisimulation by induction over execution order and input sequence, list-level matrix transpose identities at R) about an executable Gallina heap and legacy-ESN model + model-vs-code correspondence by vm_compute",
}

CHECKS["C12"] = {
  "text": "Machine-checked theorems (coq/props/C12.v, closed under the global context): for every node kind and every history of call/run/train/partial_fit/fit, known dims never change; every exception raised before the core "
          "(no learning rule, check_xy, initialisation) leaves dims/state/params untouched; wrong feature size (any array rank), non-numeric, non-array, wrong number of inputs, unsupported operations are rejected in the checking "
          "phase; accepted input of T steps gives T rows of width output_dim; state is (1, output_dim) after any accepted operation; pre-fix behaviours and the two open findings are kept as refutation witnesses. Model = literal "
          "check_vector / check_one_sequence / check_n_sequences / check_xy + op skeleton, tied each run by 446 (thorough 4126) seeded op histories over all 18 public node classes with a malformed-data stream (exception class + "
          "phase, shapes, dims, bit-identical fingerprint compared inside Coq) and an independent implementation oracle.",
  "note": "Irregular layouts accepted by the validation (3-D array to call/run; ragged lists on an uninitialised node - two open findings) are mirrored as 'Irregular' and judged by the oracle only; Models/teachers, "
          "from_state/stateful/reset, buffers/_fitted, multi-target ScikitLearnNode (sklearn 1.9 lacks _get_tags) not covered; exception messages not modelled, only classes. Trusted: Coq kernel, coq/model/Shapes.v, tools/props/c12.py.",
  "technique": "Coq proof (explicit state machine on abstract shape descriptors; case analysis + induction over op histories) + model-vs-code correspondence by vm_compute on nat/bool + implementation oracle",
}

CHECKS["C11"] = {
  "text": "Machine-checked theorems (coq/props/C11.v, closed under the global context, for every choice of the numeric kernels) about a state machine of Node/Model training (fixed/learned sides, _buffers, _X/_Y with an explicit "
          "`_X is _Y` flag, trainable/fitted, partial_fit/fit/train/run/freeze, Model.fit/Model.train): inference changes nothing but state; any operation, whatever its outcome, changes only the learned side of trainable targets, "
          "lifted by induction to all histories (fixed side of every node, and every parameter of a reservoir or frozen readout, identical forever); every completed fit, and in HEAD every failed fit (bad sequence at any index k, "
          "or the learning rule raising), ends with clean buffers, so for any two histories ending in a fit the next fit on the same data gives the same result, equal to a fresh node's for Ridge; vm_compute witnesses refute this "
          "for the three pre-fix trees and for the open `_X = _Y = []` aliasing. The model runs at Q against real Ridge/RLS/LMS/ScikitLearnNode/custom default-buffer nodes and reservoir>>readout models on every run (parameter "
          "hashes, buffer flags, exception class, Wout/bias after each op); an independent oracle byte-compares parameters and compares refits with fresh fits.",
  "note": "Single-stage models without feedback; IPReservoir and memmap file removal not covered; scikit-learn estimator values opaque (outcome only); features entering readouts in models obtained by running a copy of the real "
          "reservoir; open finding refit:XY-aliased-default-buffers reported as KNOWN-FINDING; finding failed-fit:backward-raised:sums-kept was discovered by this check (fixed 36d5a16). Trusted: Coq kernel, coq/model/TrainSem.v as "
          "a rendering of node.py/model.py, harness tools/props/c11.py.",
  "technique": "Coq proof (frame lemmas per operation, induction over operation histories; session isolation through a buffer-equality relation) + Q-executed model vs real objects after every operation (hashes, flags, exact change pattern, Wout/bias at 1e-9) + direct refit-vs-fresh oracle",
}

CHECKS["C06"] = {
  "text": "Machine-checked theorems (coq/props/C06.v, closed under the global context): Model.fit executed with ANY staging accepted by the symbolic validity check gives every offline node the parameters of the explicit "
          "node-by-node procedure (run upstream, fit the readout on its inputs with the same targets and warm-up, feed its predictions downstream), for any node types, any learner and any data (free-algebra symbolic execution + "
          "homomorphism lemma); the staging computed by the faithful model of get_offline_subgraphs/_get_required_nodes/_get_links terminates and is valid for every DAG with <= 5 nodes in the supported class (vm_compute, bound "
          "stated in the theorem) and is re-validated for every scenario of every run; Model.train equals the explicit per-timestep loop with updates exactly on i mod learn_every = 0 and pre-update outputs; array and mapping data "
          "reach both procedures as the same mappings; the pre-fix learn_every gate and four open staging defects are refuted by witnesses. The Q-instantiated model (Kinds.kfwd, Ridge.fit with qsolve, Online rls/lms) is compared "
          "with real models (chains, deep models, shortcuts, parallel readouts, ESN node, multi-sequence, warm-up, array/mapping data) on every run; an oracle runs the explicit procedure with the real nodes.",
  "note": "Staging validity is proved only up to 5 nodes plus per instance (the general statement is kept as a Definition); ESN.fit and the stepwise-vs-nodewise equivalence of the forward sub-model run are decided by "
          "correspondence and oracle only; four open staging defects (fit-staging:*) outside the supported class are mirrored, refuted in Coq and reproduced on the real code. Trusted: Coq kernel, coq/model/FitSem.v, tools/props/c06.py.",
  "technique": "Coq proof (free-algebra symbolic execution + homomorphism lemma; bounded vm_compute sweep over all DAGs <= 5 nodes) + Q-model correspondence + real-node oracle",
}

NOT_YET = {}


# ---- later updates (kept as replacements on the joined strings so that each one is checked to apply) -----------------------------
def _upd(pid, field, old, new):
    assert old in CHECKS[pid][field], (pid, field, old[:40])
    CHECKS[pid][field] = CHECKS[pid][field].replace(old, new)


_upd("C03", "text", "Chaining associativity is proved for 216 operand triples by computation (general statement kept as a Definition).",
     "Chaining is associative in general (C03_chain_assoc: same nodes, edges, entries and exits up to a renaming of the inserted Concat ids that fixes every operand node, "
     "whenever both sides are built). The in-place update (&=) is the merge when the result is acyclic and the identity when it is rejected; list operands of merge are flattened. "
     "C03_order_is_executable links the computed order to C02's model (any ModelSem model laid out on it is well formed).")
_upd("C03", "note", "Not decided by proof: general chain associativity (bounded), FrozenModel",
     "Not decided by proof: that the two chain orders are accepted or rejected together (swept for 216 triples), FrozenModel")
_upd("C03", "technique", "vm_compute for the bounded associativity sweep and the refutation witness)",
     "a renaming argument for associativity; vm_compute for the acceptance sweep and the refutation witness)")
_upd("C05", "note", "and the use of targets as forced feedback in fit/train, are decided by the oracle only (partial).",
     "and the use of targets as forced feedback in OFFLINE fit, are decided by the oracle only; teacher-forced ONLINE training of a model is inside the model "
     "(coq/model/TrainModel.v: C05_train_forced_array_*, C05_train_forced_teacher_*, C05_train_unforced_*, C05_train_forced_states_indep) and tied by its own correspondence "
     "(tools/props/trainmodel.py). The ESN convenience node with feedback is one of the scenario families.")
_upd("C07", "note", "online learning rules themselves are C10's model - here the training half is the generic fold law plus the implementation oracle (partial).",
     "online training of a MODEL (forward + RLS/LMS on gated steps, forcing on/off, teacher nodes) is modelled in coq/model/TrainModel.v: C07_modeltrain_app/_chunking (unforced, cut at a multiple "
     "of learn_every), C07_modeltrain_forced_app_when_cut_agrees, with refutation witnesses for both hypotheses, tied by the Model.train correspondence; from_state / stateless training and the ESN "
     "node's hidden memory are decided by the oracle only.")
_upd("C02", "note", "harness tools/props/c02.py + tools/vlib/scen.py; float64 exact on small dyadic data.",
     "harness tools/props/c02.py + tools/vlib/scen.py (histories include name-keyed mappings written in reverse key order, integer-typed inputs, runs over a list of sequences, graphs assembled "
     "in place with &=, and the ESN convenience node as a two-node model); float64 exact on small dyadic data.")
_upd("C08", "note", "Hidden memory is mirrored, not repaired.",
     "Hidden memory is mirrored, not repaired. Histories include the ESN convenience node (run on copies, states carried back) and runs over a list of sequences.")


# ---- session 3 (2026-09-29/30): new translator ties, Q-to-R bridge, data plumbing, unbounded staging theorems ---------------------
def _app(pid, field, more):
    CHECKS[pid][field] = CHECKS[pid][field] + more


_app("C02", "text", " The data plumbing around the model (utils/model_utils.py and Model.run's loop over sequences) is modelled and proved as well (coq/model/Mapping.v): arrays / lists reach exactly the "
     "entry nodes and name-keyed mappings exactly the named nodes, sequence by sequence and step by step; unfold_mapping and fold_mapping are inverse; a run over several sequences is the per-sequence "
     "runs in turn; the result is bare iff there is a single output and no return_states, otherwise keyed by exactly the requested / output node names, arrays for one sequence and equally long lists "
     "for several (C02_mapping_unfold_fold, C02_array_reaches_entries, C02_mapping_reaches_named, C02_step_inputs, C02_run_sequences, C02_outputs_from_named, C02_result_form; correspondence family `mapping`).")
_app("C02", "note", " Mapping.v: check_xy's dimension checks, teacher nodes and forced feedbacks of multi-sequence runs are not in the plumbing model; name-keyed inputs of different lengths under one "
     "sequence index are avoided by the scenarios (the code truncates or raises depending on key order - judged outside the statement). The oracle also runs run -> in-place extension -> run on one Model object.")
_app("C03", "text", " find_parents_and_children, topological_sort and find_entries_and_exits are ALSO translated from the current text of utils/graphflow.py on every run (tools/vlib/py2coq_graph.py -> "
     "coq/gen/Gen_graphflow.v over base/PyColl.v) and proved equal to the model: the generated topological_sort equals Graph.kahn for every fuel, hence is sound, rejects every directed cycle, "
     "accepts every rankable graph and never raises anything but the cycle error (C03_generated_*, closed under the global context); the generated code is executed against direct calls of the real functions.")
_app("C03", "note", "; tie (T): the translator py2coq_graph.py and base/PyColl.v (about 120 lines) as the meaning of Python set / defaultdict(list) / deque / list.remove / for / while / raise; the iteration "
     "order of a set and the name sort are parameters assumed only to return a permutation")
_app("C03", "technique", " + graphflow.py translated on every run and proved equal to the model (translator tie)")
_app("C06", "text", " Unbounded since session 3 (coq/proofs/FitSem_staging_proofs.v, closed under the global context): for every topologically ordered DAG of ANY size the computed staging terminates within "
     "the model's fuel, trains each offline node exactly once, trains offline ancestors in strictly earlier stages and runs every ancestor forward in a stage not later than its descendant's "
     "(C06_staging_terminates, C06_staging_trains_each_once, C06_staging_respects_ancestors, C06_staging_ancestors_run); for chains of any length and any labelling of readouts (deep ESNs) the staging "
     "has a closed form, is valid, and Model.fit equals the explicit node-by-node procedure (C06_staging_chain_closed_form, C06_staging_valid_chains, C06_fit_chains). The termination proof exposed the "
     "open finding fit-staging:offline-and-online-node-hangs (a node with both rules makes Model.fit loop forever).")
_app("C06", "note", " Still bounded (<= 5 nodes + per scenario): validity of the staging for general DAGs (C06_staging_valid_full_statement stays a Definition).")
_app("C13", "text", " The dictionary / partial-application logic (Initializer.__call__, _func_post_process incl. the sr-xor-input_scaling refusal and the seed keep rule), _scale_spectral_radius, _scale_inputs "
     "(scalar and per-column, dense and sparse branches) and the ring / line index formulas are ALSO translated from the current text of mat_gen.py on every run (tools/vlib/py2coq_mg.py -> "
     "coq/gen/Gen_matgen.v) and proved equal to the model for every Num instance (C13_generated_*).")
_app("C13", "note", "; tie (T): py2coq_mg.py and base/MGPrelude.v (broadcast multiplications, np.arange, np.roll by one, keyword dictionaries); format / dtype conversions and warnings are exact-text skips "
     "listed in the generated header; _filter_deprecated_kwargs is a pinned primitive; spectral_radius, issparse and the draw are Section oracles; _random_degree / _get_rvs are not translated")
_app("C13", "technique", " + mat_gen.py logic translated on every run and proved equal to the model (translator tie)")
_app("C19", "text", " _check_arrays, mse, rmse, nrmse, rsquare and the matrix of effective_spectral_radius are ALSO translated from the current text of observables.py on every run (tools/vlib/py2coq_nd.py -> "
     "coq/gen/Gen_metrics.v, one definition per array rank 1/2/3 and per dimensionwise flag, every axis= a constant) and proved equal to the model: for every Num instance at rank 1, for the shape check "
     "and the effective matrix; over R for rectangular rank-2 / rank-3 arrays (lane-wise reduction = row-by-row accumulation) (C19_generated_*); the generated definitions are also executed at Q against the real functions.")
_app("C19", "note", "; tie (T): py2coq_nd.py (static evaluation of the axis selection; sqrt carried as radicand / (radicand, norm) pairs) and base/NDPrelude.v as the exact-arithmetic meaning of np.mean / np.sum / "
     ".var / np.ptp / np.quantile(linear) with axis in {None, 0, (0,1)} and of element-wise arithmetic with scalar / trailing-vector broadcasting")
_app("C19", "technique", " + observables.py translated on every run and proved equal to the model (translator tie)")
_app("C20", "text", " to_forecasting and one_hot_encode are ALSO translated from the current source text on every run (tools/vlib/py2coq_ds.py -> coq/gen/Gen_datasets.v over base/DSPrelude.v) and proved equal "
     "to the models for all inputs, with no guard for to_forecasting (forecast = 0 and test_size = 0 included) and for every transitive antisymmetric label order for one_hot_encode "
     "(C20_generated_to_forecasting*, C20_generated_one_hot, closed under the global context); the generated helpers are re-executed on every correspondence scenario.")
_app("C20", "note", "; tie (T) for the helpers: py2coq_ds.py and base/DSPrelude.v as the meaning of Python slices with negative bounds (a[:-0] empty, a[-0:] everything), round (half to even on the exact "
     "rational), int(), isinstance on None / int / float, np.moveaxis (axis 0 / axis 1 of a 2-D array), np.unique(return_inverse), np.eye(n)[idx], np.cumsum, np.split, reshape; the float product "
     "time_len * test_size is taken exact")
for _p, _what in (("C01", "one internal / external step and a whole run (run_states, run_outputs, run_final), scalar or per-unit leak, with or without feedback, for the exactly computable activations "
                          "(identity, relu, hard-tanh, x/2: C01_Qstep_embeds_in_Rstep, C01_Qrun_embeds_in_Rrun, C01_chk_res_is_about_R_model)"),
                  ("C04", "the Gram accumulators after any list of sequences and any warm-up, partial_backward, the ridge system and readout_forward (C04_Qaccumulators_embed, C04_Qfit_embeds, "
                          "C04_chk_fit_is_about_R_model)"),
                  ("C10", "one RLS step incl. the gain 1/(1+r'Pr), one LMS step with the schedule cursor, the IP step, and the whole train loop for any learn_every and any list of successive calls "
                          "(C10_Qrls_embeds, C10_Qlms_embeds, C10_Q*_train_calls_embed, C10_chk_*_is_about_R_model)"),
                  ("C17", "delay_step, nvar_step, the runs from the zero store, concat and the fan-in concat (C17_Qwindows_embed, C17_Qwindows_runs_embed, C17_chk_windows_are_about_R_model)")):
    _app(_p, "text", " The R-vs-Q instance gap is closed by proof for this property (coq/base/NumHom.v, coq/proofs/QR_bridge_%s.v): Q2R is a homomorphism of the Num class (all operations, both comparisons, "
         "total division), every LA / GenPrelude operation commutes with the entry-wise embedding, hence running the model at Q and embedding equals running it at R on the embedded data - %s; the "
         "runner's tolerance test satisfies qclose m o = true <-> |Q2R m - Q2R o| <= 1e-9 max(1, |Q2R m|), so a verdict chk_* = true is a statement about the R-model the theorems are about." % (_p, _what))
_app("C17", "note", " Since the Q-to-R bridge was appended, the cone of props/C17.v imports Reals: the window theorems proper are still closed under the global context, the bridge theorems carry the two Reals axioms.")

for _p, _what in (("C19", "mse, rsquare, rsquare_parts, nrmse_parts for all four norms (max/min, the sort behind np.quantile, zero denominators included), eff_matrix, on arrays of rank 1-3 "
                          "(C19_Qmetrics_embed, C19_chk_metrics_are_about_R_model)"),
                  ("C20", "logistic_map with its guards, henon_map, narma of any order; the helpers are structural (commute with any map f; one_hot is instance-independent) "
                          "(C20_Qmaps_embed, C20_Qhelpers_structural, C20_chk_*_are_about_R_model)"),
                  ("C09", "every sum of BatchAcc, XXT_of / YXT_of, and Conc.run for any schedule with or without the lock as a simulation relation (C09_Qbatchacc_embed, C09_Qsched_embed, "
                          "C09_chk_buffers_are_about_R_model); chk_solution only up to the soundness of the Q-only Gauss-Jordan routine (C09_chk_solution_partial; the full statement stays a Definition)"),
                  ("C13", "null_radius, scale_sr, scalar and per-column input scaling, COO assembly with duplicate summation, ring, line, degree lists (C13_Qscaling_embed, C13_Qstructured_embed, "
                          "C13_chk_matgen_is_about_R_model)"),
                  ("C15", "chk_pair = true yields over R: both trajectories close to the observed rows, 0 <= sigma, the Frobenius certificate frob2 W <= sigma^2, 0 <= lr <= 1, the squared contraction "
                          "inequality at every step and the box (C15_chk_pair_is_about_R_model, C15_contractingR_geometric; exact activations only)")):
    _app(_p, "text", " The R-vs-Q instance gap is closed by proof for this property (coq/base/NumHom.v, coq/proofs/QR_bridge_%s.v): %s." % (_p, _what))
_app("C06", "text", " get_offline_subgraphs, _get_required_nodes and _get_links are ALSO translated from the current text of utils/graphflow.py on every run (tools/vlib/py2coq_staging.py -> "
     "coq/gen/Gen_staging.v over base/PyColl2.v) and proved equal to the model of the staging for every graph - stage node and edge lists exactly, the relations up to the iteration order of one "
     "Python set - with termination and each-offline-node-once transferred to the generated code (C06_generated_*, closed under the global context); the generated staging is executed "
     "against the real function on the scenario graphs.")
_app("C06", "note", " Tie (T) hypotheses: name-sorted edge list, no node both offline and online (the open hang finding), NoDup nodes; set iteration orders are permutation-valued parameters.")
_app("C06", "technique", " + the staging code of graphflow.py translated on every run and proved equal to the model (translator tie)")
_app("C12", "text", " check_vector, check_one_sequence and check_n_sequences are ALSO translated from the current source text on every run (tools/vlib/py2coq_val.py -> coq/gen/Gen_validation.v "
     "over base/ValPrelude.v) and proved equal to the model for ALL data descriptors, nested lists of any depth, every expected dimension and all flags, with no hypothesis; a rejection by "
     "the translated check is a rejection in the checking phase of the op skeleton, so C12_reject_before_change applies to the translated code (C12_generated_*, closed under the global context). "
     "_check_node_io and check_xy stay tied by the correspondence only.")
_app("C12", "note", "; tie (T): py2coq_val.py and base/ValPrelude.v as the meaning of the Python / numpy vocabulary on descriptors (DNum = int/float, DOther = str/dict, tuples = lists); "
     "exception messages and `caller` are not translated")
_app("C12", "technique", " + validation code translated on every run and proved equal to the model (translator tie)")
_app("C05", "text", " The sub-model sender mechanism itself is inside the model since session 3 (coq/model/SubSender.v: per-node _fb_flag parity bits, the reduced sender, call_distant_node as written): for "
     "receivers placed before or after all nodes of their sender the flags stay in sync through complete steps and runs, the receiver reads the sender's output of step k-1 (pre-existing output at "
     "k = 0) and no sender node is entered twice (C05_submodel_in_sync_preserved, C05_submodel_sender_delay); a straddling receiver and a sender partly outside the model are characterised for "
     "arbitrary node functions; the three open flag-parity findings are reproduced by computation (C05_flag_parity_desync_refuted, ..._failed_step_refuted, C05_submodel_straddling_first_step_refuted); "
     "correspondence family `subsender` compares states, flags and forward-entry counts on histories with stand-alone calls, aborted steps and forced feedback.")
_app("C05", "note", " SubSender.v: one output node, no nested sub-model senders; the straddling / partly-outside theorems are per step on 3-node topologies.")
_app("C14", "text", " set_seed, rand_generator and noise (utils/random.py), get_seed / set_seed (datasets/_seed.py) and the seed table of Reservoir.__init__ / initialize / initialize_feedback are ALSO "
     "translated / extracted from the current source text on every run (tools/vlib/py2coq_seed.py -> coq/gen/Gen_seed.v over base/SeedPrelude.v) and proved equal to the provenance model for every "
     "state and every seed form (C14_generated_*, closed under the global context).")
_app("C14", "note", "; tie (T): py2coq_seed.py and base/SeedPrelude.v (module globals and Generator objects as an explicit world; default_rng(int) = a fresh stream rooted in the int); the RandomState "
     "branch is pinned textually, the default-seed line of _chaos.py and the draws of mat_gen stay on tie (H)")
_app("C14", "technique", " + seed plumbing translated on every run and proved equal to the model (translator tie)")
for _p in ("C02", "C07", "C08"):
    _app(_p, "text", " The R-vs-Q instance gap is closed by proof for the history runner of this property (coq/proofs/QR_bridge_Model.v): every node kind of Kinds.v and every operation of ModelSem.v / "
         "ProxySem.v (run_op, call_op, reset_op with all flags, failing nodes included) maps embedded inputs to embedded results with the same success flag, and a verdict chk_hist_both = true is a "
         "statement about the R-instance history (%s_chk_hist_both_is_about_R_model)." % _p)
_app("C05", "note", " The history family shares the runner bridged in QR_bridge_Model.v (statement C02_chk_hist_both_is_about_R_model); the subsender family is not bridged.")
_app("C09", "text", " The Gauss-Jordan routine LA.qsolve used by the runner is proved sound, unique and complete (coq/proofs/QSolve_proofs.v), so C09_chk_solution_full_statement is a theorem "
     "(C09_chk_solution_full, C09_chk_solution_is_about_R_model).")
_app("C04", "text", " The Gauss-Jordan routine LA.qsolve used by the runner is proved sound, unique and complete (coq/proofs/QSolve_proofs.v): on a well-formed dataset with lambda > 0 it always answers, "
     "and the model's own solution, embedded in R, satisfies the normal equations and minimises the ridge objective (C04_chk_fit_solution_is_ridge_optimum).")
_app("C08", "text", " The state contexts themselves (Node.with_state / reset / zero_state / state / _flag_feedback, _base.call, Model.with_state both paths, Model.reset) are ALSO translated from the "
     "current source text on every run (tools/vlib/py2coq_state.py -> coq/gen/Gen_state.v over base/CtxPrelude.v) and proved to be the ModelSem operations for every `with` body and both outcomes: "
     "the generated with_state restores _state unless stateful whether the body returns or raises, with no hypothesis (C08_generated_*, closed under the global context).")
_app("C08", "note", "; tie (T): py2coq_state.py and base/CtxPrelude.v (heap-passing computations that survive exceptions, try/finally, generator context managers as functions of the with-body, ExitStack "
     "as nesting); assumes accepted check_one_sequence arguments and an initialised model at model level; Model.call / run / with_feedback stay on tie (H)")
_app("C08", "technique", " + state contexts translated on every run and proved equal to the model (translator tie)")
_app("C02", "text", " The DataDispatcher (load / get / __getitem__) and forward(model, x) are ALSO translated from the current source text on every run (tools/vlib/py2coq_dispatch.py -> "
     "coq/gen/Gen_dispatch.v over base/PyColl3.v) and proved equal to the model's load / gather / forward, so C02_forward_is_solution is a statement about the translated forward pass "
     "(C02_generated_*, closed under the global context).")
_app("C02", "technique", " + dispatcher and forward pass translated on every run and proved equal to the model (translator tie)")
_app("C10", "text", " The loop around the kernels - _base.train (targets from the teacher node or Y, call or current state, set_state_proxy under force_teachers, update iff i % learn_every == 0 or "
     "seq_len == 1, pre-update outputs) and Node.train (refusals, first-use initialisation, teacher un-registration in finally) - is ALSO translated on every run (tools/vlib/py2coq_loop.py -> "
     "coq/gen/Gen_trainloop.v) and proved equal to Online.train for every sequence and flag combination; C10_gate and C10_output_pre_update are transferred (C10_generated_train_loop_*).")
for _p in ("C06", "C11", "C16"):
    _app(_p, "text", " The R-vs-Q instance gap is closed by proof for this property's numeric runner (coq/proofs/QR_bridge_%s.v; for the offline side under the solver relation that "
         "coq/proofs/QSolve_proofs.v provides): a verdict chk_* = true is a statement about the R-instance." % _p)
_app("C05", "text", " The feedback machinery (state_proxy / set_state_proxy, _load_proxys / _clean_proxys, the clamp, call_distant_node, Node.with_feedback and Model.with_feedback) is ALSO translated "
     "from the current source text on every run (tools/vlib/py2coq_fb.py -> coq/gen/Gen_feedback.v) and proved equal to the ProxySem / SubSender operations for every with-body and both outcomes; "
     "the low-level timing theorem holds of the translated call_distant_node (C05_generated_*, closed under the global context).")
_app("C05", "technique", " + feedback machinery translated on every run and proved equal to the low-level model (translator tie)")
_app("C16", "text", " The legacy v0.2 state update and output computation are ALSO translated, and load_compat's keyword table extracted, from the current source on every run "
     "(tools/vlib/la_specs_legacy.py, py2coq_compat.py -> coq/gen/Gen_legacy.v, Gen_compat.v) and proved equal to legacy_step / legacy_out / convert, so C16_load_compat_equiv is a statement about "
     "the translated step and the extracted conversion (C16_generated_*).")
_app("C16", "technique", " + legacy kernels translated and the load_compat table extracted on every run (translator tie)")
_app("C11", "text", " The node-level training skeleton (is_trainable setter, initialize_buffers, clean_buffers incl. the `_X = _Y = []` aliasing, the default partial_backward, Node.partial_fit, Node.fit "
     "with its except / re-raise clean-ups) is ALSO translated from the current source text on every run (tools/vlib/py2coq_fit.py -> coq/gen/Gen_fit.v) and proved to be the TrainSem operations, "
     "outcome included, for arbitrary learning-rule callbacks raising at any point; fit always ends clean; session isolation transfers (C11_generated_*, closed under the global context).")
_app("C11", "note", "; tie (T): py2coq_fit.py and base/FitPrelude.v (list objects with identity, the _buffers dict, try/except/re-raise); check_xy and the initialisation are parameters; "
     "create_buffer / set_buffer (memmaps) and Model.fit stay on tie (H)")
_app("C11", "technique", " + training skeleton translated on every run and proved equal to the model (translator tie)")
_app("C12", "text", " register_teacher, _check_node_io and check_xy are translated too (tools/vlib/py2coq_val2.py -> coq/gen/Gen_validation2.v): for Node callers the generated check_xy equals the model's on "
     "class, descriptors and heap - a refusal leaves no teacher registered (C12_generated_check_xy_node, C12_generated_check_xy_refusal_frame).")
_app("C07", "text", " Node.run is ALSO translated from the current source text on every run (tools/vlib/py2coq_run.py -> coq/gen/Gen_run.v) and proved equal to run_op on the one-node model for every flag "
     "and to run_steps by default, the forward function raising at any step, so C07_run_app / C07_chunking speak about the translated loop (C07_generated_*).")
_app("C07", "note", " Tie (T): Node.run only (through the proved specifications of the generated with_state / call of C08); Model.call / _run / run stay on tie (H).")
_app("C07", "technique", " + Node.run translated on every run and proved equal to the model (translator tie)")
_app("C09", "text", " The parallel glue is ALSO translated on every run (tools/vlib/py2coq_par.py -> coq/gen/Gen_parallel.v): _sort_and_unpack equals the model's, so outputs come back in input order for "
     "every completion order of the tasks; the ESN.run dispatch numbers task i with index i and its own data; the ESN.fit lock rule, per-task data and clean-up on failure (C09_generated_*).")
_app("C09", "note", " Tie (T) for the glue models joblib as an arbitrary permutation of the tasks (weaker than its submission-order contract); ESN.fit's last_states[-1] relies on that contract (noted).")
_app("C02", "text", " The data-plumbing runner is bridged to R too (coq/proofs/QR_bridge_Mapping.v): every plumbing function of model/Mapping.v is natural in the row type, model_run is related through "
     "QR_bridge_Model.v, and a green chk_* of run/RunMapping.v is a statement about the R-model (C02_plumbing_natural, C02_chk_model_run_is_about_R_model).")
_app("C05", "text", " The sub-model sender runner is bridged to R (coq/proofs/QR_bridge_SubSender.v): related states, EQUAL _fb_flag bits and forward-entry counters, same success flags, for cdn / "
     "run_reduced / step_s / run_s / call_s; a green chk_subsender is a statement about the R-model history (C05_chk_subsender_is_about_R_model).")
_app("C03", "text", " concat_multi_inputs and _link_1to1 of ops.py are ALSO translated on every run (tools/vlib/py2coq_ops.py -> coq/gen/Gen_ops.v, on top of the generated find_parents_and_children): "
     "the generated Concat insertion has exactly the nodes and edges of the hand model for every graph, so the insertion theorem speaks about the translated text; the generated _link_1to1 raises "
     "exactly on an initialised dimension mismatch (C03_generated_concat_is_model, C03_generated_concat_insertion, C03_generated_link_1to1_is_model).")
_app("C03", "note", " Tie (T), second unit: list(<set>) and sorted(edges) are arbitrary permutations; exact for pairwise distinct nodes; link / merge / Model.__init__ stay on tie (H).")
_app("C05", "note", " Since the Q-to-R bridge of the sub-model sender runner was appended, the cone of props/C05.v imports Reals: the timing / sub-model theorems proper are still closed under the global context, the bridge theorems carry the two Reals axioms (sig_forall_dec, functional_extensionality_dep).")
_app("C03", "text", " merge of ops.py is translated too (py2coq_ops v2 over base/PyColl4.v): the generated merge hands Model(...) / update_graph exactly the node and edge sets of the model's merge, "
     "compared as sets, with its ValueError / TypeError cases (C03_generated_merge_*); link and the Model constructor / update_graph remain on hand model + correspondence.")
_app("C07", "text", " Model._call and Model.call are translated on every run as well (tools/vlib/py2coq_mcall.py -> coq/gen/Gen_mcall.v): with the generated dispatch of C02 as self._forward the generated _call "
     "equals ModelSem.step and the one-step run_op for every model, input, forced feedback and return_states selection; the generated call composition equals run_op for every flag and both outcomes "
     "(C07_generated_model_call_*).")
_app("C07", "note", " Tie (T) for Model._call / call: pins are submodel = None at all call sites, __getitem__ = get_node, the check_xy head and copying return of call; in the call theorem the callees "
     "(with_state, _load_proxys, with_feedback, _clean_proxys) are read by the hand semantics of proofs/Gen_mcall_eq.v Part C (accepted input, initialised model); Model._run / run stay on tie (H).")
_app("C03", "text", " link of ops.py is translated too (py2coq_ops v3; _check_all_nodes pinned by its text, the generated _link_1to1 lifted into py4): the generated link hands Model(...) exactly the node "
     "and edge sets of the model's link_graph and raises TypeError for non-_Node / FrozenModel operands (C03_generated_link_is_model, _not_node, _frozen).")
_app("C07", "text", " Model._run is re-translated from model.py on every run (tools/vlib/py2coq_mrun.py -> coq/gen/Gen_mrun.v) and proved equal to run_op on the sequence, rows written in step order "
     "(C07_generated_model_run_is_run_steps, C07_generated_model_run_call_is_generated_call); Model.run stays on hand model + correspondence.")
_app("C06", "text", " Staging on DAGs of any size (coq/proofs/FitSem_dag_proofs.v): the loop is greedy, the stage of a readout equals its offline depth, at most one round per offline node "
     "(C06_staging_earliest, C06_staging_stage_exact, C06_staging_rounds_bound); validity of the symbolic execution is proved unbounded for chains only and bounded for <= 5 nodes (all fan-in "
     "orders), 6 nodes (sorted fan-in) and forests <= 7; the general validity statement needs the topological-order hypothesis (its unguarded form is refuted) and stays open.")
_app("C07", "text", " Model.run's loop over the sequences is translated on every run too (tools/vlib/py2coq_mrun2.py -> coq/gen/Gen_mrun2.v) and proved equal to the fold of run_op over the sequences "
     "under the outer with_state (C07_generated_model_run_seqs); to_data_mapping / fold_mapping stay on the hand model coq/model/Mapping.v + correspondence.")
_app("C03", "text", " The generated link raises ValueError iff some visited (sender output, receiver input) pair joins two initialised nodes of different dimensions (C03_generated_link_dim_clash).")
_app("C03", "text", " Model.update_graph is on tie (T) as well (tools/vlib/py2coq_upd.py -> coq/gen/Gen_update.v; graph part translated, bookkeeping tail pinned): its node / edge sets, Concat insertion "
     "and entries / exits equal the hand model's, the order is the generated topological_sort's on exactly these (C03_generated_update_graph_is_model).")
_app("C07", "text", " With NoDup ids the generated Model.run is exactly Mapping.run_seqs (coq/proofs/Gen_mrun2_seqs.v, C07_generated_model_run_is_run_seqs; functional extensionality for environment equality).")
