CHECKS = {
 "C17": {
  "text": "Machine-checked theorems (coq/props/C17.v, closed under the global context) that the Delay, NVAR and Concat models compute the documented "
          "window functions for every input sequence, delay, order, stride and dimension, and that the model's combination enumeration is exactly "
          "itertools' (weakly increasing tuples, each once, lexicographic). The model is tied to the code by running both on the same seeded "
          "scenarios on every run; an implementation oracle recomputes the formulas directly.",
  "note": "Trusted: Coq kernel, the hand-written model coq/model/Windows.v as a rendering of delay.py/nvar.py/concat.py and graphflow's fan-in sort, "
          "the harness tools/props/c17.py, float64 exactness on small dyadic inputs. Node state handling of these nodes is C08/C12, not C17.",
  "technique": "Coq proof (induction over the input list) about an executable Gallina model + model-vs-code correspondence by vm_compute",
 },
}
NOT_YET = {}
