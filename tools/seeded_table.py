"""Prints the markdown table of DESIGN §13.6 from /verif/seeded/*/meta.json (and pytest.json)."""
import json, os, glob
rows = []
for d in sorted(glob.glob(os.path.join(os.path.dirname(os.path.dirname(os.path.abspath(__file__))), "seeded", "*"))):
    try:
        m = json.load(open(os.path.join(d, "meta.json")))
    except Exception:
        continue
    c = m.get("confirmed_by_lead", {})
    py = c.get("pytest") or {}
    if os.path.exists(os.path.join(d, "pytest.json")):
        py = json.load(open(os.path.join(d, "pytest.json")))
    fs = m.get("final_sweep") or {}
    caught = ", ".join(fs.get("caught_by") or c.get("caught_by", [])) or "**none**"
    if fs and fs.get("applies", True) and fs.get("demo_with_change") == 0:
        caught = "(superseded: on HEAD %s the patched tree passes its own demonstration -- a later `fix:` commit removed what the change relied on; caught when confirmed: %s)" % (
            fs.get("repo_head"), ", ".join(c.get("caught_by", [])) or "none")
    elif fs and not fs.get("applies", True):
        caught = "(patch no longer applies on HEAD %s) " % fs.get("repo_head") + (", ".join(c.get("caught_by", [])) or "none")
    summ = (m.get("summary") or "").replace("|", "/").replace("\n", " ")[:150]
    needs = (m.get("needs_to_manifest") or "").replace("|", "/").replace("\n", " ")[:120]
    rows.append("| `%s` | %s | %s | %s | %s |" % (os.path.basename(d), summ, needs, caught,
                ("%s passed, new failures: %s" % (py.get("passed"), py.get("new_failures") or "none")) if py else "pending"))
print("| seeded change | what it does | needs to manifest | caught by (quick tier) | unedited suite with the change |")
print("|---|---|---|---|---|")
print("\n".join(rows))
