"""Confirm, for every kept seeded change, that the unedited test suite passes with it (scratch worktree, one at a time)."""
import json, os, re, subprocess, sys, time
VERIF = os.path.dirname(os.path.dirname(os.path.abspath(__file__)))
BASE = {"test_japanese_vowels", "test_scikitlearn_initializer", "test_scikitlearn_multioutput", "test_fast_spectral_features[1.0-0.0]",
        "test_random_sparse_scalings[shape6-2.0-None-kwargs6-sparse]"}
names = sys.argv[1:] or sorted(os.listdir(os.path.join(VERIF, "seeded")))
for n in names:
    d = os.path.join(VERIF, "seeded", n)
    out = os.path.join(d, "pytest.json")
    if not os.path.exists(os.path.join(d, "patch.diff")) or os.path.exists(out):
        continue
    wt = "/tmp/seedpy_%s" % n
    subprocess.run("git -C /repo worktree remove --force %s" % wt, shell=True, capture_output=True)
    subprocess.run("git -C /repo worktree add --detach %s HEAD" % wt, shell=True, capture_output=True)
    try:
        r = subprocess.run("git -C %s apply %s" % (wt, os.path.join(d, "patch.diff")), shell=True, capture_output=True, text=True)
        if r.returncode != 0:
            json.dump({"applies": False, "err": r.stderr[-300:]}, open(out, "w")); continue
        t0 = time.time()
        r = subprocess.run("cd %s && PYTHONPATH=%s /venv/bin/python -m pytest -q -p no:cacheprovider --timeout=900 reservoirpy 2>&1 | tail -15" % (wt, wt),
                           shell=True, capture_output=True, text=True, timeout=3600)
        failed = set(re.findall(r"FAILED \S+::(\S+?)(?: - |$|\s)", r.stdout))
        m = re.search(r"(\d+) passed", r.stdout)
        res = {"applies": True, "passed": int(m.group(1)) if m else None, "failed": sorted(failed), "new_failures": sorted(failed - BASE),
               "wall_s": round(time.time() - t0), "repo_head": subprocess.run("git -C /repo rev-parse --short HEAD", shell=True, capture_output=True, text=True).stdout.strip()}
        json.dump(res, open(out, "w"), indent=1)
        print(n, res["passed"], res["new_failures"], flush=True)
    finally:
        subprocess.run("git -C /repo worktree remove --force %s" % wt, shell=True, capture_output=True)
