"""Confirm a seeded change produced by an independent sub-agent and run our checks against it.

usage: tools/seedtest.py <PROP> <patch> <demo> <meta> <name> [--checks C05,C07] [--no-pytest]

Works in a scratch worktree of /repo HEAD (never in /repo itself): applies the patch there, runs the demonstration on
/repo (must pass) and on the worktree (must fail), runs the unedited test suite in the worktree, runs ./check for the
property (and any extra checks) with VERIF_REPO pointing at the worktree, stores everything under /verif/seeded/<name>/
and removes the worktree.
"""
import argparse
import json
import os
import re
import shutil
import subprocess
import sys
import time

VERIF = os.path.dirname(os.path.dirname(os.path.abspath(__file__)))
BASELINE_FAIL = {"test_japanese_vowels", "test_scikitlearn_initializer", "test_scikitlearn_multioutput",
                 "test_fast_spectral_features[1.0-0.0]", "test_random_sparse_scalings[shape6-2.0-None-kwargs6-sparse]"}


def sh(cmd, env=None, timeout=3600, cwd=None):
    p = subprocess.run(cmd, shell=True, capture_output=True, text=True, env=env, timeout=timeout, cwd=cwd)
    return p.returncode, p.stdout + p.stderr


def main():
    ap = argparse.ArgumentParser()
    ap.add_argument("prop"); ap.add_argument("patch"); ap.add_argument("demo"); ap.add_argument("meta"); ap.add_argument("name")
    ap.add_argument("--checks", default="")
    ap.add_argument("--no-pytest", action="store_true")
    a = ap.parse_args()
    wt = "/tmp/seedwt_%s" % a.name
    sh("git -C /repo worktree remove --force %s" % wt)
    rc, out = sh("git -C /repo worktree add --detach %s HEAD" % wt)
    assert rc == 0, out
    res = {"property": a.prop, "name": a.name, "repo_head": sh("git -C /repo rev-parse --short HEAD")[1].strip()}
    try:
        rc, out = sh("git -C %s apply %s" % (wt, os.path.abspath(a.patch)))
        res["applies"] = rc == 0
        if rc != 0:
            res["apply_error"] = out[-500:]
            print(json.dumps(res, indent=1)); return
        env = dict(os.environ, PYTHONHASHSEED="0", PYTHONWARNINGS="ignore")
        rc0, out0 = sh("/venv/bin/python %s" % os.path.abspath(a.demo), env=dict(env, PYTHONPATH="/repo"), cwd="/tmp")
        rc1, out1 = sh("/venv/bin/python %s" % os.path.abspath(a.demo), env=dict(env, PYTHONPATH=wt), cwd="/tmp")
        res["demo_on_unchanged"] = rc0
        res["demo_with_change"] = rc1
        res["demo_output_with_change"] = out1[-600:]
        if not a.no_pytest:
            t0 = time.time()
            rc, out = sh("cd %s && PYTHONPATH=%s /venv/bin/python -m pytest -q -p no:cacheprovider --timeout=900 reservoirpy 2>&1 | tail -15" % (wt, wt),
                         env=env, timeout=3000)
            failed = set(re.findall(r"FAILED \S+::(\S+?)(?: - |$|\s)", out))
            m = re.search(r"(\d+) passed", out)
            res["pytest"] = {"passed": int(m.group(1)) if m else None, "failed": sorted(failed), "new_failures": sorted(failed - BASELINE_FAIL),
                             "wall_s": round(time.time() - t0)}
        checks = [a.prop] + [c for c in a.checks.split(",") if c and c != a.prop]
        res["checks"] = {}
        for c in checks:
            rc, out = sh("./check %s --tier quick" % c, env=dict(os.environ, VERIF_REPO=wt), cwd=VERIF, timeout=1800)
            lines = [ln for ln in out.splitlines() if ln.startswith(("VIOLATION", "KNOWN-FINDING"))]
            summ = [ln for ln in out.splitlines() if re.match(r"^C\d\d tier=", ln)]
            res["checks"][c] = {"exit": rc, "violation_lines": [ln for ln in lines if ln.startswith("VIOLATION")][:6],
                                "summary": summ[-1] if summ else out[-300:]}
            # keep the replay files that name a concrete input
            for ln in lines:
                m = re.search(r"replay=(\S+)", ln)
                if m and os.path.exists(m.group(1)) and ln.startswith("VIOLATION"):
                    d = os.path.join(VERIF, "seeded", a.name, "replays")
                    os.makedirs(d, exist_ok=True)
                    shutil.copy(m.group(1), d)
        res["caught_by"] = [c for c, r in res["checks"].items() if r["exit"] != 0 and r["violation_lines"]]
        d = os.path.join(VERIF, "seeded", a.name)
        os.makedirs(d, exist_ok=True)
        shutil.copy(a.patch, os.path.join(d, "patch.diff"))
        shutil.copy(a.demo, os.path.join(d, "demo.py"))
        meta = json.load(open(a.meta)) if os.path.exists(a.meta) else {}
        meta["confirmed_by_lead"] = res
        meta["what_was_run"] = ("scratch worktree of /repo HEAD %s; git apply patch.diff; demo.py on /repo (exit %s) and on the worktree (exit %s); "
                                "unedited pytest suite in the worktree; ./check <id> --tier quick with VERIF_REPO=<worktree>" % (res["repo_head"], rc0, rc1))
        json.dump(meta, open(os.path.join(d, "meta.json"), "w"), indent=1)
        print(json.dumps(res, indent=1))
    finally:
        sh("git -C /repo worktree remove --force %s" % wt)


if __name__ == "__main__":
    main()
