"""Confirm seeded changes delivered by independent sub-agents, several at a time, and run the checks against them.

usage: tools/seed_confirm_par.py [-j N] <spec.json>
  spec.json: [{"prop": "C05", "patch": path, "demo": path, "meta": path, "name": "C05_xyz", "checks": ["C07"]}, ...]

Per item, in a private detached worktree of /repo HEAD (/tmp/vcr_<k>) and a private copy of /verif (/tmp/vcw_<k>):
  git apply patch; demo on /repo (must exit 0) and on the worktree (must exit != 0); the unedited test suite in the worktree
  (own TMPDIR: the legacy tests share a temp directory); ./check <prop> (+ extra checks) --tier quick with VERIF_REPO=<worktree>.
Everything is stored under /verif/seeded/<name>/ (patch.diff, demo.py, meta.json with "confirmed_by_lead", pytest.json, replays/).
An item whose demo does not discriminate or that breaks the suite is stored under /verif/seeded/_rejected/<name>/ instead.
"""
import json
import os
import queue
import re
import shutil
import subprocess
import sys
import time
from concurrent.futures import ThreadPoolExecutor

VERIF = os.path.dirname(os.path.dirname(os.path.abspath(__file__)))
TAG = os.environ.get("VC_TAG", "")      # several instances may run side by side with different tags
BASELINE_FAIL = {"test_japanese_vowels", "test_scikitlearn_initializer", "test_scikitlearn_multioutput",
                 "test_fast_spectral_features[1.0-0.0]", "test_random_sparse_scalings[shape6-2.0-None-kwargs6-sparse]"}


def sh(cmd, env=None, timeout=3600, cwd=None):
    try:
        p = subprocess.run(cmd, shell=True, capture_output=True, text=True, env=env, timeout=timeout, cwd=cwd)
        return p.returncode, p.stdout + p.stderr
    except subprocess.TimeoutExpired:
        return 124, "timeout"


def one(it, k, head):
    vw, wt = "/tmp/vcw%s_%d" % (TAG, k), "/tmp/vcr%s_%d" % (TAG, k)
    name, prop = it["name"], it["prop"]
    res = {"property": prop, "name": name, "repo_head": head}
    rc, out = sh("git -C %s apply %s" % (wt, os.path.abspath(it["patch"])))
    res["applies"] = rc == 0
    try:
        if rc != 0:
            res["apply_error"] = out[-500:]
            return res, None
        env = dict(os.environ, PYTHONHASHSEED="0", PYTHONWARNINGS="ignore")
        rc0, out0 = sh("/venv/bin/python %s" % os.path.abspath(it["demo"]), env=dict(env, PYTHONPATH="/repo"), cwd="/tmp", timeout=900)
        rc1, out1 = sh("/venv/bin/python %s" % os.path.abspath(it["demo"]), env=dict(env, PYTHONPATH=wt), cwd="/tmp", timeout=900)
        res["demo_on_unchanged"], res["demo_with_change"], res["demo_output_with_change"] = rc0, rc1, out1[-600:]
        t0 = time.time()
        tmpd = "/tmp/vct%s_%d" % (TAG, k)
        shutil.rmtree(tmpd, ignore_errors=True)
        os.makedirs(tmpd)
        rc, out = sh("cd %s && TMPDIR=%s PYTHONPATH=%s /venv/bin/python -m pytest -q -p no:cacheprovider --timeout=900 reservoirpy 2>&1 | tail -15" % (wt, tmpd, wt),
                     env=env, timeout=3000)
        shutil.rmtree(tmpd, ignore_errors=True)
        failed = set(re.findall(r"FAILED \S+::(\S+?)(?: - |$|\s)", out))
        m = re.search(r"(\d+) passed", out)
        py = {"applies": True, "passed": int(m.group(1)) if m else None, "failed": sorted(failed), "new_failures": sorted(failed - BASELINE_FAIL),
              "wall_s": round(time.time() - t0), "repo_head": head}
        res["pytest"] = py
        ok = rc0 == 0 and rc1 != 0 and py["passed"] is not None and not py["new_failures"]
        d = os.path.join(VERIF, "seeded", name) if ok else os.path.join(VERIF, "seeded", "_rejected", name)
        shutil.rmtree(d, ignore_errors=True)
        os.makedirs(d)
        res["checks"] = {}
        if ok:
            for c in [prop] + [c for c in it.get("checks", []) if c != prop]:
                rcc, outc = sh("./check %s --tier quick" % c, env=dict(os.environ, VERIF_REPO=wt), cwd=vw, timeout=1800)
                lines = [ln for ln in outc.splitlines() if ln.startswith("VIOLATION")]
                summ = [ln for ln in outc.splitlines() if re.match(r"^C\d\d tier=", ln)]
                broken = [ln.strip() for ln in outc.splitlines() if ln.startswith("  broken:")]
                res["checks"][c] = {"exit": rcc, "violation_lines": lines[:6], "summary": summ[-1] if summ else outc[-300:], "broken": broken}
                for ln in lines:
                    m = re.search(r"replay=(\S+)", ln)
                    if m and os.path.exists(m.group(1)):
                        os.makedirs(os.path.join(d, "replays"), exist_ok=True)
                        shutil.copy(m.group(1), os.path.join(d, "replays"))
        res["caught_by"] = [c for c, r in res["checks"].items() if r["exit"] != 0 and r["violation_lines"]]
        shutil.copy(it["patch"], os.path.join(d, "patch.diff"))
        shutil.copy(it["demo"], os.path.join(d, "demo.py"))
        meta = json.load(open(it["meta"])) if os.path.exists(it["meta"]) else {}
        meta["confirmed_by_lead"] = res
        meta["what_was_run"] = ("scratch worktree of /repo HEAD %s; git apply patch.diff; demo.py on /repo (exit %s) and on the worktree (exit %s); unedited "
                                "pytest suite in the worktree; ./check <id> --tier quick of a private copy of /verif with VERIF_REPO=<worktree>" % (head, rc0, rc1))
        json.dump(meta, open(os.path.join(d, "meta.json"), "w"), indent=1)
        json.dump(py, open(os.path.join(d, "pytest.json"), "w"), indent=1)
        return res, ok
    finally:
        sh("git -C %s checkout -- . && git -C %s clean -fdq" % (wt, wt))


def main():
    args = sys.argv[1:]
    j = 5
    if args[:1] == ["-j"]:
        j = int(args[1]); args = args[2:]
    items = json.load(open(args[0]))
    head = sh("git -C /repo rev-parse --short HEAD")[1].strip()
    j = min(j, len(items))
    slots = queue.Queue()
    for k in range(j):
        sh("git -C /repo worktree remove --force /tmp/vcr%s_%d; rm -rf /tmp/vcw%s_%d /tmp/vcr%s_%d" % (TAG, k, TAG, k, TAG, k))
        rc, out = sh("git -C /repo worktree add --detach /tmp/vcr%s_%d HEAD" % (TAG, k))
        assert rc == 0, out
        rc, out = sh("rsync -a --exclude .git --exclude build --exclude replays --exclude seeded %s/ /tmp/vcw%s_%d/" % (os.environ.get("VERIF_SRC", VERIF), TAG, k))
        assert rc == 0, out
        slots.put(k)

    def job(it):
        k = slots.get()
        try:
            res, ok = one(it, k, head)
            print(it["name"], "applies", res.get("applies"), "demo", res.get("demo_on_unchanged"), res.get("demo_with_change"),
                  "pytest", (res.get("pytest") or {}).get("passed"), (res.get("pytest") or {}).get("new_failures"),
                  "KEPT" if ok else "REJECTED", "caught by", res.get("caught_by"), flush=True)
            return res
        except Exception as e:
            print(it["name"], "ERROR", repr(e), flush=True)
        finally:
            slots.put(k)

    try:
        with ThreadPoolExecutor(j) as ex:
            list(ex.map(job, items))
    finally:
        for k in range(j):
            sh("git -C /repo worktree remove --force /tmp/vcr%s_%d; rm -rf /tmp/vcw%s_%d /tmp/vcr%s_%d /tmp/vct%s_%d" % (TAG, k, TAG, k, TAG, k, TAG, k))
        sh("git -C /repo worktree prune")


if __name__ == "__main__":
    main()
