"""./check <ID> [--tier quick|thorough] [--replay path]   — see DESIGN.md §7."""
import argparse
import importlib
import json
import os
import sys
import time
import traceback

sys.path.insert(0, os.path.dirname(os.path.abspath(__file__)))
from vlib import core  # noqa: E402


def main():
    ap = argparse.ArgumentParser()
    ap.add_argument("pid")
    ap.add_argument("--tier", default=os.environ.get("VERIF_TIER", "quick"))
    ap.add_argument("--replay")
    ap.add_argument("--no-proof", action="store_true", help="developer switch: skip the Coq proof build")
    a = ap.parse_args()
    pid = a.pid.upper()
    tier = a.tier if a.tier in ("quick", "thorough") else "quick"
    try:
        seed = int(os.environ.get("VERIF_SEED", "0"))
    except ValueError:
        seed = 0
    mod = importlib.import_module("props.%s" % pid.lower())
    if a.replay:
        payload = json.load(open(a.replay))
        res = mod.replay(payload)
        print(json.dumps(res, indent=1, default=str))
        sys.exit(1 if res.get("violates") else 0)

    ctx = core.Ctx(pid, tier, seed)
    t0 = time.time()
    lines, violations = [], []
    broken = []

    # 0. regenerate translated model files from /repo's current source (tie T), when the property has a translator
    if hasattr(mod, "pregen"):
        try:
            perr = mod.pregen(ctx)
        except Exception:
            perr = "translator exception:\n" + traceback.format_exc()
        if perr:
            broken.append({"kind": "translator", "name": "source-to-Gallina translation(%s)" % pid, "detail": str(perr)[-3000:]})

    # 1. proofs
    if a.no_proof:
        proof = {"ok": True, "assumptions": "", "obligations": 1, "discharged": 1, "files": [], "log": "skipped", "failed": None}
    else:
        proof = core.build_props(pid)
    if not proof["ok"]:
        broken.append({"kind": "theorem", "name": proof["failed"], "detail": proof["log"][-3000:]})

    # 2. correspondence model <-> implementation
    try:
        corr = mod.correspondence(ctx)
    except Exception:
        corr = {"evaluations": 0, "distinct_nontrivial": 0, "rule": "", "samples": [], "failing": [],
                "error": "harness exception:\n" + traceback.format_exc()}
    if corr.get("error") or corr.get("failing"):
        broken.append({"kind": "correspondence", "name": "model-vs-implementation(%s)" % pid,
                       "detail": (corr.get("error") or "")[-3000:], "cases": corr.get("failing", [])[:5]})

    # 3. property oracle on the implementation (search for a concrete failing input)
    def run_oracle(scale):
        try:
            return mod.oracle(ctx, scale)
        except Exception:
            return {"evaluations": 0, "violations": [], "error": "oracle exception:\n" + traceback.format_exc()}
    orc = run_oracle(1)
    if orc.get("error"):
        broken.append({"kind": "oracle", "name": "implementation-oracle(%s)" % pid, "detail": orc["error"][-3000:]})
    found = list(orc.get("violations", []))
    # a disagreeing correspondence case may itself be a failing input
    if corr.get("failing") and hasattr(mod, "judge"):
        for c in corr["failing"][:20]:
            try:
                v = mod.judge(c)
            except Exception:
                v = None
            if v:
                found.append(v)
    if broken and not found:
        orc2 = run_oracle(6)
        found += list(orc2.get("violations", []))
        orc["evaluations"] = orc.get("evaluations", 0) + orc2.get("evaluations", 0)

    # 4. classify
    findings = [f for f in core.load_findings() if f["property"] == pid]
    open_keys = {f["key"]: f for f in findings if f.get("status") == "open"}
    seen_known, unlisted = {}, {}
    for v in found:
        if v["key"] in open_keys:
            seen_known.setdefault(v["key"], v)
        else:
            unlisted.setdefault(v["key"], v)
    for k, v in seen_known.items():
        lines.append("KNOWN-FINDING: property=%s %s [%s]" % (pid, open_keys[k]["what"], k))
    for k, v in unlisted.items():
        payload = {"property": pid, "key": k, "what": v.get("what"), "scenario": v.get("scenario"),
                   "expected": v.get("expected"), "observed": v.get("observed"), "broken": broken,
                   "rerun": "./check %s --replay <this file>" % pid}
        p = core.write_replay(pid, payload)
        lines.append("VIOLATION property=%s replay=%s" % (pid, p))
        violations.append(k)
    if broken and not unlisted:
        payload = {"property": pid, "key": "unproved", "broken": broken,
                   "note": "a proof obligation / the model-implementation correspondence / the oracle no longer checks; "
                           "the search found no concrete failing input that is not already a listed known finding",
                   "corr_cases": corr.get("failing", [])[:3]}
        p = core.write_replay(pid, payload)
        lines.append("VIOLATION property=%s replay=%s no-failing-input-found" % (pid, p))
        violations.append("unproved")

    # 5. evidence
    wall = time.time() - t0
    ax = core.axioms_named(proof.get("assumptions", ""))
    tb = ["Coq 8.16.1 kernel + coqc; vm_compute (bytecode VM) for model execution; no native_compute",
          "axioms reported by Print Assumptions this run: " + (", ".join(ax) if ax else "none (closed under the global context)"),
          "hand-written Gallina model (coq/model) tied to /repo by the correspondence run of this check; "
          "tolerance 1e-9 relative inside Coq (base/Num.v qclose); Q-vs-R instance gap of the Num class",
          "harness: tools/props/%s.py (scenario generator, observation of the real objects, printing of Gallina terms)" % pid.lower()]
    gens = [f for f in proof.get("files", []) if f.startswith("gen/")]
    if gens:
        tb.append("definitions translated from the CURRENT source text on this run (tie T, fail-closed Python-ast translators tools/vlib/py2coq_la.py / py2coq_act.py / py2coq_nd.py / py2coq_graph.py / py2coq_mg.py / py2coq_ds.py / py2coq_staging.py / py2coq_val.py / py2coq_seed.py / py2coq_state.py / py2coq_dispatch.py / py2coq_loop.py / py2coq_fb.py / py2coq_fit.py / py2coq_compat.py (+ la_specs_legacy.py) / py2coq_val2.py / py2coq_run.py / py2coq_par.py / py2coq_ops.py / py2coq_mcall.py / py2coq_mrun.py / py2coq_mrun2.py / py2coq_upd.py and their preludes coq/base/GenPrelude.v, NDPrelude.v, PyColl.v, PyColl2.v, PyColl4.v, MCallPrelude.v, MRunPrelude.v, MGPrelude.v, DSPrelude.v, ValPrelude.v, SeedPrelude.v, CtxPrelude.v, PyColl3.v, LoopPrelude.v, FbPrelude.v, FitPrelude.v, ValPrelude2.v, RunPrelude.v, ParPrelude.v as the meaning of numpy / Python collections): "
                  + ", ".join("coq/" + g for g in gens) + "; proved equal to / used by the theorems of this property")
    tb += list(getattr(mod, "TRUSTED", []))
    ev = {
        "property_id": pid, "tier": tier, "seed": seed, "level": "proof",
        "coverage": {
            "obligations": max(1, proof["obligations"]), "discharged": proof["discharged"],
            "checker_cmd": "make -C /verif/coq props/%s.vo  (coqc, full .vo build of the cone: %s)" % (pid, " ".join(proof["files"])),
            "trusted_base": tb,
            "print_assumptions": proof.get("assumptions", ""),
            "evaluations": int(corr.get("evaluations", 0)) + int(orc.get("evaluations", 0)),
            "distinct_nontrivial": int(corr.get("distinct_nontrivial", 0)),
            "rule": corr.get("rule", ""),
            "samples": corr.get("samples", [])[:3] or ["<none>"],
            "disagreements_checked": int(corr.get("evaluations", 0)),
            "correspondence": {k: corr.get(k) for k in ("evaluations", "distinct_nontrivial", "distribution", "tolerance") if k in corr},
            "oracle": {k: orc.get(k) for k in ("evaluations", "distribution", "rule") if k in orc},
            "known_findings_seen": sorted(seen_known),
            "broken": [b["kind"] + ":" + str(b["name"]) for b in broken],
        },
        "assumptions": list(getattr(mod, "ASSUMPTIONS", [])),
        "wall_s": round(wall, 2),
        "violations": len(violations),
    }
    os.makedirs(os.path.join(core.VERIF, "evidence"), exist_ok=True)
    with open(os.path.join(core.VERIF, "evidence", "%s.json" % pid), "w") as f:
        json.dump(ev, f, indent=1, default=str)
    for ln in lines:
        print(ln)
    print("%s tier=%s seed=%d proof=%s(%d/%d) corr=%d cases (%d nontrivial, %d disagree) oracle=%d evals, %d known, %d violations, %.1fs"
          % (pid, tier, seed, "ok" if proof["ok"] else "BROKEN", proof["discharged"], proof["obligations"],
             corr.get("evaluations", 0), corr.get("distinct_nontrivial", 0), len(corr.get("failing", [])),
             orc.get("evaluations", 0), len(seen_known), len(violations), wall))
    if broken:
        for b in broken:
            print("  broken: %s %s\n    %s" % (b["kind"], b["name"], (b.get("detail") or "")[-1200:].replace("\n", "\n    ")))
    sys.exit(1 if violations else 0)


if __name__ == "__main__":
    main()
