"""Fail-closed translator for the LOGIC of reservoirpy/mat_gen.py around the numpy / scipy generators -> Gallina (tie T of C13).

Targets (coq/gen/Gen_matgen.v, Module GenMatGen):
    _epsilon                                  -> mg_epsilon
    _scale_spectral_radius                    -> mg_scale_spectral_radius
    _scale_inputs (scalar / per-column)       -> mg_scale_inputs_scalar, mg_scale_inputs_cols
    Initializer._func_post_process            -> mg_func_post_process
    Initializer.__call__                      -> mg_call
    _ring, _line                              -> mg_ring, mg_line
    _filter_deprecated_kwargs                 -> PINNED primitive MatGen.filter_deprecated (source text compared, not translated)

Value kinds   PV a Python value (type V; None is the Section variable pynone) | DICT a dict = association list (kwargs V) |
              LISTV tuple/list of Python values | BOOL | NAT | LNAT list of nat (index arrays, int shapes) | S scalar (F) |
              VEC list F with an orientation flat / row / col that exists only here | OVEC `None or a vector` (option) | MAT |
              OBJ an Initializer record (fresh = bound by copy.deepcopy: only such an object may be written) | OPQ opaque |
              FUNW the wrapped draw function (oracle).
Statements    assignment to a local, tuple assignment from the pinned primitive, d[k] = v / d.update(u) on the _kwargs of a
              FRESH object, x = d.pop(k) under a `k in d` guard, `w *= scalar`, if / elif / else (branches that fall through are
              merged into a tuple of the variables they bind; branches that end in return / raise take the rest of the block as
              their continuation), return, raise (a pinned message -> the error constructor; in option mode -> None), and the
              retry loop `flag = False; while not flag: try: BODY; flag = True; except ArpackNoConvergence: <pinned>`, which
              denotes BODY once under the stated oracle assumption.
Everything else is REJECTED (raise Reject): the tie is then reported broken and a non-compiling stub is written.
"""
import ast
import hashlib
import os
from fractions import Fraction

from vlib.py2coq_la import Reject, _strip_doc, _where

VERSION = "py2coq_mg 1"
SRC = "reservoirpy/mat_gen.py"

RESERVED = set("""kwargs keys key result error post heap call ring line coo nil cons fst snd length map seq nth hd tl last fold_left if then else
let in match with end fun forall exists Type Prop Set nat list bool true false option Some None F H V S O is_none pynone issparse
spectral_radius mscale vones negb andb orb combine repeat filter rev app at as return using where struct fix cofix mod""".split())

# error constructors of MatGen.error, chosen by the EXACT message of the raise
ERRORS = {
    "Spectral radius rescaling is not supported by this initializer.": "ESrNotAuthorized",
    "Input scaling is not supported by this initializer.": "EInputScalingNotAuthorized",
    "'sr' and 'input_scaling' parameters are mutually exclusive for a given matrix.": "EBothScalings",
}
FIELDS = {"_kwargs": ("DICT", "i_kwargs"), "_autorize_sr": ("BOOL", "i_autorize_sr"),
          "_autorize_input_scaling": ("BOOL", "i_autorize_is"), "_autorize_rescaling": ("BOOL", "i_autorize_rescaling"),
          "_func": ("FUNREF", "i_func")}

PINNED_FILTER_DEPRECATED = '''def _filter_deprecated_kwargs(kwargs):
    deprecated = {'proba': 'connectivity', 'typefloat': 'dtype', 'N': None, 'dim_input': None}
    new_kwargs = {}
    args = [None, None]
    args_order = ['N', 'dim_input']
    for depr, repl in deprecated.items():
        if depr in kwargs:
            depr_argument = kwargs.pop(depr)
            msg = f"'{depr}' parameter is deprecated since v0.3.1."
            if repl is not None:
                msg += f" Consider using '{repl}' instead."
                new_kwargs[repl] = depr_argument
            else:
                args[args_order.index(depr)] = depr_argument
            warnings.warn(msg, DeprecationWarning)
    args = [a for a in args if a is not None]
    kwargs.update(new_kwargs)
    return (args, kwargs)'''

# statements declared SKIPPED, by exact (ast.unparse) text, with the reason they do not change the denoted matrix
SKIP = {
    "_scale_spectral_radius": {
        "rg = rand_generator(seed)":
            "only read by the pinned ArpackNoConvergence handler; rand_generator(seed) does not advance a Generator passed as seed",
        "warnings.warn(f'Spectral radius of the generated matrix is null: matrix can not be rescaled to sr={sr}.', UserWarning)":
            "a warning: no effect on the returned matrix",
    },
    "_scale_inputs": {
        "if np.issubdtype(w.dtype, np.floating) and scaled.dtype != w.dtype:\n    scaled = scaled.astype(w.dtype)":
            "dtype cast back to the requested float type: the same matrix up to float rounding (rounding is outside the model)",
    },
    "_ring": {
        "if type(matrix) is np.matrix:\n    matrix = np.asarray(matrix)":
            "np.matrix -> ndarray: representation only",
    },
    "_line": {
        "if type(matrix) is np.matrix:\n    matrix = np.asarray(matrix)":
            "np.matrix -> ndarray: representation only",
    },
}
# the only exception handler accepted (when ARPACK does not converge the SAME draw is measured with the dense solver and scaled as in the try body): not translated, the oracle
# spectral_radius is assumed to RETURN (Section variable); a change of this text is a rejection
PINNED_HANDLER = ("except ArpackNoConvergence:\n    current_sr = spectral_radius(w.toarray())\n    if not -_epsilon < current_sr < _epsilon:\n"
                  "        w *= sr / current_sr\n    convergence = True")
# expression-level identities on a matrix / vector (format conversions and dtype casts)
IDENT_METHODS = {"asformat", "astype", "toarray", "tocsr", "tocsc", "tocoo", "todense", "copy"}

MAT_T = "list (list F)"
COQTYPE = {"PV": "V", "DICT": "kwargs V", "LISTV": "list V", "BOOL": "bool", "NAT": "nat", "LNAT": "list nat", "S": "F",
           "VEC": "list F", "OVEC": "option (list F)", "MAT": MAT_T, "OBJ": "initializer V", "FUNW": "list V -> kwargs V -> " + MAT_T}

SPECS = [
    {"py": "_scale_spectral_radius", "coq": "mg_scale_spectral_radius", "ret": "MAT", "mode": "value",
     "params": {"w_init": "FUNW", "shape": "LISTV", "sr": "S"}, "kwarg": "DICT"},
    {"py": "_scale_inputs", "coq": "mg_scale_inputs_scalar", "ret": "MAT", "mode": "value",
     "params": {"w_init": "FUNW", "shape": "LISTV", "input_scaling": "S"}, "kwarg": "DICT"},
    {"py": "_scale_inputs", "coq": "mg_scale_inputs_cols", "ret": "MAT", "mode": "value",
     "params": {"w_init": "FUNW", "shape": "LISTV", "input_scaling": ("VEC", "flat")}, "kwarg": "DICT"},
    {"py": "_func_post_process", "cls": "Initializer", "coq": "mg_func_post_process", "ret": "RES", "mode": "result",
     "params": {"self": "OBJ"}, "vararg": "LISTV", "kwonly": "dict", "kwarg": "DICT"},
    {"py": "__call__", "cls": "Initializer", "coq": "mg_call", "ret": "RES", "mode": "result",
     "params": {"self": "OBJ"}, "vararg": "LISTV", "kwonly": "dict", "kwarg": "DICT"},
    {"py": "_ring", "coq": "mg_ring", "ret": "MAT", "mode": "option", "params": {}, "vararg": "LNAT",
     "kwonly": {"weights": "OVEC", "dtype": "OPQ", "sparsity_type": "OPQ"}, "kwarg": "OPQ"},
    {"py": "_line", "coq": "mg_line", "ret": "MAT", "mode": "option", "params": {}, "vararg": "LNAT",
     "kwonly": {"weights": "OVEC", "dtype": "OPQ", "sparsity_type": "OPQ"}, "kwarg": "OPQ"},
]
METHODS = {"_func_post_process": "mg_func_post_process"}


def mangle(n):
    return n + "_" if n in RESERVED else n


def base(k):
    return k[0] if isinstance(k, tuple) else k


def cstr(s):
    if '"' in s:
        raise Reject("string constant with a quote: %r" % s)
    return '"%s"%%string' % s


class Val:
    def __init__(self, kind, text, **extra):
        self.kind, self.text, self.extra = kind, text, extra

    @property
    def b(self):
        return base(self.kind)


def unparse(n):
    return ast.unparse(n)


def terminates(stmts):
    if not stmts:
        return False
    s = stmts[-1]
    if isinstance(s, (ast.Return, ast.Raise)):
        return True
    if isinstance(s, ast.If):
        return terminates(s.body) and terminates(s.orelse)
    return False


def has_exit(stmts):
    for s in stmts:
        for n in ast.walk(s):
            if isinstance(n, (ast.Return, ast.Raise)):
                return True
    return False


class FnTr:
    def __init__(self, spec, fn, consts, done):
        self.spec, self.fn, self.consts, self.done = spec, fn, consts, done
        self.skip = SKIP.get(spec["py"], {})
        self.skipped = []
        self.notes = []

    # ------------------------------------------------------------------------------------------------ expressions
    def expr(self, e, env, facts):
        m = getattr(self, "e_" + type(e).__name__, None)
        if m is None:
            raise Reject("%s: expression %s not understood: %s" % (_where(e), type(e).__name__, unparse(e)))
        return m(e, env, facts)

    def e_Constant(self, e, env, facts):
        v = e.value
        if v is None:
            return Val("PV", "pynone")
        if v is True or v is False:
            return Val("BOOL", "true" if v else "false", const=v)
        if isinstance(v, int):
            if v < 0:
                raise Reject("%s: negative integer constant" % _where(e))
            return Val("NAT", str(v), const=v)
        if isinstance(v, float):
            return Val("S", num_text(v))
        raise Reject("%s: constant %r not understood" % (_where(e), v))

    def e_Name(self, e, env, facts):
        if e.id in env:
            v = env[e.id]
            if v.b == "OPQ":
                raise Reject("%s: opaque value '%s' used in a computation" % (_where(e), e.id))
            return v
        if e.id in self.consts:
            return Val("S", "mg" + e.id)
        raise Reject("%s: unknown name '%s'" % (_where(e), e.id))

    def e_UnaryOp(self, e, env, facts):
        if isinstance(e.op, ast.USub):
            a = self.expr(e.operand, env, facts)
            if a.b != "S":
                raise Reject("%s: unary minus on %s" % (_where(e), a.kind))
            return Val("S", "(nopp %s)" % a.text)
        if isinstance(e.op, ast.Not):
            t, _, _ = self.cond(e, env, facts)
            return Val("BOOL", t)
        raise Reject("%s: unary operator not understood" % _where(e))

    def e_BoolOp(self, e, env, facts):
        t, _, _ = self.cond(e, env, facts)
        return Val("BOOL", t)

    def e_Compare(self, e, env, facts):
        t, _, _ = self.cond(e, env, facts)
        return Val("BOOL", t)

    def e_BinOp(self, e, env, facts):
        a, b = self.expr(e.left, env, facts), self.expr(e.right, env, facts)
        if a.b == "S" and b.b == "S":
            ops = {ast.Add: "nadd", ast.Sub: "nsub", ast.Mult: "nmul", ast.Div: "ndiv"}
            if type(e.op) not in ops:
                raise Reject("%s: scalar operator not understood" % _where(e))
            return Val("S", "(%s %s %s)" % (ops[type(e.op)], a.text, b.text))
        if a.b == "NAT" and b.b == "NAT":
            if isinstance(e.op, ast.Add):
                return Val("NAT", "(%s + %s)" % (a.text, b.text))
            if isinstance(e.op, ast.Sub):
                # Python ints go negative, nat subtraction truncates: accepted only as `n - <literal>`; the equality theorems
                # carry the side condition literal <= n (numpy raises on a negative dimension)
                if "const" not in b.extra:
                    raise Reject("%s: integer subtraction of a non-literal" % _where(e))
                self.notes.append("integer subtraction `%s` is truncated: side condition %s <= %s" % (unparse(e), b.text, a.text))
                return Val("NAT", "(%s - %s)" % (a.text, b.text))
            raise Reject("%s: integer operator not understood" % _where(e))
        if isinstance(e.op, ast.Mult):
            if a.b == "MAT":
                return self.bmul(a, b, e)
            if a.b == "S" and b.b == "MAT":
                return Val("MAT", "(mscale %s %s)" % (a.text, b.text))
        raise Reject("%s: operator on %s, %s not understood: %s" % (_where(e), a.kind, b.kind, unparse(e)))

    def bmul(self, w, x, node):
        """element-wise product of a matrix with a broadcast operand (np.multiply / scipy .multiply / *)"""
        if x.b == "S":
            return Val("MAT", "(bmul_scalar %s %s)" % (w.text, x.text))
        if x.b == "VEC":
            o = x.kind[1]
            return Val("MAT", "(%s %s %s)" % ("bmul_col" if o == "col" else "bmul_row", w.text, x.text))
        raise Reject("%s: product of a matrix with %s not understood" % (_where(node), x.kind))

    def e_Tuple(self, e, env, facts):
        vs = [self.expr(x, env, facts) for x in e.elts]
        if vs and all(v.b == "PV" for v in vs):
            return Val("LISTV", "[%s]" % "; ".join(v.text for v in vs))
        raise Reject("%s: tuple not understood: %s" % (_where(e), unparse(e)))

    def e_Attribute(self, e, env, facts):
        if e.attr == "T":
            a = self.expr(e.value, env, facts)
            if a.b == "MAT":
                return Val("MAT", "(mT_mg %s)" % a.text)
            if a.b == "VEC":
                o = {"flat": "flat", "row": "col", "col": "row"}[a.kind[1]]
                return Val(("VEC", o), a.text)
            raise Reject("%s: .T on %s" % (_where(e), a.kind))
        if isinstance(e.value, ast.Name) and e.value.id in env and env[e.value.id].b == "OBJ":
            o = env[e.value.id]
            if e.attr not in FIELDS:
                raise Reject("%s: attribute %s of an Initializer not understood" % (_where(e), e.attr))
            k, proj = FIELDS[e.attr]
            return Val(k, "(%s %s)" % (proj, o.text), obj=e.value.id)
        raise Reject("%s: attribute not understood: %s" % (_where(e), unparse(e)))

    def e_Subscript(self, e, env, facts):
        sl = e.slice
        a = self.expr(e.value, env, facts)
        if a.b in ("LISTV", "LNAT") and isinstance(sl, ast.Constant) and isinstance(sl.value, int) and sl.value >= 0:
            if not isinstance(e.value, ast.Name) or not any(f[0] == "lenge" and f[1] == e.value.id and f[2] > sl.value for f in facts):
                raise Reject("%s: subscript %s without a length guard (IndexError is not modelled)" % (_where(e), unparse(e)))
            if a.b == "LISTV":
                return Val("PV", "(nth %d %s pynone)" % (sl.value, a.text))
            return Val("NAT", "(nth %d %s 0)" % (sl.value, a.text))
        if a.b == "VEC" and isinstance(sl, ast.Tuple) and len(sl.elts) == 2:
            def full(x):
                return isinstance(x, ast.Slice) and x.lower is None and x.upper is None and x.step is None

            def newaxis(x):
                return (isinstance(x, ast.Constant) and x.value is None) or unparse(x) == "np.newaxis"
            if full(sl.elts[0]) and newaxis(sl.elts[1]) and a.kind[1] == "flat":
                return Val(("VEC", "col"), a.text)
            if newaxis(sl.elts[0]) and full(sl.elts[1]) and a.kind[1] == "flat":
                return Val(("VEC", "row"), a.text)
        raise Reject("%s: subscript not understood: %s" % (_where(e), unparse(e)))

    def dict_expr(self, e, env, facts):
        d = self.expr(e, env, facts)
        if d.b != "DICT":
            raise Reject("%s: %s is not a dictionary" % (_where(e), unparse(e)))
        return d

    def strkey(self, e):
        if isinstance(e, ast.Constant) and isinstance(e.value, str):
            return e.value
        raise Reject("%s: dictionary key is not a string literal" % _where(e))

    def nat(self, e, env, facts):
        v = self.expr(e, env, facts)
        if v.b != "NAT":
            raise Reject("%s: %s is not an integer" % (_where(e), unparse(e)))
        return v

    def opaque_ok(self, e, env):
        """an argument that is ignored: must be an opaque name or a numpy dtype / literal"""
        if isinstance(e, ast.Name) and e.id in env and env[e.id].b == "OPQ":
            return True
        if isinstance(e, ast.Constant) and isinstance(e.value, (str, bool)):
            return True
        if unparse(e) in ("np.int32", "np.int64", "w.format", "w.dtype", "global_dtype"):
            return True
        return False

    def check_kw(self, e, env, allowed):
        out = {}
        for k in e.keywords:
            if k.arg is None or k.arg not in allowed:
                raise Reject("%s: keyword %s not understood in %s" % (_where(e), k.arg, unparse(e)))
            out[k.arg] = k.value
        return out

    def e_Call(self, e, env, facts):
        f = e.func
        fn = unparse(f)
        # ---- method calls
        if isinstance(f, ast.Attribute):
            if f.attr == "get" and len(e.args) == 1 and not e.keywords:
                d = self.dict_expr(f.value, env, facts)
                return Val("PV", "(kw_get_d pynone %s %s)" % (cstr(self.strkey(e.args[0])), d.text))
            if f.attr in IDENT_METHODS:
                a = self.expr(f.value, env, facts)
                if a.b in ("MAT", "VEC"):
                    for x in list(e.args) + [k.value for k in e.keywords]:
                        if not self.opaque_ok(x, env):
                            raise Reject("%s: argument of .%s not understood: %s" % (_where(e), f.attr, unparse(x)))
                    return a
            if f.attr == "multiply" and len(e.args) == 1 and not e.keywords and fn != "np.multiply":
                w = self.expr(f.value, env, facts)
                if w.b == "MAT":
                    return self.bmul(w, self.expr(e.args[0], env, facts), e)
            if f.attr == "reshape" and not e.keywords:
                a = self.expr(f.value, env, facts)
                shp = [unparse(x) for x in e.args]
                if a.b == "VEC" and shp == ["-1", "1"]:
                    return Val(("VEC", "col"), a.text)
                if a.b == "VEC" and shp == ["1", "-1"]:
                    return Val(("VEC", "row"), a.text)
                if a.b == "VEC" and shp == ["-1"]:
                    return Val(("VEC", "flat"), a.text)
        # ---- functions
        if fn == "len" and len(e.args) == 1 and not e.keywords:
            a = self.expr(e.args[0], env, facts)
            if a.b in ("LISTV", "LNAT", "DICT"):
                return Val("NAT", "(length %s)" % a.text, lenof=e.args[0].id if isinstance(e.args[0], ast.Name) else None)
        if fn == "copy.deepcopy" and len(e.args) == 1 and not e.keywords:
            a = self.expr(e.args[0], env, facts)
            if a.b == "OBJ":
                return Val("OBJ", a.text, fresh=True)
        if fn == "spectral_radius" and len(e.args) == 1 and not e.keywords:
            a = self.expr(e.args[0], env, facts)
            if a.b == "MAT":
                return Val("S", "(spectral_radius %s)" % a.text)
        if fn == "sparse.issparse" and len(e.args) == 1 and not e.keywords:
            a = self.expr(e.args[0], env, facts)
            if a.b == "MAT":
                return Val("BOOL", "(issparse %s)" % a.text)
        if fn == "np.multiply" and len(e.args) == 2 and not e.keywords:
            w = self.expr(e.args[0], env, facts)
            if w.b == "MAT":
                return self.bmul(w, self.expr(e.args[1], env, facts), e)
        if fn in ("np.asarray", "np.array") and len(e.args) == 1:
            kw = self.check_kw(e, env, {"dtype"})
            a = self.expr(e.args[0], env, facts)
            if a.b in ("MAT", "VEC") and all(self.opaque_ok(x, env) for x in kw.values()):
                return a
        if fn == "np.ones" and len(e.args) == 1:
            kw = self.check_kw(e, env, {"dtype"})
            shp = e.args[0]
            if isinstance(shp, ast.Tuple) and len(shp.elts) == 1 and all(self.opaque_ok(x, env) for x in kw.values()):
                return Val(("VEC", "flat"), "(vones %s)" % self.nat(shp.elts[0], env, facts).text)
        if fn == "np.arange" and len(e.args) in (1, 2):
            kw = self.check_kw(e, env, {"dtype"})
            if all(self.opaque_ok(x, env) for x in kw.values()):
                ns = [self.nat(x, env, facts).text for x in e.args]
                if len(ns) == 1:
                    ns = ["0"] + ns
                return Val("LNAT", "(np_arange %s %s)" % tuple(ns))
        if fn == "np.roll" and len(e.args) == 1:
            kw = self.check_kw(e, env, {"shift"})
            a = self.expr(e.args[0], env, facts)
            sh = unparse(kw["shift"]) if "shift" in kw else None
            if a.b == "LNAT" and sh in ("-1", "1"):
                return Val("LNAT", "(%s %s)" % ("roll_left" if sh == "-1" else "roll_right", a.text))
        if fn == "sparse.coo_matrix" and len(e.args) == 1:
            kw = self.check_kw(e, env, {"shape"})
            a = e.args[0]
            if (isinstance(a, ast.Tuple) and len(a.elts) == 2 and isinstance(a.elts[1], ast.Tuple) and len(a.elts[1].elts) == 2
                    and "shape" in kw and isinstance(kw["shape"], ast.Tuple) and len(kw["shape"].elts) == 2):
                data = self.expr(a.elts[0], env, facts)
                r, c = (self.expr(x, env, facts) for x in a.elts[1].elts)
                m, n = (self.nat(x, env, facts) for x in kw["shape"].elts)
                if data.b == "VEC" and r.b == "LNAT" and c.b == "LNAT":
                    return Val("MAT", "(coo_dense %s %s (coo_make %s %s %s))" % (m.text, n.text, r.text, c.text, data.text))
        # ---- the wrapped draw: w_init(*shape, k=v..., **kwargs)
        if isinstance(f, ast.Name) and f.id in env and env[f.id].b == "FUNW":
            if len(e.args) == 1 and isinstance(e.args[0], ast.Starred):
                shp = self.expr(e.args[0].value, env, facts)
                kws, star = [], None
                for k in e.keywords:
                    if k.arg is None:
                        if star is not None or k is not e.keywords[-1]:
                            raise Reject("%s: keyword expansion not last" % _where(e))
                        star = self.dict_expr(k.value, env, facts)
                    else:
                        v = self.expr(k.value, env, facts)
                        if v.b != "PV":
                            raise Reject("%s: keyword %s of the draw is not a Python value" % (_where(e), k.arg))
                        kws.append("(%s, %s)" % (cstr(k.arg), v.text))
                if shp.b == "LISTV" and star is not None:
                    d = star.text
                    for kv in reversed(kws):
                        d = "(%s :: %s)" % (kv, d)
                    return Val("MAT", "(%s %s %s)" % (env[f.id].text, shp.text, d))
        raise Reject("%s: call not understood: %s" % (_where(e), unparse(e)))

    # ------------------------------------------------------------------------------------------------ conditions
    def cond(self, e, env, facts):
        """-> (bool text, facts when true, facts when false)"""
        if isinstance(e, ast.UnaryOp) and isinstance(e.op, ast.Not):
            t, ft, ff = self.cond(e.operand, env, facts)
            return "(negb %s)" % t, ff, ft
        if isinstance(e, ast.BoolOp):
            isand = isinstance(e.op, ast.And)
            texts, acc_t, acc_f = [], set(), set()
            cur = set(facts)
            for i, x in enumerate(e.values):
                t, ft, ff = self.cond(x, env, cur)
                texts.append(t)
                if isand:
                    cur |= ft
                    acc_t |= ft
                else:
                    cur |= ff
                    acc_f |= ff
            op = " && " if isand else " || "
            return "(%s)" % op.join(texts), (acc_t if isand else set()), (acc_f if not isand else set())
        if isinstance(e, ast.Compare):
            if len(e.ops) == 1 and isinstance(e.ops[0], ast.In):
                k = self.strkey(e.left)
                d = self.dict_expr(e.comparators[0], env, facts)
                ft = {("has", e.comparators[0].id, k)} if isinstance(e.comparators[0], ast.Name) else set()
                return "(kw_has %s %s)" % (cstr(k), d.text), ft, set()
            if len(e.ops) == 1 and isinstance(e.ops[0], (ast.Is, ast.IsNot)):
                if not (isinstance(e.comparators[0], ast.Constant) and e.comparators[0].value is None):
                    raise Reject("%s: `is` with something else than None" % _where(e))
                a = self.expr(e.left, env, facts)
                if a.b != "PV":
                    raise Reject("%s: `is None` on %s" % (_where(e), a.kind))
                t = "(is_none %s)" % a.text
                return (t if isinstance(e.ops[0], ast.Is) else "(negb %s)" % t), set(), set()
            vals = [self.expr(x, env, facts) for x in [e.left] + e.comparators]
            if all(v.b == "S" for v in vals):
                parts = []
                for i, op in enumerate(e.ops):
                    a, b = vals[i].text, vals[i + 1].text
                    if isinstance(op, ast.Lt):
                        parts.append("nltb %s %s" % (a, b))
                    elif isinstance(op, ast.Gt):
                        parts.append("nltb %s %s" % (b, a))
                    elif isinstance(op, ast.LtE):
                        parts.append("nleb %s %s" % (a, b))
                    elif isinstance(op, ast.GtE):
                        parts.append("nleb %s %s" % (b, a))
                    else:
                        raise Reject("%s: scalar comparison not understood" % _where(e))
                return "(%s)" % " && ".join(parts), set(), set()
            if all(v.b == "NAT" for v in vals) and len(vals) == 2:
                a, b = vals
                op = e.ops[0]
                ft, ff = set(), set()
                ln, c = a.extra.get("lenof"), b.extra.get("const")
                if isinstance(op, ast.Gt):
                    t = "(%s <? %s)" % (b.text, a.text)
                    if ln and c is not None:
                        ft = {("lenge", ln, c + 1)}
                elif isinstance(op, ast.Lt):
                    t = "(%s <? %s)" % (a.text, b.text)
                elif isinstance(op, ast.GtE):
                    t = "(%s <=? %s)" % (b.text, a.text)
                    if ln and c is not None:
                        ft = {("lenge", ln, c)}
                elif isinstance(op, ast.LtE):
                    t = "(%s <=? %s)" % (a.text, b.text)
                elif isinstance(op, ast.Eq):
                    t = "(%s =? %s)" % (a.text, b.text)
                    if ln and c is not None:
                        ft = {("lenge", ln, c)}
                elif isinstance(op, ast.NotEq):
                    t = "(negb (%s =? %s))" % (a.text, b.text)
                    if ln and c is not None:
                        ff = {("lenge", ln, c)}
                else:
                    raise Reject("%s: integer comparison not understood" % _where(e))
                return t, ft, ff
            raise Reject("%s: comparison not understood: %s" % (_where(e), unparse(e)))
        v = self.expr(e, env, facts)
        if v.b != "BOOL":
            raise Reject("%s: condition %s is not a boolean" % (_where(e), unparse(e)))
        return v.text, set(), set()

    # ------------------------------------------------------------------------------------------------ statements
    def assigned(self, stmts):
        out = []

        def add(n):
            if n not in out:
                out.append(n)
        for s in stmts:
            if unparse(s) in self.skip:
                continue
            if isinstance(s, ast.Assign):
                for t in s.targets:
                    if isinstance(t, ast.Name):
                        add(t.id)
                    elif isinstance(t, ast.Tuple):
                        for x in t.elts:
                            if isinstance(x, ast.Name):
                                add(x.id)
                    elif isinstance(t, ast.Subscript):
                        r = root_name(t)
                        if r:
                            add(r)
                if isinstance(s.value, ast.Call) and isinstance(s.value.func, ast.Attribute) and s.value.func.attr == "pop":
                    r = root_name(s.value.func.value)
                    if r:
                        add(r)
            elif isinstance(s, ast.AugAssign) and isinstance(s.target, ast.Name):
                add(s.target.id)
            elif isinstance(s, ast.Expr) and isinstance(s.value, ast.Call) and isinstance(s.value.func, ast.Attribute) \
                    and s.value.func.attr == "update":
                r = root_name(s.value.func.value)
                if r:
                    add(r)
            elif isinstance(s, ast.If):
                for n in self.assigned(s.body) + self.assigned(s.orelse):
                    add(n)
            elif isinstance(s, (ast.While, ast.Try)):
                raise Reject("%s: loop inside a branch" % _where(s))
        return out

    def bind(self, env, name, val):
        env = dict(env)
        env[name] = Val(val.kind, mangle(name), **{k: v for k, v in val.extra.items() if k in ("fresh", "const")})
        return env

    def write_kwargs(self, target, env, facts, newdict_of):
        """write to <obj>._kwargs of a FRESH object (or to a local dict): returns (new env, let-line)"""
        if isinstance(target, ast.Name):
            d = self.dict_expr(target, env, facts)
            if not d.extra.get("fresh"):
                raise Reject("%s: write to a dictionary that is not owned by this call: %s" % (_where(target), target.id))
            return self.bind(env, target.id, Val("DICT", "", fresh=True)), "let %s := %s in" % (mangle(target.id), newdict_of(d.text))
        if isinstance(target, ast.Attribute) and target.attr == "_kwargs" and isinstance(target.value, ast.Name) \
                and target.value.id in env and env[target.value.id].b == "OBJ":
            o = env[target.value.id]
            if not o.extra.get("fresh"):
                raise Reject("%s: write to the _kwargs of an object that is not a deep copy made by this call: %s" % (
                    _where(target), unparse(target)))
            nd = newdict_of("(i_kwargs %s)" % o.text)
            return self.bind(env, target.value.id, Val("OBJ", "", fresh=True)), "let %s := with_kwargs %s %s in" % (
                mangle(target.value.id), o.text, nd)
        raise Reject("%s: write target not understood: %s" % (_where(target), unparse(target)))

    def result_of(self, e, env, facts):
        """value of a `return` in result mode"""
        if isinstance(e, ast.Name) and e.id in env and env[e.id].b == "OBJ":
            return "RInit %s" % env[e.id].text
        if isinstance(e, ast.Call):
            f = e.func
            star = [a.value for a in e.args if isinstance(a, ast.Starred)]
            plain = [a for a in e.args if not isinstance(a, ast.Starred)]
            kstar = [k.value for k in e.keywords if k.arg is None]
            if any(k.arg is not None for k in e.keywords) or len(kstar) != 1:
                raise Reject("%s: call not understood: %s" % (_where(e), unparse(e)))
            kw = self.dict_expr(kstar[0], env, facts)
            # obj._func(*shape, **kw) / obj._func(**kw): the wrapped function is called: the call is RECORDED
            if isinstance(f, ast.Attribute) and f.attr == "_func" and not plain and len(star) <= 1:
                o = self.expr(f.value, env, facts)
                if o.b == "OBJ":
                    shp = self.expr(star[0], env, facts).text if star else "[]"
                    return "RMat (mkDesc (i_func %s) %s PNone %s)" % (o.text, shp, kw.text)
            if isinstance(f, ast.Attribute) and f.attr in METHODS and not plain and len(star) == 1:
                o = self.expr(f.value, env, facts)
                if o.b == "OBJ" and METHODS[f.attr] in self.done:
                    shp = self.expr(star[0], env, facts)
                    if shp.b == "LISTV":
                        return "%s %s %s %s" % (METHODS[f.attr], o.text, shp.text, kw.text)
            if isinstance(f, ast.Name) and f.id in ("_scale_spectral_radius", "_scale_inputs") and not star and len(plain) == 3:
                fr = self.expr(plain[0], env, facts)
                shp = self.expr(plain[1], env, facts)
                v = self.expr(plain[2], env, facts)
                if fr.b == "FUNREF" and shp.b == "LISTV" and v.b == "PV":
                    return "RMat (mkDesc %s %s (%s %s) %s)" % (fr.text, shp.text,
                                                              "PSr" if f.id == "_scale_spectral_radius" else "PInputScaling", v.text, kw.text)
        raise Reject("%s: returned value not understood: %s" % (_where(e), unparse(e)))

    def block(self, stmts, env, facts, k):
        """translate statements; k(env) gives the text of what follows a block that falls through"""
        if not stmts:
            return k(env)
        s, rest = stmts[0], stmts[1:]
        text = unparse(s)
        if text in self.skip:
            self.skipped.append(text)
            return self.block(rest, env, facts, k)
        mode = self.spec["mode"]
        if isinstance(s, ast.Return):
            if rest:
                raise Reject("%s: statements after return" % _where(s))
            if s.value is None:
                raise Reject("%s: bare return" % _where(s))
            if mode == "result":
                return self.result_of(s.value, env, facts)
            v = self.expr(s.value, env, facts)
            if v.b != self.spec["ret"]:
                raise Reject("%s: returns %s, declared %s" % (_where(s), v.kind, self.spec["ret"]))
            return "Some %s" % v.text if mode == "option" else v.text
        if isinstance(s, ast.Raise):
            if rest:
                raise Reject("%s: statements after raise" % _where(s))
            if mode == "option":
                if not (isinstance(s.exc, ast.Call) and unparse(s.exc.func) == "ValueError"):
                    raise Reject("%s: raise not understood" % _where(s))
                return "None"
            if mode == "result" and isinstance(s.exc, ast.Call) and unparse(s.exc.func) == "ValueError" and len(s.exc.args) == 1 \
                    and isinstance(s.exc.args[0], ast.Constant) and s.exc.args[0].value in ERRORS:
                return "RErr %s" % ERRORS[s.exc.args[0].value]
            raise Reject("%s: raise not understood: %s" % (_where(s), text))
        if isinstance(s, ast.Assign) and len(s.targets) == 1:
            tg = s.targets[0]
            # flag = False (retry loop)
            if isinstance(tg, ast.Name) and isinstance(s.value, ast.Constant) and s.value.value is False:
                env2 = dict(env)
                env2[tg.id] = Val("BOOL", "false", flag=True)
                return self.block(rest, env2, facts, k)
            # new_shape, kwargs = _filter_deprecated_kwargs(kwargs): pinned primitive
            if isinstance(tg, ast.Tuple) and isinstance(s.value, ast.Call) and unparse(s.value.func) == "_filter_deprecated_kwargs":
                if not (len(tg.elts) == 2 and all(isinstance(x, ast.Name) for x in tg.elts) and len(s.value.args) == 1
                        and not s.value.keywords):
                    raise Reject("%s: call of the pinned primitive not understood" % _where(s))
                d = self.dict_expr(s.value.args[0], env, facts)
                env2 = self.bind(env, tg.elts[0].id, Val("LISTV", ""))
                env2 = self.bind(env2, tg.elts[1].id, Val("DICT", "", fresh=True))
                return "let '(%s, %s) := filter_deprecated is_none %s in\n  %s" % (
                    mangle(tg.elts[0].id), mangle(tg.elts[1].id), d.text, self.block(rest, env2, facts, k))
            # x = d.pop("k")
            if isinstance(tg, ast.Name) and isinstance(s.value, ast.Call) and isinstance(s.value.func, ast.Attribute) \
                    and s.value.func.attr == "pop":
                if len(s.value.args) != 1 or s.value.keywords or not isinstance(s.value.func.value, ast.Name):
                    raise Reject("%s: pop not understood: %s" % (_where(s), text))
                dn = s.value.func.value.id
                key = self.strkey(s.value.args[0])
                if ("has", dn, key) not in facts:
                    raise Reject("%s: %s.pop(%r) without a `%r in %s` guard (KeyError is not modelled)" % (_where(s), dn, key, key, dn))
                d = self.dict_expr(s.value.func.value, env, facts)
                if not d.extra.get("fresh"):
                    raise Reject("%s: pop on a dictionary that is not owned by this call" % _where(s))
                l1 = "let %s := kw_get_d pynone %s %s in" % (mangle(tg.id), cstr(key), d.text)
                env2 = self.bind(env, tg.id, Val("PV", ""))
                l2 = "let %s := kw_del %s %s in" % (mangle(dn), cstr(key), env2[dn].text)
                env2 = self.bind(env2, dn, Val("DICT", "", fresh=True))
                facts2 = {f for f in facts if not (f[0] == "has" and f[1] == dn and f[2] == key)}
                return "%s\n  %s\n  %s" % (l1, l2, self.block(rest, env2, facts2, k))
            # obj._kwargs["k"] = v   /   d["k"] = v
            if isinstance(tg, ast.Subscript):
                key = self.strkey(tg.slice)
                v = self.expr(s.value, env, facts)
                if v.b != "PV":
                    raise Reject("%s: stored value is not a Python value" % _where(s))
                env2, line = self.write_kwargs(tg.value, env, facts, lambda d: "(kw_set %s %s %s)" % (cstr(key), v.text, d))
                return "%s\n  %s" % (line, self.block(rest, env2, facts, k))
            if isinstance(tg, ast.Name):
                v = self.expr(s.value, env, facts)
                if v.b in ("FUNREF", "FUNW"):
                    raise Reject("%s: function value bound to a local" % _where(s))
                if tg.id in env and env[tg.id].b not in (v.b, "OVEC"):
                    raise Reject("%s: '%s' changes kind (%s -> %s)" % (_where(s), tg.id, env[tg.id].kind, v.kind))
                env2 = self.bind(env, tg.id, v)
                facts2 = {f for f in facts if f[1] != tg.id}
                return "let %s := %s in\n  %s" % (mangle(tg.id), v.text, self.block(rest, env2, facts2, k))
            raise Reject("%s: assignment not understood: %s" % (_where(s), text))
        if isinstance(s, ast.AugAssign) and isinstance(s.target, ast.Name) and isinstance(s.op, ast.Mult):
            w = self.expr(s.target, env, facts)
            c = self.expr(s.value, env, facts)
            if w.b == "MAT" and c.b == "S":
                env2 = self.bind(env, s.target.id, Val("MAT", ""))
                return "let %s := mscale_r %s %s in\n  %s" % (mangle(s.target.id), w.text, c.text, self.block(rest, env2, facts, k))
            raise Reject("%s: in-place product not understood: %s" % (_where(s), text))
        if isinstance(s, ast.Expr) and isinstance(s.value, ast.Call) and isinstance(s.value.func, ast.Attribute) \
                and s.value.func.attr == "update" and len(s.value.args) == 1 and not s.value.keywords:
            u = self.dict_expr(s.value.args[0], env, facts)
            env2, line = self.write_kwargs(s.value.func.value, env, facts, lambda d: "(kw_update %s %s)" % (d, u.text))
            return "%s\n  %s" % (line, self.block(rest, env2, facts, k))
        if isinstance(s, ast.While):
            return self.retry_loop(s, rest, env, facts, k)
        if isinstance(s, ast.If):
            return self.ifstmt(s, rest, env, facts, k)
        raise Reject("%s: statement not understood: %s" % (_where(s), text))

    def retry_loop(self, s, rest, env, facts, k):
        t = s.test
        if not (isinstance(t, ast.UnaryOp) and isinstance(t.op, ast.Not) and isinstance(t.operand, ast.Name) and not s.orelse):
            raise Reject("%s: loop not understood" % _where(s))
        flag = t.operand.id
        if not (flag in env and env[flag].extra.get("flag") and env[flag].text == "false"):
            raise Reject("%s: loop flag '%s' is not the literal False at loop entry" % (_where(s), flag))
        if not (len(s.body) == 1 and isinstance(s.body[0], ast.Try)):
            raise Reject("%s: loop body is not a single try statement" % _where(s))
        tr = s.body[0]
        if tr.orelse or tr.finalbody or len(tr.handlers) != 1 or unparse(tr.handlers[0]) != PINNED_HANDLER:
            raise Reject("%s: exception handler differs from the pinned text" % _where(tr))
        body = list(tr.body)
        last = body[-1] if body else None
        if not (isinstance(last, ast.Assign) and len(last.targets) == 1 and isinstance(last.targets[0], ast.Name)
                and last.targets[0].id == flag and isinstance(last.value, ast.Constant) and last.value.value is True):
            raise Reject("%s: the try body does not end with `%s = True`" % (_where(tr), flag))
        body = body[:-1]
        for b in body:
            for n in ast.walk(b):
                if isinstance(n, (ast.Break, ast.Continue, ast.Return, ast.Raise, ast.While, ast.For, ast.Try)):
                    raise Reject("%s: control flow inside the retry body" % _where(n))
                if isinstance(n, ast.Name) and n.id == flag:
                    raise Reject("%s: loop flag used inside the retry body" % _where(n))
        self.skipped.append(PINNED_HANDLER)
        env2 = dict(env)
        del env2[flag]
        # one execution of BODY, then the loop exits (flag = True)
        return self.block(body + list(rest), env2, facts, k)

    def ifstmt(self, s, rest, env, facts, k):
        # `if x is None: ... else: ...` on an optional vector: a match
        t = s.test
        ovec = None
        if isinstance(t, ast.Compare) and len(t.ops) == 1 and isinstance(t.ops[0], (ast.Is, ast.IsNot)) and isinstance(t.left, ast.Name) \
                and t.left.id in env and env[t.left.id].b == "OVEC" and isinstance(t.comparators[0], ast.Constant) \
                and t.comparators[0].value is None:
            ovec = t.left.id
            isnone = isinstance(t.ops[0], ast.Is)
            nm = mangle(ovec)
            env_some = dict(env)
            env_some[ovec] = Val(("VEC", "flat"), nm)
            env_none = dict(env)
            del env_none[ovec]
            env_t, env_f = (env_none, env_some) if isnone else (env_some, env_none)
            ft = ff = set()

            def split(a, b):
                none_txt, some_txt = (a, b) if isnone else (b, a)
                return "match %s with None => %s | Some %s => %s end" % (env[ovec].text, none_txt, nm, some_txt)
        else:
            ct, ft, ff = self.cond(t, env, facts)
            env_t = env_f = env

            def split(a, b):
                return "if %s then %s else %s" % (ct, a, b)
        if has_exit(s.body) or has_exit(s.orelse):
            tb = list(s.body) + ([] if terminates(s.body) else list(rest))
            eb = list(s.orelse) + ([] if terminates(s.orelse) else list(rest))
            if not terminates(s.body) and not terminates(s.orelse) and rest:
                raise Reject("%s: return inside a branch that may also fall through on both sides" % _where(s))
            a = self.block(tb, env_t, facts | ft, k)
            b = self.block(eb, env_f, facts | ff, k)
            return split("\n  " + a, "\n  " + b)
        vs = self.assigned(s.body + s.orelse)
        if not vs:
            raise Reject("%s: if statement without effect" % _where(s))
        kinds = []

        def tup(e):
            for v in vs:
                if v not in e:
                    raise Reject("%s: '%s' is not bound on every path" % (_where(s), v))
            kinds.append([(e[v].kind, dict(e[v].extra)) for v in vs])
            ts = [e[v].text for v in vs]
            return ts[0] if len(ts) == 1 else "(%s)" % ", ".join(ts)
        a = self.block(list(s.body), env_t, facts | ft, tup)
        b = self.block(list(s.orelse), env_f, facts | ff, tup)
        ka, kb = kinds[0], kinds[1]
        env2 = dict(env)
        for i, v in enumerate(vs):
            if ka[i][0] != kb[i][0]:
                raise Reject("%s: '%s' has kind %s in one branch and %s in the other" % (_where(s), v, ka[i][0], kb[i][0]))
            ex = {}
            if ka[i][1].get("fresh") and kb[i][1].get("fresh"):
                ex["fresh"] = True
            env2[v] = Val(ka[i][0], mangle(v), **ex)
        pat = mangle(vs[0]) if len(vs) == 1 else "'(%s)" % ", ".join(mangle(v) for v in vs)
        facts2 = {f for f in facts if f[1] not in vs}
        return "let %s := %s in\n  %s" % (pat, split("(" + a + ")", "(" + b + ")"), self.block(list(rest), env2, facts2, k))

    # ------------------------------------------------------------------------------------------------ function
    def translate(self):
        sp, a = self.spec, self.fn.args
        if a.posonlyargs or a.defaults:
            raise Reject("%s: signature of %s not understood" % (_where(self.fn), sp["py"]))
        env, binders, prologue = {}, [], []
        names = [x.arg for x in a.args]
        if names != list(sp["params"]):
            raise Reject("%s: parameters of %s are %s, declared %s" % (_where(self.fn), sp["py"], names, list(sp["params"])))
        for n, kd in sp["params"].items():
            env[n] = Val(kd, mangle(n))
            binders.append("(%s : %s)" % (mangle(n), COQTYPE[base(kd)]))
        if (a.vararg is None) != ("vararg" not in sp):
            raise Reject("%s: *args of %s differs from the declaration" % (_where(self.fn), sp["py"]))
        if a.vararg is not None:
            env[a.vararg.arg] = Val(sp["vararg"], mangle(a.vararg.arg))
            binders.append("(%s : %s)" % (mangle(a.vararg.arg), COQTYPE[sp["vararg"]]))
        kwonly = [x.arg for x in a.kwonlyargs]
        if a.kwarg is None:
            raise Reject("%s: %s has no **kwargs" % (_where(self.fn), sp["py"]))
        kwname = a.kwarg.arg
        if sp.get("kwonly") == "dict" or not kwonly:
            # keyword-only parameters with default None are looked up in the dictionary the function is called with; the rest
            # of that dictionary is **kwargs
            if sp["kwarg"] == "DICT":
                allkw = mangle(kwname) if not kwonly else "kw_all"
                binders.append("(%s : kwargs V)" % allkw)
                restd = allkw
                for n, d in zip(kwonly, a.kw_defaults):
                    if not (isinstance(d, ast.Constant) and d.value is None):
                        raise Reject("%s: default of %s is not None" % (_where(self.fn), n))
                    prologue.append("let %s := kw_get_d pynone %s %s in" % (mangle(n), cstr(n), allkw))
                    env[n] = Val("PV", mangle(n))
                    restd = "(kw_del %s %s)" % (cstr(n), restd)
                if kwonly:
                    prologue.append("let %s := %s in" % (mangle(kwname), restd))
                env[kwname] = Val("DICT", mangle(kwname), fresh=True)     # a ** dictionary is built for this call
            else:
                env[kwname] = Val("OPQ", mangle(kwname))
        else:
            if kwonly != list(sp["kwonly"]):
                raise Reject("%s: keyword parameters of %s are %s, declared %s" % (_where(self.fn), sp["py"], kwonly, list(sp["kwonly"])))
            for n, d in zip(kwonly, a.kw_defaults):
                kd = sp["kwonly"][n]
                env[n] = Val(kd, mangle(n))
                if kd == "OVEC":
                    if not (isinstance(d, ast.Constant) and d.value is None):
                        raise Reject("%s: default of %s is not None" % (_where(self.fn), n))
                    binders.append("(%s : %s)" % (mangle(n), COQTYPE[kd]))
                elif kd != "OPQ":
                    raise Reject("keyword parameter kind %s" % kd)
            env[kwname] = Val(sp["kwarg"], mangle(kwname))

        def fallthrough(e):
            raise Reject("%s: %s may end without return" % (_where(self.fn), sp["py"]))
        body = self.block(_strip_doc(list(self.fn.body)), env, set(), fallthrough)
        rt = {"MAT": MAT_T, "RES": "result V"}[sp["ret"]]
        if sp["mode"] == "option":
            rt = "option (%s)" % rt
        pro = "".join("  %s\n" % p for p in prologue)
        return "Definition %s %s : %s :=\n%s  %s." % (sp["coq"], " ".join(binders), rt, pro, body)


def root_name(t):
    while isinstance(t, (ast.Attribute, ast.Subscript)):
        t = t.value
    return t.id if isinstance(t, ast.Name) else None


def num_text(v):
    f = Fraction(repr(v))        # the decimal literal, as written
    if f == 0:
        return "n0"
    if f == 1:
        return "n1"
    if f.denominator == 1:
        return "(nofZ (%d))" % f.numerator
    return "(ndiv (nofZ (%d)) (nofZ (%d)))" % (f.numerator, f.denominator)


def find_def(tree, name, cls=None):
    body = tree.body
    if cls:
        cs = [n for n in body if isinstance(n, ast.ClassDef) and n.name == cls]
        if len(cs) != 1:
            raise Reject("class %s not found" % cls)
        body = cs[0].body
    fs = [n for n in body if isinstance(n, ast.FunctionDef) and n.name == name]
    if len(fs) != 1:
        raise Reject("function %s%s not found (or defined twice)" % ((cls + ".") if cls else "", name))
    if fs[0].decorator_list:
        raise Reject("function %s is decorated" % name)
    return fs[0]


def nodoc_text(fn):
    fn = ast.parse(ast.unparse(fn)).body[0]
    fn.body = _strip_doc(fn.body)
    return ast.unparse(fn)


def translate_source(src):
    """-> Coq text of Gen_matgen.v.  Raises Reject."""
    tree = ast.parse(src)
    # module constant _epsilon: exactly one top-level assignment, a float literal
    eps = [n for n in tree.body if isinstance(n, ast.Assign) and any(isinstance(t, ast.Name) and t.id == "_epsilon" for t in n.targets)]
    for n in ast.walk(tree):
        if isinstance(n, (ast.Assign, ast.AugAssign, ast.AnnAssign)) and n not in eps:
            tg = n.targets if isinstance(n, ast.Assign) else [n.target]
            for t in tg:
                for x in ast.walk(t):
                    if isinstance(x, ast.Name) and x.id == "_epsilon":
                        raise Reject("%s: _epsilon is assigned elsewhere" % _where(n))
        if isinstance(n, ast.Global) and "_epsilon" in n.names:
            raise Reject("%s: global _epsilon" % _where(n))
    if len(eps) != 1 or len(eps[0].targets) != 1 or not (isinstance(eps[0].value, ast.Constant) and isinstance(eps[0].value.value, float)):
        raise Reject("module constant _epsilon is not a single float literal")
    consts = {"_epsilon": eps[0].value.value}
    # pinned primitive
    fd = nodoc_text(find_def(tree, "_filter_deprecated_kwargs"))
    if fd != PINNED_FILTER_DEPRECATED:
        raise Reject("_filter_deprecated_kwargs differs from the text the primitive MatGen.filter_deprecated stands for")
    # the names the translated code resolves globally must be the module-level functions, not rebound
    for nm in ("_scale_spectral_radius", "_scale_inputs", "_filter_deprecated_kwargs"):
        find_def(tree, nm)
    defs, done, info = [], set(), []
    defs.append("(* _epsilon = %r *)\nDefinition mg_epsilon : F := %s." % (consts["_epsilon"], num_text(consts["_epsilon"])))
    for sp in SPECS:
        fn = find_def(tree, sp["py"], sp.get("cls"))
        tr = FnTr(sp, fn, consts, done)
        d = tr.translate()
        sha = hashlib.sha256(nodoc_text(fn).encode()).hexdigest()[:16]
        com = "(* %s :: %s%s   [sha256 of the source segment %s]" % (SRC, (sp["cls"] + ".") if sp.get("cls") else "", sp["py"], sha)
        for t in tr.skipped:
            why = tr.skip.get(t, "retry with another seed when ARPACK does not converge: the oracle spectral_radius is assumed to return")
            com += "\n   skipped: %s\n            -- %s" % (t.replace("\n", "\n            ").replace("*)", "* )").replace("(*", "( *"), why)
        for t in sorted(set(tr.notes)):
            com += "\n   note: %s" % t
        com += " *)"
        defs.append(com + "\n" + d)
        done.add(sp["coq"])
    head = """(* GENERATED by tools/vlib/py2coq_mg.py (%s) from the current source of %s -- DO NOT EDIT.
   Regenerated by `./check C13` (pregen) and by setup (tools/regen.py).
   Reading: V = Python values (pynone = None, is_none v = `v is None`), a dict = association list (MatGen.kwargs V), an Initializer =
   MatGen.initializer V (copy.deepcopy = the same value; only a deep copy made by the call may be written), a call of the wrapped
   function / of _scale_spectral_radius / _scale_inputs from Initializer methods is RECORDED as a MatGen.descriptor, raise ValueError
   with a pinned message = RErr; matrices are `list (list F)` whatever their storage (dense / csr / csc / coo): `.asformat`, `.astype`,
   `np.asarray`, `.toarray` are identities; `sparse.issparse(w)` is the oracle [issparse]; `spectral_radius` is the oracle
   [spectral_radius]; the wrapped draw `w_init( *shape, k=v, **kwargs)` is the oracle w_init shape ((k, v) :: kwargs);
   _filter_deprecated_kwargs is the PINNED primitive MatGen.filter_deprecated (its source text is compared on every run).
   Statements skipped by exact text are listed above each definition with the reason. *)
From Coq Require Import List Bool Arith ZArith.
From Coq Require String.
From RV Require Import base.Num base.LA model.MatGen base.MGPrelude.
Import ListNotations.
Import String.StringSyntax.

Module GenMatGen.
Section Gen.
Variable V : Type.
Variable is_none : V -> bool.
Variable pynone : V.
Context {F : Type} `{Num F}.
Variable spectral_radius : list (list F) -> F.
Variable issparse : list (list F) -> bool.
""" % (VERSION, SRC)
    return head + "\n" + "\n\n".join(defs) + "\n\nEnd Gen.\nEnd GenMatGen.\n"


def emit(repo):
    with open(os.path.join(repo, SRC)) as f:
        return translate_source(f.read())


if __name__ == "__main__":
    import sys
    print(emit(sys.argv[1] if len(sys.argv) > 1 else "/repo"))
