"""Fail-closed translator for the INPUT VALIDATION functions of reservoirpy -> Gallina (tie (T) of property C12, DESIGN §6 / §8 C12).

Targets (SPECS below):  reservoirpy/utils/validation.py :: check_vector
                        reservoirpy/_base.py            :: check_one_sequence, check_n_sequences, _check_node_io (Node caller), check_xy (Node caller)

The functions manipulate data *descriptors*, not numbers.  The translator parses the CURRENT text of each function with `ast` (paths
under the repo root it is given: core.REPO honours VERIF_REPO) and emits coq/gen/Gen_validation.v over the descriptor type of
coq/model/Shapes.v (`data`, `res`, `exn`) and the vocabulary of coq/base/ValPrelude.v (isinstance on ndarray / Number / list,
x.shape, x.dtype, np.asarray of a number, np.atleast_2d, tuple indexing, len, the loops over a list of arrays / the rows of an array,
raise).  Anything it does not understand raises Reject: unknown call / attribute / statement shape, a changed signature, an
assignment it cannot type, a loop that is not one of the two forms below, a `return` inside a join.  It never guesses.

Kinds        DATA (descriptor) | BOOL | INT (nat) | SHAPE (tuple of ints: list nat) | OBJ (None | int | tuple: the expected dimension) |
             LIST_DATA (Python list of descriptors) | LIST_SHAPE (list of tuples of ints) | OPAQUE (the `caller` used in messages only)
Exceptions   every function returns `res`: `raise X(..)` is RErr X (the message is NOT translated), `return e` is ROk e; an operation that
             can raise (x.shape, t[i], len of an object, a call of a translated function) is a `bind`; evaluation order is kept.
Statements   x = e | L[i] = e (inside a loop over L) | l.append(e) | if/elif/else | for | raise | return | message-only statements
             (assignments to the declared message variables and `if`s made only of those; their right-hand sides may only mention
             strings, f-strings, the message variables and `caller`).
if           a branch that always raises / returns takes no continuation; otherwise the `if` is a JOIN
             bind (if c then .. ROk (vars) else .. ROk (vars)) (fun vars => rest),  vars = names assigned in a branch and read later.
             `if isinstance(v, (list, tuple))` is `match v with DList v_items => .. | _ => .. end`; len(v) and iteration over v are
             accepted only under such a match.  A test the kinds decide (hasattr(<int>, "__len__")) selects the live branch only.
for          (A)  for i in range(n): body, where body assigns L[i] for exactly one L that is either `[X[j] for j in range(len(X))]`
                  (unchanged since) or an alias `L = X` of an ndarray X: ValPrelude.for_items over the items / rows, state = the
                  variables the body assigns that exist before the loop.  X[i] and L[i] are the item variables.
             (B)  for v in <tuple>: body without assignment: ValPrelude.for_each.
pinned       the timestep test of check_n_sequences is compared textually with the text ValPrelude.timesteps_differ stands for.
"""
import ast
import hashlib
import os

VERSION = "py2coq_val 1"


class Reject(Exception):
    pass


_V = "reservoirpy/utils/validation.py"
_B = "reservoirpy/_base.py"

SPECS = [
    {"name": "check_vector", "file": _V,
     "params": [("array", "DATA"), ("allow_reshape", "BOOL"), ("allow_timespans", "BOOL"), ("caller", "OPAQUE")],
     "ret": "DATA", "msgvars": ["msg"], "locals": {}},
    {"name": "check_one_sequence", "file": _B,
     "params": [("x", "DATA"), ("expected_dim", "OBJ"), ("caller", "OPAQUE"), ("allow_timespans", "BOOL")],
     "ret": "DATA", "msgvars": ["caller_name"], "locals": {}},
    {"name": "check_n_sequences", "file": _B,
     "params": [("x", "DATA"), ("expected_dim", "OBJ"), ("allow_n_sequences", "BOOL"), ("allow_n_inputs", "BOOL"),
                ("allow_timespans", "BOOL"), ("caller", "OPAQUE")],
     "ret": "DATA", "msgvars": [], "locals": {"timesteps": "LIST_SHAPE"}},
]

COQTYPE = {"DATA": "data", "BOOL": "bool", "INT": "nat", "SHAPE": "(list nat)", "OBJ": "pyobj", "LIST_DATA": "(list data)",
           "LIST_SHAPE": "(list (list nat))"}

EXN = {"TypeError": "TypeError", "ValueError": "ValueError", "RuntimeError": "RuntimeError", "KeyError": "KeyError",
       "IndexError": "OtherError", "AttributeError": "OtherError"}

PINNED_TIMESTEPS = ("len(np.unique([len(t) for t in timesteps])) > 1 or any([len(np.unique([t[i] for t in timesteps])) > 1 "
                    "for i in range(len(timesteps[0]))])")

RESERVED = set("""fun let in if then else match with end forall exists fix return as Type Prop Set data res exn ROk RErr bind pyobj PNone
PInt PTuple obj_eqb obj_is_none obj_is_tuple obj_len obj_iter obj_get obj_of_shape tuple_get is_ndarray is_number is_node attr_shape
np_issubdtype_number np_asarray_number np_atleast_2d arr_len arr_rows arr_assign_rows for_items for_each map_res np_unique
timesteps_differ DArr DList DNum DOther DTeacher length map skipn forallb existsb negb andb orb true false tt nat list bool st S O""".split())


def _where(node):
    return "line %s" % getattr(node, "lineno", "?")


def _strip_doc(body):
    if body and isinstance(body[0], ast.Expr) and isinstance(body[0].value, ast.Constant) and isinstance(body[0].value.value, str):
        return body[1:]
    return body


def _is_name(node, name=None):
    return isinstance(node, ast.Name) and (name is None or node.id == name)


def _is_none(node):
    return isinstance(node, ast.Constant) and node.value is None


def _atom(t):
    return t if t.replace("_", "a").replace("'", "a").isalnum() else "(" + t + ")"


class Val:
    def __init__(self, kind, text, static=None):
        self.kind, self.text, self.static = kind, text, static

    def p(self):
        return _atom(self.text)


class Env:
    """vars: python name -> kind (the Coq name IS the python name: rebinding = shadowing);  facts: set of (coqname, 'array'|'number');
    items: coqname -> coq name of its item list (under a DList match);  subs: (listname, indexname) -> coq item variable;
    copy_of: L -> X when L = [X[j] for j in range(len(X))] and neither changed since;  alias: L -> X when L = X (ndarray)"""

    def __init__(self):
        self.vars, self.facts, self.items, self.subs, self.copy_of, self.alias = {}, set(), {}, {}, {}, {}

    def copy(self):
        e = Env()
        e.vars, e.facts, e.items = dict(self.vars), set(self.facts), dict(self.items)
        e.subs, e.copy_of, e.alias = dict(self.subs), dict(self.copy_of), dict(self.alias)
        return e

    def forget(self, name):
        """the Coq name `name` is about to be rebound: drop everything known about its old value"""
        e = self.copy()
        e.facts = {f for f in e.facts if f[0] != name}
        e.items.pop(name, None)
        e.copy_of = {a: b for a, b in e.copy_of.items() if a != name and b != name}
        e.alias = {a: b for a, b in e.alias.items() if a != name and b != name}
        return e

    def bind(self, name, kind, facts=()):
        e = self.forget(name)
        e.vars[name] = kind
        for f in facts:
            e.facts.add((name, f))
        return e

    def with_facts(self, facts):
        e = self.copy()
        e.facts |= set(facts)
        return e


class Ctx:
    """binds collected while translating one expression, in evaluation order"""

    def __init__(self):
        self.binds, self.facts = [], []

    def wrap(self, inner):
        for name, text in reversed(self.binds):
            inner = "bind (%s) (fun %s =>\n%s)" % (text, name, inner)
        return inner


def _reads(stmts):
    out = set()
    for s in stmts:
        for n in ast.walk(s):
            if isinstance(n, ast.Name) and isinstance(n.ctx, ast.Load):
                out.add(n.id)
    return out


def _assigned(stmts):
    """(names, subs): names (re)bound by the statements -- x = .., x.append(..), and L when a nested loop stores into L[i] --, in
    order of first appearance; subs = the L of the stores L[i] = .. that are NOT inside a nested loop.  A loop variable is local."""
    names, subs = [], []

    def walk(n, in_loop):
        if isinstance(n, ast.Assign):
            for t in n.targets:
                if isinstance(t, ast.Name):
                    names.append(t.id)
                elif isinstance(t, ast.Subscript) and isinstance(t.value, ast.Name):
                    (names if in_loop else subs).append(t.value.id)
                else:
                    raise Reject("%s: assignment target not understood" % _where(n))
        elif isinstance(n, (ast.AugAssign, ast.AnnAssign, ast.NamedExpr, ast.Delete, ast.Global, ast.Nonlocal, ast.With, ast.Try,
                            ast.While, ast.Import, ast.ImportFrom, ast.FunctionDef, ast.Lambda, ast.Yield, ast.Await)):
            raise Reject("%s: statement/expression form %s is not translated" % (_where(n), type(n).__name__))
        elif isinstance(n, ast.Expr) and isinstance(n.value, ast.Call) and isinstance(n.value.func, ast.Attribute) \
                and n.value.func.attr == "append" and isinstance(n.value.func.value, ast.Name):
            names.append(n.value.func.value.id)
        for c in ast.iter_child_nodes(n):
            walk(c, in_loop or isinstance(n, ast.For))

    for s in stmts:
        walk(s, False)
    seen, out = set(), []
    for x in names:
        if x not in seen:
            seen.add(x)
            out.append(x)
    return out, sorted(set(subs))


def _terminates(block):
    if not block:
        return False
    s = block[-1]
    if isinstance(s, (ast.Raise, ast.Return)):
        return True
    if isinstance(s, ast.If) and s.orelse:
        return _terminates(s.body) and _terminates(s.orelse)
    return False


class FnTr:
    def __init__(self, spec, fn, fns, specs):
        self.spec, self.fn, self.fns, self.specs = spec, fn, fns, specs
        self.n = 0
        self.recursive = False

    def fresh(self):
        self.n += 1
        return "t%d" % self.n

    # ------------------------------------------------------------------------------------------ messages
    def msg_test(self, t):
        if isinstance(t, ast.Compare) and len(t.ops) == 1 and isinstance(t.ops[0], (ast.Is, ast.IsNot)) \
                and _is_name(t.left, "caller") and _is_none(t.comparators[0]):
            return True
        if isinstance(t, ast.Call) and _is_name(t.func, "hasattr") and len(t.args) == 2 and _is_name(t.args[0], "caller") \
                and isinstance(t.args[1], ast.Constant) and t.args[1].value == "name":
            return True
        return False

    def msg_expr(self, e):
        mv = self.spec["msgvars"]
        if isinstance(e, ast.Constant) and isinstance(e.value, str):
            return True
        if isinstance(e, ast.JoinedStr):
            return True
        if isinstance(e, ast.Name) and e.id in mv:
            return True
        if isinstance(e, ast.Attribute) and _is_name(e.value, "caller") and e.attr == "name":
            return True
        if isinstance(e, ast.BinOp) and isinstance(e.op, ast.Add):
            return self.msg_expr(e.left) and self.msg_expr(e.right)
        if isinstance(e, ast.IfExp):
            return self.msg_test(e.test) and self.msg_expr(e.body) and self.msg_expr(e.orelse)
        return False

    def msg_stmt(self, s):
        mv = self.spec["msgvars"]
        if isinstance(s, ast.Assign) and len(s.targets) == 1 and _is_name(s.targets[0]) and s.targets[0].id in mv:
            if not self.msg_expr(s.value):
                raise Reject("%s: message variable %s is given a value that is not a plain message" % (_where(s), s.targets[0].id))
            return True
        if isinstance(s, ast.If) and self.msg_test(s.test):
            if all(self.msg_stmt(b) for b in s.body) and all(self.msg_stmt(b) for b in s.orelse):
                return True
            raise Reject("%s: an `if` on the caller that does more than build a message" % _where(s))
        return False

    # ------------------------------------------------------------------------------------------ coercions
    def to_obj(self, v, node):
        if v.kind == "OBJ":
            return v.p()
        if v.kind == "INT":
            return "(PInt %s)" % v.p()
        if v.kind == "SHAPE":
            return "(obj_of_shape %s)" % v.p()
        raise Reject("%s: an int / tuple / None is expected, got kind %s" % (_where(node), v.kind))

    def coerce(self, v, kind, node):
        if v.kind == kind:
            return v.p()
        if kind == "OBJ":
            return self.to_obj(v, node)
        if kind == "DATA" and v.kind == "LIST_DATA":
            return "(DList %s)" % v.p()
        raise Reject("%s: kind %s where %s is expected" % (_where(node), v.kind, kind))

    # ------------------------------------------------------------------------------------------ expressions
    def ex(self, node, env, ctx):
        if isinstance(node, ast.Constant):
            if node.value is True or node.value is False:
                return Val("BOOL", "true" if node.value else "false", static=node.value)
            if node.value is None:
                return Val("OBJ", "PNone")
            if isinstance(node.value, int):
                if node.value < 0:
                    raise Reject("%s: negative literal" % _where(node))
                return Val("INT", str(node.value))
            raise Reject("%s: literal %r" % (_where(node), node.value))
        if isinstance(node, ast.Name):
            if node.id not in env.vars:
                raise Reject("%s: unknown or undefined name %s" % (_where(node), node.id))
            k = env.vars[node.id]
            if k == "OPAQUE":
                raise Reject("%s: `%s` is used outside a message" % (_where(node), node.id))
            return Val(k, node.id)
        if isinstance(node, ast.Attribute):
            if node.attr == "shape":
                v = self.ex(node.value, env, ctx)
                if v.kind != "DATA":
                    raise Reject("%s: .shape of kind %s" % (_where(node), v.kind))
                t = self.fresh()
                ctx.binds.append((t, "attr_shape %s" % v.p()))
                ctx.facts.append((v.text, "array"))
                return Val("SHAPE", t)
            raise Reject("%s: attribute .%s" % (_where(node), node.attr))
        if isinstance(node, ast.Subscript):
            return self.subscript(node, env, ctx)
        if isinstance(node, ast.Tuple):
            vs = [self.ex(e, env, ctx) for e in node.elts]
            if vs and all(v.kind == "INT" for v in vs):
                return Val("SHAPE", "[" + "; ".join(v.text for v in vs) + "]")
            if vs and all(v.kind in ("OBJ", "INT", "SHAPE") for v in vs):
                return Val("OBJ", "PTuple [" + "; ".join(self.to_obj(v, node) for v in vs) + "]")
            raise Reject("%s: tuple display of kinds %s" % (_where(node), [v.kind for v in vs]))
        if isinstance(node, ast.List):
            if node.elts:
                raise Reject("%s: non-empty list display" % _where(node))
            return Val("EMPTYLIST", "[]")
        if isinstance(node, ast.UnaryOp) and isinstance(node.op, ast.Not):
            v = self.ex(node.operand, env, ctx)
            if v.kind != "BOOL":
                raise Reject("%s: `not` of kind %s" % (_where(node), v.kind))
            if v.static is not None:
                return Val("BOOL", "false" if v.static else "true", static=not v.static)
            return Val("BOOL", "negb %s" % v.p())
        if isinstance(node, ast.BoolOp):
            vs = []
            for j, e in enumerate(node.values):
                c2 = Ctx()
                v = self.ex(e, env.with_facts(ctx.facts), c2)
                if j == 0:
                    ctx.binds += c2.binds
                    ctx.facts += c2.facts
                elif c2.binds:
                    raise Reject("%s: an operand of and/or that can raise is evaluated lazily: not translated" % _where(e))
                if v.kind != "BOOL":
                    raise Reject("%s: and/or on kind %s" % (_where(e), v.kind))
                if v.static is not None:
                    raise Reject("%s: and/or with an operand decided by the kinds" % _where(e))
                vs.append(v)
            op = " && " if isinstance(node.op, ast.And) else " || "
            return Val("BOOL", op.join(v.p() for v in vs))
        if isinstance(node, ast.BinOp) and isinstance(node.op, ast.Add):
            a, b = self.ex(node.left, env, ctx), self.ex(node.right, env, ctx)
            if a.kind == "INT" and b.kind == "INT":
                return Val("INT", "%s + %s" % (a.p(), b.p()))
            raise Reject("%s: + on kinds %s, %s" % (_where(node), a.kind, b.kind))
        if isinstance(node, ast.Compare):
            return self.compare(node, env, ctx)
        if isinstance(node, ast.Call):
            return self.call(node, env, ctx)
        if isinstance(node, ast.ListComp):
            return self.listcomp(node, env, ctx)
        raise Reject("%s: expression form %s is not translated" % (_where(node), type(node).__name__))

    def subscript(self, node, env, ctx):
        sl = node.slice
        if isinstance(node.value, ast.Name) and isinstance(sl, ast.Name) and (node.value.id, sl.id) in env.subs:
            return Val("DATA", env.subs[(node.value.id, sl.id)])
        v = self.ex(node.value, env, ctx)
        if isinstance(sl, ast.Slice):
            if v.kind == "SHAPE" and sl.upper is None and sl.step is None and isinstance(sl.lower, ast.Constant) \
                    and isinstance(sl.lower.value, int) and sl.lower.value >= 0:
                return Val("SHAPE", "skipn %d %s" % (sl.lower.value, v.p()))
            raise Reject("%s: slice not understood" % _where(node))
        i = self.ex(sl, env, ctx)
        if i.kind != "INT":
            raise Reject("%s: index of kind %s" % (_where(node), i.kind))
        t = self.fresh()
        if v.kind == "SHAPE":
            ctx.binds.append((t, "tuple_get %s %s" % (v.p(), i.p())))
            return Val("INT", t)
        if v.kind == "OBJ":
            ctx.binds.append((t, "obj_get %s %s" % (v.p(), i.p())))
            return Val("OBJ", t)
        raise Reject("%s: indexing a value of kind %s" % (_where(node), v.kind))

    def compare(self, node, env, ctx):
        operands = [node.left] + list(node.comparators)
        if len(node.ops) == 1 and isinstance(node.ops[0], (ast.Is, ast.IsNot)) and _is_none(operands[1]):
            v = self.ex(operands[0], env, ctx)
            if v.kind != "OBJ":
                raise Reject("%s: `is None` on kind %s" % (_where(node), v.kind))
            t = "obj_is_none %s" % v.p()
            return Val("BOOL", t if isinstance(node.ops[0], ast.Is) else "negb (%s)" % t)
        # every operand is evaluated once, left to right.  A chained comparison is lazy from its third operand on: those operands
        # are accepted only if every raising operation in them has already been done (same text) by the first two
        vals = [self.ex(e, env, ctx) for e in operands[:2]]
        for e in operands[2:]:
            c2 = Ctx()
            vals.append(self.ex(e, env.with_facts(ctx.facts), c2))
            done = {t for _, t in ctx.binds}
            if any(t not in done for _, t in c2.binds):
                raise Reject("%s: chained comparison whose later operand can raise" % _where(node))
            ctx.binds += c2.binds
        parts = []
        for op, a, b in zip(node.ops, vals, vals[1:]):
            if a.kind == "INT" and b.kind == "INT":
                t = {ast.Eq: "%s =? %s", ast.NotEq: "negb (%s =? %s)", ast.Lt: "%s <? %s", ast.LtE: "%s <=? %s"}.get(type(op))
                if t is not None:
                    parts.append(t % (a.p(), b.p()))
                elif isinstance(op, ast.Gt):
                    parts.append("%s <? %s" % (b.p(), a.p()))
                elif isinstance(op, ast.GtE):
                    parts.append("%s <=? %s" % (b.p(), a.p()))
                else:
                    raise Reject("%s: comparison operator" % _where(node))
            elif a.kind in ("OBJ", "INT", "SHAPE") and b.kind in ("OBJ", "INT", "SHAPE") and isinstance(op, (ast.Eq, ast.NotEq)):
                t = "obj_eqb %s %s" % (self.to_obj(a, node), self.to_obj(b, node))
                parts.append(t if isinstance(op, ast.Eq) else "negb (%s)" % t)
            else:
                raise Reject("%s: comparison of kinds %s, %s" % (_where(node), a.kind, b.kind))
        return Val("BOOL", " && ".join("(%s)" % p for p in parts) if len(parts) > 1 else parts[0])

    def listcomp(self, node, env, ctx):
        if len(node.generators) != 1 or node.generators[0].ifs or node.generators[0].is_async:
            raise Reject("%s: comprehension form" % _where(node))
        g = node.generators[0]
        if not isinstance(g.target, ast.Name):
            raise Reject("%s: comprehension target" % _where(node))
        var = g.target.id
        # L = [X[j] for j in range(len(X))]: a copy of the list X
        if isinstance(node.elt, ast.Subscript) and _is_name(node.elt.value) and _is_name(node.elt.slice, var) \
                and isinstance(g.iter, ast.Call) and _is_name(g.iter.func, "range") and len(g.iter.args) == 1 \
                and isinstance(g.iter.args[0], ast.Call) and _is_name(g.iter.args[0].func, "len") \
                and len(g.iter.args[0].args) == 1 and _is_name(g.iter.args[0].args[0], node.elt.value.id):
            X = node.elt.value.id
            if env.vars.get(X) != "DATA" or X not in env.items:
                raise Reject("%s: copy of %s, which is not established to be a list" % (_where(node), X))
            v = Val("LIST_DATA", env.items[X])
            v.copy_of = X
            return v
        it = self.ex(g.iter, env, ctx)
        if it.kind == "DATA":
            if it.text not in env.items:
                raise Reject("%s: iteration over a value that is not established to be a list" % _where(node))
            items, ek = env.items[it.text], "DATA"
        elif it.kind == "SHAPE":
            items, ek = it.p(), "INT"
        elif it.kind == "LIST_DATA":
            items, ek = it.p(), "DATA"
        else:
            raise Reject("%s: iteration over kind %s" % (_where(node), it.kind))
        self.check_name(var, node)
        c2 = Ctx()
        e = self.ex(node.elt, env.bind(var, ek), c2)
        rk = {"INT": "SHAPE", "BOOL": "LIST_BOOL", "DATA": "LIST_DATA", "SHAPE": "LIST_SHAPE"}.get(e.kind)
        if rk is None:
            raise Reject("%s: comprehension of kind %s" % (_where(node), e.kind))
        if c2.binds:
            t = self.fresh()
            ctx.binds.append((t, "map_res (fun %s => %s) %s" % (var, c2.wrap("ROk %s" % e.p()), items)))
            return Val(rk, t)
        return Val(rk, "map (fun %s => %s) %s" % (var, e.text, items))

    def call(self, node, env, ctx):
        f = node.func
        src = ast.unparse(f)
        if src == "isinstance" and len(node.args) == 2 and not node.keywords:
            v = self.ex(node.args[0], env, ctx)
            cls = ast.unparse(node.args[1])
            if v.kind != "DATA":
                raise Reject("%s: isinstance on kind %s" % (_where(node), v.kind))
            if cls == "np.ndarray":
                r = Val("BOOL", "is_ndarray %s" % v.p())
                r.fact = (v.text, "array")
                return r
            if cls == "numbers.Number":
                r = Val("BOOL", "is_number %s" % v.p())
                r.fact = (v.text, "number")
                return r
            raise Reject("%s: isinstance(_, %s) outside an `if` test" % (_where(node), cls))
        if src == "hasattr" and len(node.args) == 2 and isinstance(node.args[1], ast.Constant) and node.args[1].value in ("__iter__", "__len__"):
            v = self.ex(node.args[0], env, ctx)
            if v.kind == "OBJ":
                return Val("BOOL", "obj_is_tuple %s" % v.p())
            if v.kind == "INT":
                return Val("BOOL", "false", static=False)
            if v.kind == "SHAPE":
                return Val("BOOL", "true", static=True)
            raise Reject("%s: hasattr on kind %s" % (_where(node), v.kind))
        if src == "len" and len(node.args) == 1 and not node.keywords:
            v = self.ex(node.args[0], env, ctx)
            if v.kind in ("SHAPE", "LIST_DATA", "LIST_SHAPE"):
                return Val("INT", "length %s" % v.p())
            if v.kind == "OBJ":
                t = self.fresh()
                ctx.binds.append((t, "obj_len %s" % v.p()))
                return Val("INT", t)
            if v.kind == "DATA":
                if v.text in env.items:
                    return Val("INT", "length %s" % env.items[v.text])
                if (v.text, "array") in env.facts or (v.text, "array") in ctx.facts:
                    t = self.fresh()
                    ctx.binds.append((t, "arr_len %s" % v.p()))
                    return Val("INT", t)
                raise Reject("%s: len() of a value that is neither an established list nor an established ndarray" % _where(node))
            raise Reject("%s: len of kind %s" % (_where(node), v.kind))
        if src == "np.asarray" and len(node.args) == 1 and not node.keywords:
            v = self.ex(node.args[0], env, ctx)
            if v.kind == "DATA" and (v.text, "number") in env.facts:
                r = Val("DATA", "np_asarray_number %s" % v.p())
                r.facts = ("array",)
                return r
            raise Reject("%s: np.asarray of a value not established to be a number" % _where(node))
        if src == "np.atleast_2d" and len(node.args) == 1 and not node.keywords:
            v = self.ex(node.args[0], env, ctx)
            if v.kind == "DATA" and ((v.text, "array") in env.facts or (v.text, "array") in ctx.facts):
                r = Val("DATA", "np_atleast_2d %s" % v.p())
                r.facts = ("array",)
                return r
            raise Reject("%s: np.atleast_2d of a value not established to be an ndarray" % _where(node))
        if src == "np.issubdtype" and len(node.args) == 2 and not node.keywords and ast.unparse(node.args[1]) == "np.number" \
                and isinstance(node.args[0], ast.Attribute) and node.args[0].attr == "dtype":
            v = self.ex(node.args[0].value, env, ctx)
            if v.kind != "DATA":
                raise Reject("%s: .dtype of kind %s" % (_where(node), v.kind))
            t = self.fresh()
            ctx.binds.append((t, "np_issubdtype_number %s" % v.p()))
            ctx.facts.append((v.text, "array"))
            return Val("BOOL", t)
        if src == "all" and len(node.args) == 1 and isinstance(node.args[0], ast.ListComp):
            v = self.listcomp(node.args[0], env, ctx)
            if v.kind != "LIST_BOOL":
                raise Reject("%s: all() of kind %s" % (_where(node), v.kind))
            return Val("BOOL", "forallb (fun b => b) %s" % v.p())
        if src == "tuple" and len(node.args) == 1 and not node.keywords:
            v = self.ex(node.args[0], env, ctx)
            if v.kind == "SHAPE":
                return v
            raise Reject("%s: tuple() of kind %s" % (_where(node), v.kind))
        callee = next((s for s in self.specs if s["name"] == src), None)
        if callee is not None:
            return self.call_translated(node, callee, env, ctx)
        raise Reject("%s: call of %s is not translated" % (_where(node), src))

    def call_translated(self, node, callee, env, ctx):
        cfn = self.fns[callee["name"]]
        names = [p for p, _ in callee["params"]]
        given = {}
        if len(node.args) > len(names):
            raise Reject("%s: too many arguments" % _where(node))
        for p, a in zip(names, node.args):
            given[p] = a
        for kw in node.keywords:
            if kw.arg is None or kw.arg not in names or kw.arg in given:
                raise Reject("%s: keyword %s" % (_where(node), kw.arg))
            given[kw.arg] = kw.value
        defaults = dict(zip(names[len(names) - len(cfn.args.defaults):], cfn.args.defaults))
        args = []
        for p, k in callee["params"]:
            a = given.get(p, defaults.get(p))
            if a is None:
                raise Reject("%s: argument %s of %s is missing" % (_where(node), p, callee["name"]))
            if k == "OPAQUE":
                if not (_is_none(a) or (isinstance(a, ast.Name) and env.vars.get(a.id) == "OPAQUE")):
                    raise Reject("%s: argument %s of %s" % (_where(node), p, callee["name"]))
                continue
            v = self.ex(a, env, ctx)
            args.append(self.coerce(v, k, a))
        if callee["name"] == self.spec["name"]:
            self.recursive = True
        t = self.fresh()
        ctx.binds.append((t, "%s %s" % (callee["name"], " ".join(args))))
        return Val(callee["ret"], t)

    # ------------------------------------------------------------------------------------------ statements
    def assigned(self, stmts):
        names, subs = _assigned(stmts)
        return [n for n in names if n not in self.spec["msgvars"]], subs

    def check_name(self, name, node):
        if name in RESERVED or name.startswith("t") and name[1:].isdigit():
            raise Reject("%s: the name %s clashes with the vocabulary" % (_where(node), name))

    def tup(self, names):
        if not names:
            return "tt"
        return names[0] if len(names) == 1 else "(" + ", ".join(names) + ")"

    def pat(self, names):
        if not names:
            return "_"
        return names[0] if len(names) == 1 else "'(" + ", ".join(names) + ")"

    def block(self, stmts, env, k, live, can_return):
        if not stmts:
            return k(env)
        s, rest = stmts[0], stmts[1:]
        live_rest = _reads(rest) | live

        def cont(e):
            return self.block(rest, e, k, live, can_return)

        if self.msg_stmt(s):
            return cont(env)
        if isinstance(s, ast.Expr) and isinstance(s.value, ast.Constant) and isinstance(s.value.value, str):
            return cont(env)
        if isinstance(s, ast.Raise):
            if rest:
                raise Reject("%s: code after raise" % _where(s))
            e = s.exc
            name = e.func.id if isinstance(e, ast.Call) and isinstance(e.func, ast.Name) else (e.id if isinstance(e, ast.Name) else None)
            if name not in EXN or s.cause is not None:
                raise Reject("%s: raise of %s" % (_where(s), ast.unparse(e) if e is not None else "nothing"))
            return "RErr %s" % EXN[name]
        if isinstance(s, ast.Return):
            if rest:
                raise Reject("%s: code after return" % _where(s))
            if not can_return:
                raise Reject("%s: return inside a join / loop body" % _where(s))
            if s.value is None:
                raise Reject("%s: bare return" % _where(s))
            ctx = Ctx()
            v = self.ex(s.value, env, ctx)
            return ctx.wrap("ROk %s" % self.coerce(v, self.spec["ret"], s))
        if isinstance(s, ast.Assign):
            return self.assign(s, env, cont)
        if isinstance(s, ast.Expr):
            c = s.value
            if isinstance(c, ast.Call) and isinstance(c.func, ast.Attribute) and c.func.attr == "append" and _is_name(c.func.value) \
                    and len(c.args) == 1 and not c.keywords:
                L = c.func.value.id
                if env.vars.get(L) != "LIST_SHAPE":
                    raise Reject("%s: append to %s of kind %s" % (_where(s), L, env.vars.get(L)))
                ctx = Ctx()
                v = self.ex(c.args[0], env, ctx)
                if v.kind != "SHAPE":
                    raise Reject("%s: appending kind %s" % (_where(s), v.kind))
                return ctx.wrap("let %s := %s ++ [%s] in\n%s" % (L, L, v.text, cont(env.with_facts(ctx.facts).bind(L, "LIST_SHAPE"))))
            raise Reject("%s: expression statement %s" % (_where(s), ast.unparse(s)[:60]))
        if isinstance(s, ast.If):
            return self.tr_if(s, rest, env, k, live, can_return)
        if isinstance(s, ast.For):
            return self.tr_for(s, rest, env, k, live, can_return)
        raise Reject("%s: statement form %s is not translated" % (_where(s), type(s).__name__))

    def assign(self, s, env, cont):
        if len(s.targets) != 1:
            raise Reject("%s: multiple assignment" % _where(s))
        tg = s.targets[0]
        ctx = Ctx()
        if isinstance(tg, ast.Subscript):
            if not (_is_name(tg.value) and _is_name(tg.slice) and (tg.value.id, tg.slice.id) in env.subs):
                raise Reject("%s: store into %s outside a loop over it" % (_where(s), ast.unparse(tg)))
            item = env.subs[(tg.value.id, tg.slice.id)]
            v = self.ex(s.value, env, ctx)
            txt = self.coerce(v, "DATA", s)
            e2 = env.with_facts(ctx.facts).bind(item, "DATA", getattr(v, "facts", ()))
            return ctx.wrap("let %s := %s in\n%s" % (item, txt, cont(e2)))
        if not isinstance(tg, ast.Name):
            raise Reject("%s: assignment target" % _where(s))
        name = tg.id
        self.check_name(name, s)
        if env.vars.get(name) == "OPAQUE" or name in self.spec["msgvars"]:
            raise Reject("%s: assignment to %s" % (_where(s), name))
        # alias of an ndarray: L = X
        if isinstance(s.value, ast.Name) and env.vars.get(s.value.id) == "DATA":
            X = s.value.id
            e2 = env.bind(name, "DATA", [f for (n, f) in env.facts if n == X])
            if X in env.items:
                e2.items[name] = env.items[X]
            e2.alias[name] = X
            return "let %s := %s in\n%s" % (name, X, cont(e2))
        v = self.ex(s.value, env, ctx)
        kind = v.kind
        if kind == "EMPTYLIST":
            kind = self.spec["locals"].get(name)
            if kind is None:
                raise Reject("%s: empty list assigned to %s, whose kind is not declared" % (_where(s), name))
        if kind not in COQTYPE:
            raise Reject("%s: a value of kind %s is assigned to %s" % (_where(s), kind, name))
        e2 = env.with_facts(ctx.facts).bind(name, kind, getattr(v, "facts", ()))
        if getattr(v, "copy_of", None):
            e2.copy_of[name] = v.copy_of
        if len(ctx.binds) == 1 and ctx.binds[0][0] == v.text and ctx.binds[-1][0].startswith("t"):
            # x = <one raising operation>: bind it directly under the Python name
            return "bind (%s) (fun %s =>\n%s)" % (ctx.binds[0][1], name, cont(self.retarget(e2, v.text, name)))
        return ctx.wrap("let %s := %s in\n%s" % (name, v.text, cont(e2)))

    def retarget(self, env, old, new):
        e = env.copy()
        e.facts = {(new if n == old else n, f) for n, f in e.facts}
        return e

    def islist_test(self, test, env):
        """`isinstance(v, (list, tuple))` with v a DATA variable or a loop item: the Coq variable, else None"""
        if isinstance(test, ast.Call) and _is_name(test.func, "isinstance") and len(test.args) == 2 and not test.keywords \
                and ast.unparse(test.args[1]) in ("(list, tuple)", "(tuple, list)"):
            ctx = Ctx()
            v = self.ex(test.args[0], env, ctx)
            if ctx.binds or v.kind != "DATA" or not v.text.replace("_", "a").isalnum():
                raise Reject("%s: isinstance(_, (list, tuple)) on something that is not a data variable" % _where(test))
            return v.text
        return None

    def cond_facts(self, test):
        """(facts if true, facts if false) for isinstance tests on ndarray / Number, through `not`"""
        if isinstance(test, ast.UnaryOp) and isinstance(test.op, ast.Not):
            a, b = self.cond_facts(test.operand)
            return b, a
        if isinstance(test, ast.Call) and _is_name(test.func, "isinstance") and len(test.args) == 2 and _is_name(test.args[0]):
            cls = ast.unparse(test.args[1])
            if cls == "np.ndarray":
                return [(test.args[0].id, "array")], []
            if cls == "numbers.Number":
                return [(test.args[0].id, "number")], []
        return [], []

    def tr_if(self, s, rest, env, k, live, can_return):
        live_rest = _reads(rest) | live
        v = self.islist_test(s.test, env)
        ctx = Ctx()
        if v is not None:
            items = v + "_items"
            self.check_name(items, s)
            env_t = env.copy()
            env_t.items[v] = items
            env_f = env
            shape = ("match %s with\n| DList %s =>\n" % (v, items), "\n| _ =>\n", "\nend")
        else:
            if ast.unparse(s.test) == PINNED_TIMESTEPS:
                if env.vars.get("timesteps") != "LIST_SHAPE":
                    raise Reject("%s: pinned timestep test on a `timesteps` of kind %s" % (_where(s), env.vars.get("timesteps")))
                t = self.fresh()
                ctx.binds.append((t, "timesteps_differ timesteps"))
                c = Val("BOOL", t)
            else:
                c = self.ex(s.test, env, ctx)
            if c.kind != "BOOL":
                raise Reject("%s: `if` on kind %s" % (_where(s), c.kind))
            if c.static is not None:
                live_branch = s.body if c.static else s.orelse
                return ctx.wrap(self.block(list(live_branch) + list(rest), env.with_facts(ctx.facts), k, live, can_return))
            ft, ff = self.cond_facts(s.test)
            env_t = env.with_facts(ctx.facts).with_facts(ft)
            env_f = env.with_facts(ctx.facts).with_facts(ff)
            shape = ("if %s then\n" % c.text, "\nelse\n", "")
        tt, tf = _terminates(s.body), _terminates(s.orelse)

        def dead(e):
            raise Reject("%s: internal: continuation of a terminating branch" % _where(s))

        if tt or tf:
            if tt:
                A = self.block(list(s.body), env_t, dead, set(), can_return)
            else:
                A = self.block(list(s.body) + list(rest), env_t, k, live, can_return)
            if tf:
                B = self.block(list(s.orelse), env_f, dead, set(), can_return)
            else:
                B = self.block(list(s.orelse) + list(rest), env_f, k, live, can_return)
            return ctx.wrap(shape[0] + A + shape[1] + B + shape[2])
        # join
        names, subs = self.assigned(list(s.body) + list(s.orelse))
        sub_items = []
        for L in subs:
            hits = [it for (l, i), it in env.subs.items() if l == L]
            if len(hits) != 1:
                raise Reject("%s: store into %s inside a branch, outside a loop over it" % (_where(s), L))
            sub_items.append(hits[0])
        jv = [n for n in names if n in live_rest] + sub_items
        ends = []

        def kend(e):
            outs = []
            for n in jv:
                if n not in e.vars:
                    raise Reject("%s: %s is read later but is not defined on every path of this `if`" % (_where(s), n))
                kd = e.vars[n]
                if kd == "LIST_DATA":
                    outs.append("DList %s" % n)
                    kd = "DATA"
                else:
                    outs.append(n)
                ends.append((n, kd, frozenset(f for (m, f) in e.facts if m == n)))
            if not outs:
                return "ROk tt"
            return "ROk %s" % (_atom(outs[0]) if len(outs) == 1 else "(" + ", ".join(outs) + ")")

        A = self.block(list(s.body), env_t, kend, live_rest, False)
        B = self.block(list(s.orelse), env_f, kend, live_rest, False)
        e2 = env.with_facts(ctx.facts)
        for n in jv:
            kinds = {kd for (m, kd, _) in ends if m == n}
            if len(kinds) != 1:
                raise Reject("%s: %s has kinds %s on the paths of this `if`" % (_where(s), n, sorted(kinds)))
            facts = None
            for (m, _, fs) in ends:
                if m == n:
                    facts = set(fs) if facts is None else facts & fs
            e2 = e2.bind(n, kinds.pop(), facts or ())
        return ctx.wrap("bind (%s)\n(fun %s =>\n%s)" % (shape[0] + A + shape[1] + B + shape[2], self.pat(jv),
                                                          self.block(rest, e2, k, live, can_return)))

    def tr_for(self, s, rest, env, k, live, can_return):
        if s.orelse or not isinstance(s.target, ast.Name):
            raise Reject("%s: for/else or a target that is not a name" % _where(s))
        live_rest = _reads(rest) | live
        var = s.target.id
        self.check_name(var, s)
        names, subs = self.assigned(s.body)
        it = s.iter
        if isinstance(it, ast.Call) and _is_name(it.func, "range") and len(it.args) == 1 and not it.keywords:
            # form (A)
            if len(subs) != 1:
                raise Reject("%s: a loop over range() must store into exactly one list / array (found %s)" % (_where(s), subs))
            L = subs[0]
            ctx = Ctx()
            if env.vars.get(L) == "LIST_DATA" and L in env.copy_of:
                X, mode, items = env.copy_of[L], "list", L
            elif env.vars.get(L) == "DATA" and L in env.alias and (env.alias[L], "array") in env.facts:
                X, mode, items = env.alias[L], "array", "arr_rows %s" % env.alias[L]
            else:
                raise Reject("%s: %s is neither a fresh copy of a list nor an alias of an ndarray" % (_where(s), L))
            n = self.ex(it.args[0], env, ctx)
            if n.kind != "INT":
                raise Reject("%s: range() of kind %s" % (_where(s), n.kind))
            if var in env.vars:
                raise Reject("%s: the loop variable %s is already in use" % (_where(s), var))
            xi, li = "%s_%s" % (X, var), "%s_%s" % (L, var)
            for nm in (xi, li):
                self.check_name(nm, s)
                if nm in env.vars:
                    raise Reject("%s: the name %s is already in use" % (_where(s), nm))
            state = [v for v in names if v in env.vars and v != var]
            if L in names or X in names or var in names[1:] or names.count(var) > 1:
                raise Reject("%s: the loop rebinds %s, %s or its own variable" % (_where(s), L, X))
            envb = env.with_facts(ctx.facts).bind(var, "INT")
            envb = envb.bind(xi, "DATA").bind(li, "DATA")
            envb.subs[(X, var)] = xi
            envb.subs[(L, var)] = li
            # inside the body L and X are reachable through their items only
            del envb.vars[L]
            if X in envb.vars:
                del envb.vars[X]

            def kbody(e):
                for v in state:
                    if e.vars.get(v) != env.vars[v]:
                        raise Reject("%s: the loop changes the kind of %s" % (_where(s), v))
                return "ROk (%s, %s)" % (li, self.tup(state))

            body = self.block(list(s.body), envb, kbody, set(state), False)
            stpat = "" if not state else "let %s := st in\n" % self.pat(state)
            loop = "for_items (fun %s %s st =>\nlet %s := %s in\n%s%s)\n0 %s %s %s" % (
                var, xi, li, xi, stpat, body, n.p(), _atom(items), self.tup(state))
            e2 = env.with_facts(ctx.facts)
            for v in state:
                e2 = e2.bind(v, env.vars[v])
            r = self.fresh()
            if mode == "list":
                e2 = e2.bind(L, "LIST_DATA")
                after = "let %s := fst %s in\n%s%s" % (L, r, "" if not state else "let %s := snd %s in\n" % (self.pat(state), r),
                                                      self.block(rest, e2, k, live, can_return))
            else:
                e2 = e2.bind(L, "DATA", ("array",))
                del e2.vars[X]                     # X was written through its alias: not read again
                if X in live_rest:
                    raise Reject("%s: %s is read after being written through its alias %s" % (_where(s), X, L))
                after = "%sbind (arr_assign_rows %s (fst %s)) (fun %s =>\n%s)" % (
                    "" if not state else "let %s := snd %s in\n" % (self.pat(state), r), X, r, L,
                    self.block(rest, e2, k, live, can_return))
            return ctx.wrap("bind (%s)\n(fun %s =>\n%s)" % (loop, r, after))
        # form (B)
        if names or subs:
            raise Reject("%s: a loop over a tuple that assigns %s" % (_where(s), names + subs))
        ctx = Ctx()
        v = self.ex(it, env, ctx)
        if v.kind == "OBJ":
            t = self.fresh()
            ctx.binds.append((t, "obj_iter %s" % v.p()))
            items, ek = t, "OBJ"
        elif v.kind == "SHAPE":
            items, ek = v.p(), "INT"
        else:
            raise Reject("%s: iteration over kind %s" % (_where(s), v.kind))
        if var in env.vars:
            raise Reject("%s: the loop variable %s is already in use" % (_where(s), var))
        body = self.block(list(s.body), env.with_facts(ctx.facts).bind(var, ek), lambda e: "ROk tt", set(), False)
        return ctx.wrap("bind (for_each (fun %s =>\n%s)\n%s)\n(fun _ =>\n%s)" % (
            var, body, items, self.block(rest, env.with_facts(ctx.facts), k, live, can_return)))

    # ------------------------------------------------------------------------------------------ function
    def translate(self):
        fn, spec = self.fn, self.spec
        a = fn.args
        if a.vararg or a.kwarg or a.kwonlyargs or a.posonlyargs:
            raise Reject("%s: signature of %s" % (_where(fn), spec["name"]))
        names = [x.arg for x in a.args]
        if names != [p for p, _ in spec["params"]]:
            raise Reject("signature of %s changed: %s" % (spec["name"], names))
        for d in a.defaults:
            if not (isinstance(d, ast.Constant) and (d.value is None or isinstance(d.value, (bool, str)))):
                raise Reject("%s: default value %s" % (_where(d), ast.unparse(d)))
        env = Env()
        for p, kd in spec["params"]:
            self.check_name(p, fn)
            env.vars[p] = kd

        def kfall(e):
            raise Reject("%s can reach its end without return" % spec["name"])

        body = self.block(_strip_doc(list(fn.body)), env, kfall, set(), True)
        params = " ".join("(%s : %s)" % (p, COQTYPE[kd]) for p, kd in spec["params"] if kd != "OPAQUE")
        if self.recursive:
            first = next(p for p, kd in spec["params"] if kd == "DATA")
            head = "Fixpoint %s %s {struct %s} : res %s :=" % (spec["name"], params, first, COQTYPE[spec["ret"]])
        else:
            head = "Definition %s %s : res %s :=" % (spec["name"], params, COQTYPE[spec["ret"]])
        return head + "\n" + body + "."


def _indent(text):
    """cosmetic: indent by the nesting of parentheses / match..end at the start of each line"""
    out, depth = [], 0
    for line in text.split("\n"):
        s = line.strip()
        d = depth
        if s.startswith(("|", "end", "else")) or s.startswith(")"):
            d = max(0, d - 1)
        out.append("  " * min(d + 1, 40) + s)
        depth += s.count("(") - s.count(")")
        depth += len([w for w in s.replace("(", " ").replace(")", " ").split() if w == "match"]) \
            - len([w for w in s.replace("(", " ").replace(")", " ").split() if w == "end"])
        depth = max(depth, 0)
    return "\n".join(out)


def load(repo, specs=None):
    specs = SPECS if specs is None else specs
    srcs, fns, shas = {}, {}, {}
    for spec in specs:
        path = os.path.join(repo, spec["file"])
        if spec["file"] not in srcs:
            with open(path) as f:
                srcs[spec["file"]] = f.read()
        src = srcs[spec["file"]]
        try:
            tree = ast.parse(src)
        except SyntaxError as ex:
            raise Reject("%s does not parse: %s" % (spec["file"], ex))
        cands = [n for n in tree.body if isinstance(n, ast.FunctionDef) and n.name == spec["name"]]
        if len(cands) != 1:
            raise Reject("%s: %d definitions of %s" % (spec["file"], len(cands), spec["name"]))
        if cands[0].decorator_list:
            raise Reject("%s: %s is decorated" % (spec["file"], spec["name"]))
        fns[spec["name"]] = cands[0]
        seg = ast.get_source_segment(src, cands[0])
        shas[spec["name"]] = hashlib.sha256(seg.encode()).hexdigest()
    return fns, shas


def emit(repo, specs=None):
    specs = SPECS if specs is None else specs
    fns, shas = load(repo, specs)
    out = ["(* GENERATED by tools/vlib/py2coq_val.py (%s) from the current source of reservoirpy -- do not edit." % VERSION,
           "   Regenerated at the start of every ./check C12; vocabulary: coq/base/ValPrelude.v; descriptor types: coq/model/Shapes.v.",
           "   Exception messages are not translated; `caller` only feeds messages and is dropped."]
    for spec in specs:
        out.append("   %s :: %s   sha256 %s" % (spec["file"], spec["name"], shas[spec["name"]]))
    out.append("*)")
    out.append("From Coq Require Import List Arith Bool.")
    out.append("From RV Require Import model.Shapes base.ValPrelude.")
    out.append("Import ListNotations.")
    out.append("")
    for spec in specs:
        tr = FnTr(spec, fns[spec["name"]], fns, specs)
        text = tr.translate()
        head, _, body = text.partition("\n")
        out.append("(* %s :: %s *)" % (spec["file"], spec["name"]))
        out.append(head)
        out.append(_indent(body))
        out.append("")
    return "\n".join(out)


if __name__ == "__main__":
    import sys
    repo = sys.argv[1] if len(sys.argv) > 1 else os.environ.get("VERIF_REPO", "/repo")
    try:
        sys.stdout.write(emit(repo))
    except Reject as ex:
        sys.stderr.write("REJECT: %s\n" % ex)
        sys.exit(2)
