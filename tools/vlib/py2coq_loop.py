"""Fail-closed translator for the ONLINE TRAINING LOOP of reservoirpy -> Gallina (tie (T) of property C10, DESIGN §6 / §8 C10).

Targets   reservoirpy/_base.py :: train        the per-timestep loop: target from the teacher node or Y[i], call (or the current state),
                                               set_state_proxy under force_teachers, node._train iff i % learn_every == 0 or seq_len == 1,
                                               states[i, :] = s  -- inside `with node.with_state(from_state, stateful=, reset=)`
          reservoirpy/node.py  :: Node.train   the wrapper: is_trained_online, check_xy, first-use initialisation, the loop, and the
                                               teacher un-registration in `finally`

The translator parses the CURRENT text with `ast` (paths under core.REPO, which honours VERIF_REPO) and emits coq/gen/Gen_trainloop.v over the
vocabulary of coq/base/LoopPrelude.v.  The node object (parameters, state, proxy, teacher: everything a statement can change) is one explicit
value `w : W` threaded through every statement that has an effect; the operations ON the node are Section variables of the generated file
(the learning step `node._train(node, x=, y=)`, the forward call `call(node, x)`, `node.state()`, `node._teacher()`, `node.set_state_proxy(y)`,
`node.output_dim`, and the context manager `node.with_state(..)` as a combinator applied to the translated `with` body -- its meaning is C08's).
This is a STATEMENT translator, not a template: the order of the statements, the conditions, what is read before what is written come out
of the source text.  Everything it does not understand raises Reject; it never guesses.

  statements   docstring | x = e (local; re-binding allowed) | M[i, :] = s (M created by np.zeros in this function) |
               if / elif / else (the variables assigned in a branch are merged; one that may stay unbound is rejected) |
               for i in <range>: (the variables assigned in the body that exist before the loop are carried; a variable of the body read before
               it is assigned in the SAME iteration is rejected; no break / continue / else) |
               with node.with_state(from_state, stateful=stateful, reset=reset): | node.set_state_proxy(y) | node._train(node, x=x, y=y) |
               return e (last statement of the function only)
  expressions  names | None | A.shape[0] | range(n) | progress(range(n), <text>) | a if c else b | a > b, a == b (ints) | i % k |
               b1 or b2, b1 and b2, not b | v is None, v is not None | node._teacher is (not) None | np.zeros((r, c)) | node.output_dim |
               np.atleast_2d(A[i, :]) | node._teacher() | call(node, x) | node.state()
"""
import ast
import hashlib
import os
import warnings

from vlib.py2coq_la import Reject

VERSION = "py2coq_loop 1"

_BASE = "reservoirpy/_base.py"
_NODE = "reservoirpy/node.py"
_UTILS = "reservoirpy/utils/__init__.py"

# kind -> Gallina type
COQTYPE = {"NAT": "nat", "BOOL": "bool", "ROW": "list F", "OPTROW": "option (list F)", "MAT": "list (list F)", "OPTMAT": "option (list (list F))",
           "RANGE": "list nat"}
OPT_OF = {"ROW": "OPTROW", "MAT": "OPTMAT"}
UNOPT = {"OPTROW": "ROW", "OPTMAT": "MAT"}

PINNED_PROGRESS = "def progress(it, *args, **kwargs):\n    if VERBOSITY > 0:\n        return tqdm(it, *args, **kwargs)\n    else:\n        return it"

TRAIN_SPEC = {
    "file": _BASE, "name": "train", "coq": "train",
    "params": [("node", "NODE"), ("X", "MAT"), ("Y", "OPTMAT"), ("call_node", "BOOL"), ("force_teachers", "BOOL"), ("learn_every", "NAT"),
               ("from_state", "OPTROW"), ("stateful", "BOOL"), ("reset", "BOOL")],
    "defaults": ["None", "True", "True", "1", "None", "True", "False"], "ret": "MAT",
}
# defaults the Section function base_call stands for: call(node, x) = call(node, x, from_state=None, stateful=True, reset=False)
CALL_PARAMS = ["node", "x", "from_state", "stateful", "reset"]
CALL_DEFAULTS = ["None", "True", "False"]

SECTION_VARS = [
    ("W", "Type", "the node object and everything reachable from it (parameters, state, state proxy, teacher)"),
    ("node_output_dim", "W -> nat", "node.output_dim"),
    ("node_has_teacher", "W -> bool", "node._teacher is not None"),
    ("node_teacher_call", "W -> W * list F", "node._teacher()"),
    ("base_call", "W -> list F -> W * list F", "_base.call(node, x): one forward step, the node's state becomes the result"),
    ("node_state", "W -> list F", "node.state()"),
    ("node_set_state_proxy", "W -> option (list F) -> W", "node.set_state_proxy(y)"),
    ("node_train", "W -> list F -> option (list F) -> W", "node._train(node, x=x, y=y): the learning step of the node"),
    ("node_with_state", "forall A : Type, W -> option (list F) -> bool -> bool -> (W -> W * A) -> W * A",
     "with node.with_state(from_state, stateful=, reset=): <body>   (the context manager of C08 applied to the translated body)"),
]

NODE_TRAIN_SPEC = {
    "file": _NODE, "cls": "Node", "name": "train", "coq": "node_method_train",
    "params": [("self", "NODE"), ("X", "UX"), ("Y", "UY"), ("force_teachers", "BOOL"), ("call", "BOOL"), ("learn_every", "NAT"),
               ("from_state", "OPTROW"), ("stateful", "BOOL"), ("reset", "BOOL")],
    "defaults": ["None", "True", "True", "1", "None", "True", "False"], "ret": "MAT",
}
# keyword arguments that are part of the MEANING of the Section function node_check_xy
CHECK_XY_KEYWORDS = {"allow_n_sequences": "False", "allow_n_inputs": "False"}
SECTION_VARS2 = [
    ("UX", "Type", "what the user passes as X (array, list, ...) before check_xy"),
    ("UY", "Type", "what the user passes as Y (None, array, a teacher node, ...) before check_xy"),
    ("node_is_trained_online", "W -> bool", "self.is_trained_online"),
    ("node_check_xy", "W -> UX -> UY -> outcome W (list (list F) * option (list (list F)))",
     "check_xy(self, X, Y, allow_n_sequences=False, allow_n_inputs=False): raises, or returns the checked arrays (Y_ is None when Y is None or a node, "
     "which it registers as the teacher)"),
    ("node_is_initialized", "W -> bool", "self._is_initialized"),
    ("py_hasattr_iter", "UY -> bool", 'hasattr(Y, "__iter__")'),
    ("node_initialize", "W -> list F -> option (list F) -> outcome W unit", "self.initialize(x=, y=)"),
    ("node_initialize_buffers", "W -> outcome W unit", "self.initialize_buffers()"),
    ("node_unregister_teacher", "W -> W", "self._unregister_teacher()"),
]
COQTYPE.update({"UX": "UX", "UY": "UY"})

RESERVED = set("""w fun let in if then else match with end forall exists Some None true false nat list bool option negb andb orb fst snd tt unit
Type Prop Set F W fix struct return as at cofix using where""".split()) | {n for n, _, _ in SECTION_VARS} | {n for n, _, _ in SECTION_VARS2} | {
    "Done", "Raised", "obind", "py_try_finally", "py_index0", "py_opt_index0", "TypeError", "IndexError", "outcome", "train", "node_method_train",
    "np_shape0", "py_range", "py_progress", "py_for", "np_zeros2", "np_row", "np_atleast_2d_row", "np_set_row", "py_mod", "py_eq", "py_gt"}


def _where(node):
    return "line %s" % getattr(node, "lineno", "?")


def _strip_doc(body):
    if body and isinstance(body[0], ast.Expr) and isinstance(body[0].value, ast.Constant) and isinstance(body[0].value.value, str):
        return body[1:]
    return body


def _is_name(node, name=None):
    return isinstance(node, ast.Name) and (name is None or node.id == name)


class Val:
    def __init__(self, kind, text, owned=False):
        self.kind, self.text, self.owned = kind, text, owned

    def p(self):
        t = self.text
        return t if t.replace("_", "a").replace("'", "a").isalnum() else "(" + t + ")"


def join_kind(a, b, what):
    if a == b:
        return a
    for x, y in ((a, b), (b, a)):
        if x == "NONE" and y in OPT_OF:
            return OPT_OF[y]
        if x == "NONE" and y in UNOPT:
            return y
        if x in OPT_OF and y == OPT_OF[x]:
            return y
    raise Reject("%s has kind %s on one path and %s on another" % (what, a, b))


def coerce(v, kind, what):
    """text of the value v seen at kind `kind`"""
    if v.kind == kind:
        return v.text
    if v.kind == "NONE" and kind in UNOPT:
        return v.text             # the constant None, or a local bound to it
    if kind in UNOPT and UNOPT[kind] == v.kind:
        return "Some %s" % v.p()
    raise Reject("%s: a %s where a %s is expected" % (what, v.kind, kind))


def pack(names):
    if not names:
        return "tt"
    return names[0] if len(names) == 1 else "(" + ", ".join(names) + ")"


def let_pat(names):
    if not names:
        return "_"
    return names[0] if len(names) == 1 else "'(" + ", ".join(names) + ")"


class Block:
    """result of translating a statement list"""

    def __init__(self, lines, env, assigned, effect):
        self.lines, self.env, self.assigned, self.effect = lines, env, assigned, effect


class FnTr:
    def __init__(self, spec, fn, module_defs):
        self.spec, self.fn, self.module_defs = spec, fn, module_defs
        self.node = None          # the Python name of the node parameter
        self.nt = 0
        self.used = set()         # Section variables used

    def ident(self, n, node):
        if not n.replace("_", "a").isalnum() or n in RESERVED or n[0].isdigit():
            raise Reject("%s: name %r cannot be used as a Gallina identifier" % (_where(node), n))
        return n

    def fresh(self):
        self.nt += 1
        return "t%d" % self.nt

    def sv(self, name):
        self.used.add(name)
        return name

    # ------------------------------------------------------------------ expressions -> (pre lines, Val, effect)
    def is_node_attr(self, node, attr):
        return isinstance(node, ast.Attribute) and _is_name(node.value, self.node) and node.attr == attr

    def pure(self, node, env, what):
        pre, v, eff = self.ex(node, env)
        if pre or eff:
            raise Reject("%s: %s must not have an effect: %s" % (_where(node), what, ast.unparse(node)))
        return v

    def ex(self, node, env):
        if isinstance(node, ast.Name):
            if node.id == self.node:
                raise Reject("%s: the node object used as a value: %s" % (_where(node), node.id))
            if node.id in env:
                return [], env[node.id], False
            raise Reject("%s: unknown (or possibly unbound) name %r" % (_where(node), node.id))
        if isinstance(node, ast.Constant):
            if node.value is None:
                return [], Val("NONE", "None"), False
            if type(node.value) is int and node.value >= 0:
                return [], Val("NAT", str(node.value)), False
            raise Reject("%s: constant outside the vocabulary: %r" % (_where(node), node.value))
        if isinstance(node, ast.IfExp):
            c = self.pure(node.test, env, "the condition of a conditional expression")
            if c.kind != "BOOL":
                raise Reject("%s: condition of kind %s" % (_where(node), c.kind))
            a = self.pure(node.body, env, "an arm of a conditional expression")
            b = self.pure(node.orelse, env, "an arm of a conditional expression")
            k = join_kind(a.kind, b.kind, "%s: the conditional expression" % _where(node))
            return [], Val(k, "if %s then %s else %s" % (c.text, coerce(a, k, _where(node)), coerce(b, k, _where(node)))), False
        if isinstance(node, ast.UnaryOp) and isinstance(node.op, ast.Not):
            v = self.pure(node.operand, env, "the operand of `not`")
            if v.kind != "BOOL":
                raise Reject("%s: `not` on a %s" % (_where(node), v.kind))
            return [], Val("BOOL", "negb %s" % v.p()), False
        if isinstance(node, ast.BoolOp):
            vs = [self.pure(x, env, "an operand of and/or") for x in node.values]
            if any(v.kind != "BOOL" for v in vs):
                raise Reject("%s: and/or on %s (only booleans: Python's and/or return an OPERAND)" % (_where(node), [v.kind for v in vs]))
            op = " || " if isinstance(node.op, ast.Or) else " && "
            return [], Val("BOOL", op.join(v.p() for v in vs)), False
        if isinstance(node, ast.Compare) and len(node.ops) == 1:
            return self.compare(node, env)
        if isinstance(node, ast.BinOp) and isinstance(node.op, ast.Mod):
            a = self.pure(node.left, env, "an operand of %")
            b = self.pure(node.right, env, "an operand of %")
            if (a.kind, b.kind) != ("NAT", "NAT"):
                raise Reject("%s: %% on (%s, %s)" % (_where(node), a.kind, b.kind))
            return [], Val("NAT", "py_mod %s %s" % (a.p(), b.p())), False
        if isinstance(node, ast.Subscript):
            # A.shape[0]
            if (isinstance(node.value, ast.Attribute) and node.value.attr == "shape" and isinstance(node.slice, ast.Constant)
                    and node.slice.value == 0 and type(node.slice.value) is int):
                a = self.pure(node.value.value, env, "the array of .shape")
                if a.kind != "MAT":
                    raise Reject("%s: .shape[0] of a %s" % (_where(node), a.kind))
                return [], Val("NAT", "np_shape0 %s" % a.p()), False
            raise Reject("%s: subscript outside the vocabulary: %s" % (_where(node), ast.unparse(node)))
        if isinstance(node, ast.Attribute):
            if self.is_node_attr(node, "output_dim"):
                return [], Val("NAT", "%s w" % self.sv("node_output_dim")), False
            raise Reject("%s: attribute outside the vocabulary: %s" % (_where(node), ast.unparse(node)))
        if isinstance(node, ast.Call):
            return self.call(node, env)
        raise Reject("%s: expression outside the vocabulary: %s" % (_where(node), ast.unparse(node)))

    def compare(self, node, env):
        op, left, right = node.ops[0], node.left, node.comparators[0]
        if isinstance(op, (ast.Is, ast.IsNot)) and isinstance(right, ast.Constant) and right.value is None:
            if self.is_node_attr(left, "_teacher"):
                t = "%s w" % self.sv("node_has_teacher")
                return [], Val("BOOL", t if isinstance(op, ast.IsNot) else "negb (%s)" % t), False
            v = self.pure(left, env, "the operand of `is None`")
            if v.kind not in UNOPT:
                raise Reject("%s: `is None` on a %s" % (_where(node), v.kind))
            t = "match %s with None => true | Some _ => false end" % v.text
            return [], Val("BOOL", t if isinstance(op, ast.Is) else "negb (%s)" % t), False
        if isinstance(op, (ast.Gt, ast.Eq)):
            a = self.pure(left, env, "an operand of a comparison")
            b = self.pure(right, env, "an operand of a comparison")
            if (a.kind, b.kind) != ("NAT", "NAT"):
                raise Reject("%s: comparison of (%s, %s)" % (_where(node), a.kind, b.kind))
            return [], Val("BOOL", "%s %s %s" % ("py_gt" if isinstance(op, ast.Gt) else "py_eq", a.p(), b.p())), False
        raise Reject("%s: comparison outside the vocabulary: %s" % (_where(node), ast.unparse(node)))

    def text_only(self, node):
        """an argument that is only a message: a string constant or an f-string reading attributes of the node"""
        if isinstance(node, ast.Constant) and isinstance(node.value, str):
            return True
        if isinstance(node, ast.JoinedStr):
            for v in node.values:
                if isinstance(v, ast.Constant):
                    continue
                if isinstance(v, ast.FormattedValue) and v.format_spec is None and (
                        isinstance(v.value, ast.Attribute) and _is_name(v.value.value, self.node) and v.value.attr == "name"):
                    continue
                return False
            return True
        return False

    def call(self, node, env):
        f = node.func
        if any(isinstance(a, ast.Starred) for a in node.args) or any(k.arg is None for k in node.keywords):
            raise Reject("%s: */** argument: %s" % (_where(node), ast.unparse(node)))
        # range(n)
        if _is_name(f, "range") and len(node.args) == 1 and not node.keywords:
            n = self.pure(node.args[0], env, "the bound of range")
            if n.kind != "NAT":
                raise Reject("%s: range of a %s" % (_where(node), n.kind))
            return [], Val("RANGE", "py_range %s" % n.p()), False
        # progress(<range>, <text>)
        if _is_name(f, "progress") and len(node.args) >= 1 and not node.keywords:
            if not self.module_defs.get("progress_pinned"):
                raise Reject("%s: progress is not the pinned `from .utils import progress`" % _where(node))
            it = self.pure(node.args[0], env, "the iterable of progress")
            if it.kind != "RANGE" or not all(self.text_only(a) for a in node.args[1:]):
                raise Reject("%s: progress(..) outside the vocabulary: %s" % (_where(node), ast.unparse(node)))
            return [], Val("RANGE", "py_progress %s" % it.p()), False
        # np.zeros((r, c))
        if (isinstance(f, ast.Attribute) and _is_name(f.value, "np") and f.attr == "zeros" and len(node.args) == 1 and not node.keywords
                and isinstance(node.args[0], ast.Tuple) and len(node.args[0].elts) == 2):
            r = self.pure(node.args[0].elts[0], env, "a dimension")
            c = self.pure(node.args[0].elts[1], env, "a dimension")
            if (r.kind, c.kind) != ("NAT", "NAT"):
                raise Reject("%s: np.zeros of (%s, %s)" % (_where(node), r.kind, c.kind))
            return [], Val("MAT", "np_zeros2 %s %s" % (r.p(), c.p()), owned=True), False
        # np.atleast_2d(A[i, :])
        if isinstance(f, ast.Attribute) and _is_name(f.value, "np") and f.attr == "atleast_2d" and len(node.args) == 1 and not node.keywords:
            a = node.args[0]
            if isinstance(a, ast.Subscript):
                arr, i = self.row_index(a, env)
                return [], Val("ROW", "np_atleast_2d_row (np_row %s %s)" % (arr.p(), i.p())), False
            raise Reject("%s: np.atleast_2d of something else than A[i, :]: %s" % (_where(node), ast.unparse(node)))
        # node._teacher()
        if self.is_node_attr(f, "_teacher") and not node.args and not node.keywords:
            t = self.fresh()
            return ["let '(w, %s) := %s w in" % (t, self.sv("node_teacher_call"))], Val("ROW", t), True
        # node.state()
        if self.is_node_attr(f, "state") and not node.args and not node.keywords:
            return [], Val("ROW", "%s w" % self.sv("node_state")), False
        # call(node, x)
        if _is_name(f, "call"):
            if not self.module_defs.get("call_ok"):
                raise Reject("%s: `call` is not the module's own one-step call(node, x, from_state=None, stateful=True, reset=False)" % _where(node))
            if len(node.args) != 2 or node.keywords or not _is_name(node.args[0], self.node):
                raise Reject("%s: the forward call must be call(%s, <x>): %s" % (_where(node), self.node, ast.unparse(node)))
            x = self.pure(node.args[1], env, "the input of call")
            if x.kind != "ROW":
                raise Reject("%s: call on a %s" % (_where(node), x.kind))
            t = self.fresh()
            return ["let '(w, %s) := %s w %s in" % (t, self.sv("base_call"), x.p())], Val("ROW", t), True
        raise Reject("%s: call outside the vocabulary: %s" % (_where(node), ast.unparse(node)))

    def row_index(self, sub, env):
        """A[i, :] -> (Val of A (MAT), Val of i (NAT))"""
        sl = sub.slice
        if not (isinstance(sl, ast.Tuple) and len(sl.elts) == 2 and isinstance(sl.elts[1], ast.Slice)
                and sl.elts[1].lower is None and sl.elts[1].upper is None and sl.elts[1].step is None):
            raise Reject("%s: index outside the vocabulary (only A[i, :]): %s" % (_where(sub), ast.unparse(sub)))
        arr = self.pure(sub.value, env, "the indexed array")
        i = self.pure(sl.elts[0], env, "the row index")
        if arr.kind != "MAT" or i.kind != "NAT":
            raise Reject("%s: %s indexed by a %s%s" % (_where(sub), arr.kind, i.kind,
                                                       " (an optional array can only be indexed where `is not None` is established)" if arr.kind == "OPTMAT" else ""))
        if not getattr(i, "loopvar", False):
            raise Reject("%s: the row index must be the variable of an enclosing `for .. in range(..)` (never negative)" % _where(sub))
        return arr, i

    # ------------------------------------------------------------------ statements
    def bind(self, env, name, val, node):
        c = self.ident(name, node)
        env = dict(env)
        nv = Val(val.kind, c, owned=val.owned)
        env[name] = nv
        return env

    def block(self, stmts, env, top=False):
        lines, assigned, effect = [], [], False
        env = dict(env)
        for idx, s in enumerate(stmts):
            if isinstance(s, ast.Return):
                raise Reject("%s: return outside the last position of the function" % _where(s))
            if isinstance(s, ast.Assign):
                if len(s.targets) != 1:
                    raise Reject("%s: multiple assignment targets" % _where(s))
                tg = s.targets[0]
                if isinstance(tg, ast.Name):
                    if tg.id == self.node or getattr(env.get(tg.id), "loopvar", False) or getattr(env.get(tg.id), "param", False):
                        raise Reject("%s: assignment to the parameter / loop variable %s" % (_where(s), tg.id))
                    pre, v, eff = self.ex(s.value, env)
                    if v.kind == "RANGE" and eff:
                        raise Reject("%s: iterable with an effect" % _where(s))
                    lines += pre
                    effect = effect or eff
                    env = self.bind(env, tg.id, v, s)
                    lines.append("let %s := %s in" % (env[tg.id].text, v.text))
                    if tg.id not in assigned:
                        assigned.append(tg.id)
                    continue
                if isinstance(tg, ast.Subscript) and isinstance(tg.value, ast.Name):
                    arr, i = self.row_index(tg, env)
                    if not arr.owned:
                        raise Reject("%s: row assignment into an array this function does not own (it may alias a caller's array)" % _where(s))
                    pre, v, eff = self.ex(s.value, env)
                    if v.kind != "ROW":
                        raise Reject("%s: a %s assigned to a row" % (_where(s), v.kind))
                    lines += pre
                    effect = effect or eff
                    lines.append("let %s := np_set_row %s %s %s in" % (arr.text, arr.p(), i.p(), v.p()))
                    if tg.value.id not in assigned:
                        assigned.append(tg.value.id)
                    continue
                raise Reject("%s: assignment target outside the vocabulary: %s" % (_where(s), ast.unparse(tg)))
            if isinstance(s, ast.If):
                b = self.if_stmt(s, env)
            elif isinstance(s, ast.For):
                b = self.for_stmt(s, env)
            elif isinstance(s, ast.With):
                b = self.with_stmt(s, env)
            elif isinstance(s, ast.Expr):
                b = self.expr_stmt(s, env)
            else:
                raise Reject("%s: statement outside the vocabulary: %s" % (_where(s), ast.unparse(s).splitlines()[0]))
            lines += b.lines
            env = b.env
            effect = effect or b.effect
            for n in b.assigned:
                if n not in assigned:
                    assigned.append(n)
        return Block(lines, env, assigned, effect)

    @staticmethod
    def indent(lines):
        return ["  " + ln for ln in lines]

    def expr_stmt(self, s, env):
        e = s.value
        if isinstance(e, ast.Call) and isinstance(e.func, ast.Attribute) and _is_name(e.func.value, self.node):
            if any(isinstance(a, ast.Starred) for a in e.args) or any(k.arg is None for k in e.keywords):
                raise Reject("%s: */** argument" % _where(s))
            # node.set_state_proxy(y)
            if e.func.attr == "set_state_proxy" and len(e.args) == 1 and not e.keywords:
                y = self.pure(e.args[0], env, "the argument of set_state_proxy")
                return Block(["let w := %s w %s in" % (self.sv("node_set_state_proxy"), self.par(coerce(y, "OPTROW", _where(s))))], env, [], True)
            # node._train(node, x=x, y=y)
            if e.func.attr == "_train":
                kw = {k.arg: k.value for k in e.keywords}
                if len(e.args) != 1 or not _is_name(e.args[0], self.node) or sorted(kw) != ["x", "y"] or len(e.keywords) != 2:
                    raise Reject("%s: the learning step must be %s._train(%s, x=.., y=..): %s" % (_where(s), self.node, self.node, ast.unparse(e)))
                x = self.pure(kw["x"], env, "x of the learning step")
                y = self.pure(kw["y"], env, "y of the learning step")
                if x.kind != "ROW":
                    raise Reject("%s: x of the learning step is a %s" % (_where(s), x.kind))
                return Block(["let w := %s w %s %s in" % (self.sv("node_train"), x.p(), self.par(coerce(y, "OPTROW", _where(s))))], env, [], True)
        raise Reject("%s: expression statement outside the vocabulary: %s" % (_where(s), ast.unparse(s)))

    @staticmethod
    def par(t):
        return t if t.replace("_", "a").replace("'", "a").isalnum() else "(" + t + ")"

    def if_stmt(self, s, env):
        # `v is not None` / `v is None` on an optional local: a match that gives the branch the unwrapped value
        unwrap = None
        t = s.test
        if (isinstance(t, ast.Compare) and len(t.ops) == 1 and isinstance(t.ops[0], (ast.Is, ast.IsNot)) and isinstance(t.left, ast.Name)
                and isinstance(t.comparators[0], ast.Constant) and t.comparators[0].value is None and t.left.id in env
                and env[t.left.id].kind in UNOPT):
            unwrap = (t.left.id, isinstance(t.ops[0], ast.IsNot))
        if unwrap:
            name, some_is_then = unwrap
            v = env[name]
            env_some = dict(env)
            inner = Val(UNOPT[v.kind], v.text, owned=False)
            inner.param = getattr(v, "param", False)
            env_some[name] = inner
            b_some = self.block(s.body if some_is_then else s.orelse, env_some)
            b_none = self.block(s.orelse if some_is_then else s.body, env)
            if name in b_some.assigned:
                raise Reject("%s: %s is re-assigned under its own `is not None` test" % (_where(s), name))
            b_some.env = dict(b_some.env)
            b_some.env[name] = v
            b_then, b_else = (b_some, b_none) if some_is_then else (b_none, b_some)
        else:
            c = self.pure(t, env, "the condition of an if")
            if c.kind != "BOOL":
                raise Reject("%s: condition of kind %s (truthiness of a non-boolean is outside the vocabulary)" % (_where(s), c.kind))
            b_then, b_else = self.block(s.body, env), self.block(s.orelse, env)
        outs = list(b_then.assigned) + [n for n in b_else.assigned if n not in b_then.assigned]
        effect = b_then.effect or b_else.effect
        kinds = {}
        for n in outs:
            if n not in b_then.env or n not in b_else.env:
                raise Reject("%s: %s is assigned on one path of the if only and is unbound on the other" % (_where(s), n))
            kinds[n] = join_kind(b_then.env[n].kind, b_else.env[n].kind, "%s: %s" % (_where(s), n))
        names = (["w"] if effect else []) + [self.ident(n, s) for n in outs]
        if not names:
            return Block([], env, [], False)

        def tail(b):
            return pack((["w"] if effect else []) + [self.par(coerce(b.env[n], kinds[n], _where(s))) if kinds[n] != b.env[n].kind else b.env[n].text
                                                     for n in outs])
        if unwrap:
            name, some_is_then = unwrap
            head = "match %s with" % env[name].text
            lines = ["let %s := %s" % (let_pat(names), head),
                     "| Some %s =>" % env[name].text] + self.indent(b_some.lines + [tail(b_some)]) + [
                     "| None =>"] + self.indent(b_none.lines + [tail(b_none)]) + ["end in"]
        else:
            lines = ["let %s := if %s then" % (let_pat(names), c.text)] + self.indent(b_then.lines + [tail(b_then)]) + [
                "else"] + self.indent(b_else.lines + [tail(b_else)]) + ["in"]
        env2 = dict(env)
        for n in outs:
            nv = Val(kinds[n], n, owned=b_then.env[n].owned and b_else.env[n].owned)
            env2[n] = nv
        return Block(lines, env2, outs, effect)

    def for_stmt(self, s, env):
        if s.orelse or not isinstance(s.target, ast.Name):
            raise Reject("%s: for loop outside the vocabulary" % _where(s))
        for n in ast.walk(s):
            if isinstance(n, (ast.Break, ast.Continue)):
                raise Reject("%s: break / continue" % _where(n))
        it = self.pure(s.iter, env, "the iterable of a for")
        if it.kind != "RANGE":
            raise Reject("%s: for over a %s" % (_where(s), it.kind))
        i = s.target.id
        if i in env or i == self.node:
            raise Reject("%s: the loop variable %s shadows another name" % (_where(s), i))
        env_b = dict(env)
        iv = Val("NAT", self.ident(i, s))
        iv.loopvar = True
        env_b[i] = iv
        b = self.block(s.body, env_b)
        carried = [n for n in b.assigned if n in env]
        for n in carried:
            if b.env[n].kind != env[n].kind:
                raise Reject("%s: the loop-carried variable %s changes kind (%s -> %s)" % (_where(s), n, env[n].kind, b.env[n].kind))
        names = (["w"] if b.effect else []) + [self.ident(n, s) for n in carried]
        if not names:
            raise Reject("%s: a loop without any effect" % _where(s))
        st = pack(names)
        pat = names[0] if len(names) == 1 else "'" + st
        lines = ["let %s := py_for %s (fun %s %s =>" % (let_pat(names), it.p(), iv.text, pat)] + self.indent(
            b.lines + [pack((["w"] if b.effect else []) + [b.env[n].text for n in carried]) + ")"]) + ["  %s in" % st]
        env2 = dict(env)
        for n in carried:
            env2[n] = Val(env[n].kind, n, owned=env[n].owned and b.env[n].owned)
        # the loop variable and the variables first assigned in the body are NOT in scope after the loop (fail closed: Python keeps them)
        return Block(lines, env2, carried, b.effect)

    def with_stmt(self, s, env):
        if len(s.items) != 1 or s.items[0].optional_vars is not None:
            raise Reject("%s: with statement outside the vocabulary" % _where(s))
        e = s.items[0].context_expr
        if not (isinstance(e, ast.Call) and self.is_node_attr(e.func, "with_state")):
            raise Reject("%s: context manager outside the vocabulary: %s" % (_where(s), ast.unparse(e)))
        kw = [k.arg for k in e.keywords]
        if len(e.args) != 1 or kw != ["stateful", "reset"]:
            raise Reject("%s: expected %s.with_state(<from_state>, stateful=.., reset=..), found %s" % (_where(s), self.node, ast.unparse(e)))
        fs = self.pure(e.args[0], env, "from_state")
        sf = self.pure(e.keywords[0].value, env, "stateful")
        rs = self.pure(e.keywords[1].value, env, "reset")
        if sf.kind != "BOOL" or rs.kind != "BOOL":
            raise Reject("%s: stateful / reset of kinds %s / %s" % (_where(s), sf.kind, rs.kind))
        b = self.block(s.body, env)
        outs = list(b.assigned)
        if not outs:
            raise Reject("%s: a with block that binds nothing" % _where(s))
        names = ["w"] + [self.ident(n, s) for n in outs]
        lines = ["let %s := %s _ w %s %s %s (fun w =>" % (let_pat(names), self.sv("node_with_state"), self.par(coerce(fs, "OPTROW", _where(s))),
                                                          sf.p(), rs.p())] + self.indent(
            b.lines + ["(w, %s))" % pack([b.env[n].text for n in outs])]) + ["in"]
        env2 = dict(env)
        for n in outs:
            env2[n] = Val(b.env[n].kind, n, owned=b.env[n].owned)
        return Block(lines, env2, outs, True)

    # ------------------------------------------------------------------ whole function
    def translate(self):
        a = self.fn.args
        if a.vararg or a.kwonlyargs or a.posonlyargs or a.kwarg:
            raise Reject("unsupported parameter list")
        got = [x.arg for x in a.args]
        want = [n for n, _ in self.spec["params"]]
        if got != want:
            raise Reject("parameters %s, declared %s" % (got, want))
        dflt = [ast.unparse(d) for d in a.defaults]
        if dflt != self.spec["defaults"]:
            raise Reject("default values %s, declared %s" % (dflt, self.spec["defaults"]))
        env, params = {}, []
        for n, k in self.spec["params"]:
            if k == "NODE":
                self.node = n
                params.append("(w : W)")
                continue
            c = self.ident(n, self.fn)
            v = Val(k, c)
            v.param = True
            env[n] = v
            params.append("(%s : %s)" % (c, COQTYPE[k]))
        body = _strip_doc(self.fn.body)
        if not body or not isinstance(body[-1], ast.Return) or body[-1].value is None:
            raise Reject("the function does not end with `return <value>`")
        b = self.block(body[:-1], env)
        r = self.pure(body[-1].value, b.env, "the returned value")
        if r.kind != self.spec["ret"]:
            raise Reject("returns a %s, declared %s" % (r.kind, self.spec["ret"]))
        if not b.effect:
            raise Reject("the function has no effect on the node")
        text = "\n".join(self.indent(b.lines + ["(w, %s)" % r.text]))
        return params, text, "W * %s" % COQTYPE[r.kind]



# ---------------------------------------------------------------------------------------------------- the wrapper Node.train (statements that raise)
class MTr:
    """Node.train -> Gallina in the `outcome` monad of LoopPrelude.v.  Continuation-passing: what follows an `if` is translated once per branch,
    so no merging of variables is needed and a `raise` simply has no continuation.
      statements   docstring | if c: .. [else: ..] | raise TypeError(..) | a, b = check_xy(self, X, Y, allow_n_sequences=False, allow_n_inputs=False) |
                   x = e | self.initialize(x=.., y=..) | self.initialize_buffers() | v = train(self, .., <keywords>) (the translated loop) |
                   try: .. finally: self._unregister_teacher() | return v (last)
      expressions  names | None | not b | self.is_trained_online | self._is_initialized | hasattr(Y, "__iter__") | np.atleast_2d(A[0])"""

    def __init__(self, spec, fn, imports_ok):
        self.spec, self.fn, self.imports_ok = spec, fn, imports_ok
        self.node = None
        self.nt = 0
        self.used = set()

    ident = FnTr.ident
    par = staticmethod(FnTr.par)

    def fresh(self):
        self.nt += 1
        return "t%d" % self.nt

    def sv(self, name):
        self.used.add(name)
        return name

    def is_self_attr(self, node, attr):
        return isinstance(node, ast.Attribute) and _is_name(node.value, self.node) and node.attr == attr

    # -> (wrappers [(open, close)], Val)
    def ex(self, node, env):
        if isinstance(node, ast.Name):
            if node.id == self.node:
                raise Reject("%s: the node object used as a value" % _where(node))
            if node.id in env:
                return [], env[node.id]
            raise Reject("%s: unknown (or possibly unbound) name %r" % (_where(node), node.id))
        if isinstance(node, ast.Constant) and node.value is None:
            return [], Val("NONE", "None")
        if isinstance(node, ast.UnaryOp) and isinstance(node.op, ast.Not):
            pre, v = self.ex(node.operand, env)
            if v.kind != "BOOL" or pre:
                raise Reject("%s: `not` on a %s" % (_where(node), v.kind))
            return [], Val("BOOL", "negb %s" % v.p())
        if self.is_self_attr(node, "is_trained_online"):
            return [], Val("BOOL", "%s w" % self.sv("node_is_trained_online"))
        if self.is_self_attr(node, "_is_initialized"):
            return [], Val("BOOL", "%s w" % self.sv("node_is_initialized"))
        if isinstance(node, ast.Call):
            f = node.func
            if any(isinstance(a, ast.Starred) for a in node.args) or any(k.arg is None for k in node.keywords):
                raise Reject("%s: */** argument: %s" % (_where(node), ast.unparse(node)))
            # hasattr(Y, "__iter__")
            if (_is_name(f, "hasattr") and len(node.args) == 2 and not node.keywords and isinstance(node.args[1], ast.Constant)
                    and node.args[1].value == "__iter__"):
                pre, v = self.ex(node.args[0], env)
                if v.kind != "UY" or pre:
                    raise Reject("%s: hasattr(.., '__iter__') on a %s" % (_where(node), v.kind))
                return [], Val("BOOL", "%s %s" % (self.sv("py_hasattr_iter"), v.p()))
            # np.atleast_2d(A[0])
            if (isinstance(f, ast.Attribute) and _is_name(f.value, "np") and f.attr == "atleast_2d" and len(node.args) == 1 and not node.keywords
                    and isinstance(node.args[0], ast.Subscript) and isinstance(node.args[0].slice, ast.Constant)
                    and type(node.args[0].slice.value) is int and node.args[0].slice.value == 0):
                pre, a = self.ex(node.args[0].value, env)
                if pre or a.kind not in ("MAT", "OPTMAT"):
                    raise Reject("%s: [0] of a %s" % (_where(node), a.kind))
                t = self.fresh()
                prim = "py_index0" if a.kind == "MAT" else "py_opt_index0"
                return [("obind (%s w %s) (fun w %s =>" % (prim, a.p(), t), ")")], Val("ROW", "np_atleast_2d_row %s" % t)
        raise Reject("%s: expression outside the vocabulary: %s" % (_where(node), ast.unparse(node)))

    @staticmethod
    def wrap(pre, inner):
        out = inner
        for o, c in reversed(pre):
            out = "%s\n%s%s" % (o, out, c)
        return out

    def block(self, stmts, env, k):
        """k: env -> text of what follows the block on normal completion"""
        if not stmts:
            return k(env)
        s, rest = stmts[0], stmts[1:]

        def after(env2):
            return self.block(rest, env2, k)
        if isinstance(s, ast.Raise):
            if rest:
                raise Reject("%s: statements after a raise" % _where(s))
            e = s.exc
            if not (isinstance(e, ast.Call) and _is_name(e.func, "TypeError")) or s.cause is not None:
                raise Reject("%s: raise of something else than TypeError(..)" % _where(s))
            return "Raised w TypeError"
        if isinstance(s, ast.If):
            pre, c = self.ex(s.test, env)
            if pre or c.kind != "BOOL":
                raise Reject("%s: condition outside the vocabulary" % _where(s))
            return "if %s then\n%s\nelse\n%s" % (c.text, self.block(s.body, env, after), self.block(s.orelse, env, after))
        if isinstance(s, ast.Try):
            return self.try_stmt(s, rest, env, k)
        if isinstance(s, ast.Assign) and len(s.targets) == 1:
            tg, v = s.targets[0], s.value
            # X_, Y_ = check_xy(self, X, Y, allow_n_sequences=False, allow_n_inputs=False)
            if isinstance(tg, ast.Tuple) and isinstance(v, ast.Call) and _is_name(v.func, "check_xy"):
                if not self.imports_ok.get("check_xy"):
                    raise Reject("%s: check_xy is not `from ._base import check_xy`" % _where(s))
                kw = {kk.arg: ast.unparse(kk.value) for kk in v.keywords}
                if (len(v.args) != 3 or not _is_name(v.args[0], self.node) or kw != CHECK_XY_KEYWORDS or len(v.keywords) != len(kw)
                        or len(tg.elts) != 2 or not all(isinstance(e, ast.Name) for e in tg.elts)):
                    raise Reject("%s: expected a, b = check_xy(%s, X, Y, allow_n_sequences=False, allow_n_inputs=False), found %s" % (
                        _where(s), self.node, ast.unparse(s)))
                _, x = self.ex(v.args[1], env)
                _, y = self.ex(v.args[2], env)
                if (x.kind, y.kind) != ("UX", "UY"):
                    raise Reject("%s: check_xy on (%s, %s)" % (_where(s), x.kind, y.kind))
                a, b = tg.elts[0].id, tg.elts[1].id
                if a in env or b in env or a == b:
                    raise Reject("%s: check_xy re-binds %s / %s" % (_where(s), a, b))
                env2 = dict(env)
                env2[a], env2[b] = Val("MAT", self.ident(a, s)), Val("OPTMAT", self.ident(b, s))
                t = self.fresh()
                return "obind (%s w %s %s) (fun w %s => let '(%s, %s) := %s in\n%s)" % (self.sv("node_check_xy"), x.p(), y.p(), t, a, b, t, after(env2))
            if isinstance(tg, ast.Name):
                if tg.id == self.node or getattr(env.get(tg.id), "param", False):
                    raise Reject("%s: assignment to the parameter %s" % (_where(s), tg.id))
                # v = train(self, X_, Y_, call_node=.., ...)
                if isinstance(v, ast.Call) and _is_name(v.func, "train"):
                    if not self.imports_ok.get("train"):
                        raise Reject("%s: train is not `from ._base import train`" % _where(s))
                    names = [n for n, _ in TRAIN_SPEC["params"]]
                    if any(isinstance(a, ast.Starred) for a in v.args) or any(kk.arg is None for kk in v.keywords):
                        raise Reject("%s: */** argument" % _where(s))
                    got = dict(zip(names, v.args))
                    for kk in v.keywords:
                        if kk.arg in got or kk.arg not in names:
                            raise Reject("%s: argument %s of train given twice / unknown" % (_where(s), kk.arg))
                        got[kk.arg] = kk.value
                    if len(v.args) > len(names) or set(got) != set(names):
                        raise Reject("%s: every argument of train must be given explicitly; missing %s" % (_where(s), sorted(set(names) - set(got))))
                    if not _is_name(got[names[0]], self.node):
                        raise Reject("%s: train on something else than %s" % (_where(s), self.node))
                    args = []
                    for n, kind in TRAIN_SPEC["params"][1:]:
                        pre, a = self.ex(got[n], env)
                        if pre:
                            raise Reject("%s: argument %s of train can raise" % (_where(s), n))
                        args.append(self.par(coerce(a, kind, "%s: argument %s of train" % (_where(s), n))))
                    env2 = dict(env)
                    env2[tg.id] = Val(TRAIN_SPEC["ret"], self.ident(tg.id, s))
                    return "let '(w, %s) := train w %s in\n%s" % (tg.id, " ".join(args), after(env2))
                pre, val = self.ex(v, env)
                env2 = dict(env)
                env2[tg.id] = Val(val.kind, self.ident(tg.id, s))
                return self.wrap(pre, "let %s := %s in\n%s" % (tg.id, val.text, after(env2)))
            raise Reject("%s: assignment outside the vocabulary: %s" % (_where(s), ast.unparse(s)))
        if isinstance(s, ast.Expr) and isinstance(s.value, ast.Call) and isinstance(s.value.func, ast.Attribute) and _is_name(s.value.func.value, self.node):
            e = s.value
            if any(isinstance(a, ast.Starred) for a in e.args) or any(kk.arg is None for kk in e.keywords):
                raise Reject("%s: */** argument" % _where(s))
            if e.func.attr == "initialize" and not e.args and [kk.arg for kk in e.keywords] == ["x", "y"]:
                px, x = self.ex(e.keywords[0].value, env)
                py, y = self.ex(e.keywords[1].value, env)
                if px or py or x.kind != "ROW":
                    raise Reject("%s: initialize(x=, y=) outside the vocabulary" % _where(s))
                return "obind (%s w %s %s) (fun w _ =>\n%s)" % (self.sv("node_initialize"), x.p(), self.par(coerce(y, "OPTROW", _where(s))), after(env))
            if e.func.attr == "initialize_buffers" and not e.args and not e.keywords:
                return "obind (%s w) (fun w _ =>\n%s)" % (self.sv("node_initialize_buffers"), after(env))
        raise Reject("%s: statement outside the vocabulary: %s" % (_where(s), ast.unparse(s).splitlines()[0]))

    def try_stmt(self, s, rest, env, k):
        if s.handlers or s.orelse or not s.finalbody:
            raise Reject("%s: only try / finally is in the vocabulary" % _where(s))
        fin = []
        for f in s.finalbody:
            if (isinstance(f, ast.Expr) and isinstance(f.value, ast.Call) and self.is_self_attr(f.value.func, "_unregister_teacher")
                    and not f.value.args and not f.value.keywords):
                fin.append(self.sv("node_unregister_teacher"))
            else:
                raise Reject("%s: statement outside the vocabulary in a finally block: %s" % (_where(f), ast.unparse(f)))
        inner = "w"
        for g in fin:
            inner = "%s %s" % (g, inner if inner == "w" else "(" + inner + ")")
        fin_text = "(fun w => %s)" % inner
        for n in ast.walk(s):
            if isinstance(n, ast.Return):
                raise Reject("%s: return inside try" % _where(n))
        # what the try body hands to the statements after it: the names it assigns that are read later
        assigned = []
        for st in s.body:
            for n in ast.walk(st):
                if isinstance(n, ast.Name) and isinstance(n.ctx, ast.Store) and n.id not in assigned:
                    assigned.append(n.id)
        later = {n.id for st in list(rest) + [self.fn.body[-1]] for n in ast.walk(st) if isinstance(n, ast.Name) and isinstance(n.ctx, ast.Load)}
        outs = [n for n in assigned if n in later]
        if len(outs) != 1:
            raise Reject("%s: the try block must hand exactly one variable to what follows, found %s" % (_where(s), outs))
        o = outs[0]
        kinds = []

        def tail(env2):
            if o not in env2:
                raise Reject("%s: %s may be unbound after the try block" % (_where(s), o))
            kinds.append(env2[o].kind)
            return "Done w %s" % env2[o].p()
        body = self.block(s.body, env, tail)
        if len(set(kinds)) != 1:
            raise Reject("%s: %s has kinds %s at the end of the try block" % (_where(s), o, kinds))
        env3 = dict(env)
        env3[o] = Val(kinds[0], self.ident(o, s))
        return "obind (py_try_finally (\n%s)\n%s) (fun w %s =>\n%s)" % (body, fin_text, o, self.block(rest, env3, k))

    def translate(self):
        a = self.fn.args
        if a.vararg or a.kwonlyargs or a.posonlyargs or a.kwarg:
            raise Reject("unsupported parameter list")
        got = [x.arg for x in a.args]
        want = [n for n, _ in self.spec["params"]]
        if got != want:
            raise Reject("parameters %s, declared %s" % (got, want))
        dflt = [ast.unparse(d) for d in a.defaults]
        if dflt != self.spec["defaults"]:
            raise Reject("default values %s, declared %s" % (dflt, self.spec["defaults"]))
        env, params = {}, []
        for n, kd in self.spec["params"]:
            if kd == "NODE":
                self.node = n
                params.append("(w : W)")
                continue
            v = Val(kd, self.ident(n, self.fn))
            v.param = True
            env[n] = v
            params.append("(%s : %s)" % (v.text, COQTYPE[kd]))
        body = _strip_doc(self.fn.body)
        if not body or not isinstance(body[-1], ast.Return) or body[-1].value is None:
            raise Reject("the function does not end with `return <value>`")

        def ret(env2):
            pre, r = self.ex(body[-1].value, env2)
            if pre or r.kind != self.spec["ret"]:
                raise Reject("returns a %s, declared %s" % (r.kind, self.spec["ret"]))
            return "Done w %s" % r.p()
        text = self.block(body[:-1], env, ret)
        return params, text, "outcome W (%s)" % COQTYPE[self.spec["ret"]]


def find_method(tree, cls, name):
    cs = [n for n in tree.body if isinstance(n, ast.ClassDef) and n.name == cls]
    if len(cs) != 1:
        raise Reject("class %s: %d top-level definitions" % (cls, len(cs)))
    hits = [n for n in cs[0].body if isinstance(n, ast.FunctionDef) and n.name == name]
    if len(hits) != 1 or hits[0].decorator_list:
        raise Reject("method %s.%s: %d definitions / decorated" % (cls, name, len(hits)))
    return hits[0]


def check_node_module(tree):
    bound = module_bindings(tree)
    ok = {}
    if bound.get("np") != ["import numpy"]:
        raise Reject("%s: np must be bound exactly by `import numpy as np`, found %s" % (_NODE, bound.get("np")))
    for name in ("train", "check_xy"):
        ok[name] = bound.get(name) == ["from ._base import %s" % name]
    for name in ("hasattr", "TypeError", "None", "True", "False"):
        if name in bound:
            raise Reject("%s: builtin %s is rebound at module level" % (_NODE, name))
    return ok


# ---------------------------------------------------------------------------------------------------- module-level checks
def parse(repo, rel):
    try:
        src = open(os.path.join(repo, rel)).read()
        with warnings.catch_warnings():
            warnings.simplefilter("ignore")
            return src, ast.parse(src)
    except (OSError, SyntaxError) as ex:
        raise Reject("%s: cannot read/parse: %s" % (rel, ex))


def find_function(tree, name):
    hits = [n for n in tree.body if isinstance(n, ast.FunctionDef) and n.name == name]
    if len(hits) != 1:
        raise Reject("function %s: %d top-level definitions" % (name, len(hits)))
    if hits[0].decorator_list:
        raise Reject("function %s is decorated" % name)
    return hits[0]


def module_bindings(tree):
    """name -> list of the ways it is bound at module level (top-level statements only; `if TYPE_CHECKING:` blocks included)"""
    bound = {}

    def visit(stmts):
        for n in stmts:
            if isinstance(n, ast.ImportFrom):
                for al in n.names:
                    bound.setdefault(al.asname or al.name, []).append("from %s%s import %s" % ("." * n.level, n.module or "", al.name))
            elif isinstance(n, ast.Import):
                for al in n.names:
                    bound.setdefault(al.asname or al.name.split(".")[0], []).append("import %s" % al.name)
            elif isinstance(n, (ast.FunctionDef, ast.ClassDef)):
                bound.setdefault(n.name, []).append("def")
            elif isinstance(n, (ast.Assign, ast.AugAssign, ast.AnnAssign)):
                for t in (n.targets if isinstance(n, ast.Assign) else [n.target]):
                    for m in ast.walk(t):
                        if isinstance(m, ast.Name):
                            bound.setdefault(m.id, []).append("=")
            elif isinstance(n, (ast.If, ast.Try)):
                for part in ("body", "orelse", "finalbody"):
                    visit(getattr(n, part, []))
                for h in getattr(n, "handlers", []):
                    visit(h.body)
    visit(tree.body)
    return bound


def check_base_module(repo, tree):
    """what the names used by `train` mean at module level of _base.py"""
    bound = module_bindings(tree)
    defs = {}
    if bound.get("np") != ["import numpy"]:
        raise Reject("%s: np must be bound exactly by `import numpy as np`, found %s" % (_BASE, bound.get("np")))
    for name in ("range", "None", "True", "False"):
        if name in bound:
            raise Reject("%s: builtin %s is rebound at module level" % (_BASE, name))
    # progress: the pinned primitive
    if bound.get("progress") == ["from .utils import progress"]:
        usrc, utree = parse(repo, _UTILS)
        pf = find_function(utree, "progress")
        seg = ast.get_source_segment(usrc, pf) or ""
        if seg.strip() != PINNED_PROGRESS:
            raise Reject("%s :: progress is a pinned primitive (tqdm(it) or it); its text changed:\n%s" % (_UTILS, seg))
        if module_bindings(utree).get("progress") != ["def"]:
            raise Reject("%s: progress is bound more than once" % _UTILS)
        defs["progress_pinned"] = True
    # call: the module's own one-step call with the declared defaults
    if bound.get("call") == ["def"]:
        cf = find_function(tree, "call")
        a = cf.args
        if ([x.arg for x in a.args] == CALL_PARAMS and [ast.unparse(d) for d in a.defaults] == CALL_DEFAULTS
                and not (a.vararg or a.kwarg or a.kwonlyargs or a.posonlyargs)):
            defs["call_ok"] = True
    if bound.get("train") != ["def"]:
        raise Reject("%s: train is bound %s at module level" % (_BASE, bound.get("train")))
    return defs


# ---------------------------------------------------------------------------------------------------- output
def emit(repo):
    """-> Coq source text of coq/gen/Gen_trainloop.v (raises Reject)"""
    src, tree = parse(repo, _BASE)
    defs = check_base_module(repo, tree)
    try:
        fn = find_function(tree, TRAIN_SPEC["name"])
        tr = FnTr(TRAIN_SPEC, fn, defs)
        params, body, ty = tr.translate()
    except Reject as ex:
        raise Reject("%s, function %s: %s" % (_BASE, TRAIN_SPEC["name"], ex))
    sha = hashlib.sha256((ast.get_source_segment(src, fn) or "").encode()).hexdigest()
    nsrc, ntree = parse(repo, _NODE)
    try:
        nfn = find_method(ntree, NODE_TRAIN_SPEC["cls"], NODE_TRAIN_SPEC["name"])
        nparams, nbody, nty = MTr(NODE_TRAIN_SPEC, nfn, check_node_module(ntree)).translate()
    except Reject as ex:
        raise Reject("%s, method %s.%s: %s" % (_NODE, NODE_TRAIN_SPEC["cls"], NODE_TRAIN_SPEC["name"], ex))
    nsha = hashlib.sha256((ast.get_source_segment(nsrc, nfn) or "").encode()).hexdigest()
    out = ["(* GENERATED by tools/vlib/py2coq_loop.py (%s) from the current source text of" % VERSION,
           "     %s :: %s  sha256(source segment) = %s" % (_BASE, TRAIN_SPEC["name"], sha),
           "     %s :: %s.%s  sha256(source segment) = %s" % (_NODE, NODE_TRAIN_SPEC["cls"], NODE_TRAIN_SPEC["name"], nsha),
           "   (pinned primitive: %s :: progress) -- DO NOT EDIT.  Regenerated by `./check C10` (pregen) and by tools/regen.py." % _UTILS,
           "   Vocabulary: base/LoopPrelude.v.  The node object is the explicit value w : W threaded through every statement with an effect; the",
           "   operations on the node are the Section variables below. *)",
           "From Coq Require Import List Bool Arith.",
           "From RV Require Import base.Num base.LoopPrelude.",
           "Import ListNotations.", "",
           "Module GenTrainLoop.", "Section Gen.", "Context {F : Type} `{Num F}."]
    for n, ty_, doc in SECTION_VARS:
        out.append("Variable %s : %s.   (* %s *)" % (n, ty_, doc))
    out += ["", "(* %s :: %s *)" % (_BASE, TRAIN_SPEC["name"]),
            "Definition %s %s : %s :=" % (TRAIN_SPEC["coq"], " ".join(params), ty), body + ".", ""]
    for n, ty_, doc in SECTION_VARS2:
        out.append("Variable %s : %s.   (* %s *)" % (n, ty_, doc))
    out += ["", "(* %s :: %s.%s   (a computation that may raise: `outcome`, base/LoopPrelude.v) *)" % (_NODE, NODE_TRAIN_SPEC["cls"], NODE_TRAIN_SPEC["name"]),
            "Definition %s %s : %s :=" % (NODE_TRAIN_SPEC["coq"], " ".join(nparams), nty), nbody + ".", "",
            "End Gen.", "End GenTrainLoop.", ""]
    return "\n".join(out)


if __name__ == "__main__":
    import sys
    from vlib import core
    try:
        sys.stdout.write(emit(core.REPO))
    except Reject as ex:
        sys.stderr.write("REJECT: %s\n" % ex)
        sys.exit(1)
