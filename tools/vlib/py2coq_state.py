"""Fail-closed translator for the STATE MACHINERY of reservoirpy -> Gallina (tie (T) of property C08, DESIGN §8 C08).

Targets   reservoirpy/node.py  :: Node.zero_state, Node.state, Node.reset, Node._flag_feedback, Node.with_state (@contextmanager)
          reservoirpy/_base.py :: call
          reservoirpy/model.py :: Model.reset, Model.with_state (@contextmanager, snapshot path and ExitStack path)

The translator parses the CURRENT text with `ast` (paths under core.REPO, which honours VERIF_REPO) and emits coq/gen/Gen_state.v over
the vocabulary of coq/base/CtxPrelude.v: a computation is `heap -> heap * outcome A` (the heap of node objects survives an exception).
Everything it does not understand raises Reject; it never guesses.

  @contextmanager generators.  The generated function takes the body of the `with` statement as an argument and puts it where the
  generator's single `yield self` is:     try: yield self  finally: POST   ->  try_finally body POST
                                          yield self ; REST                ->  bind body (fun r => REST ; ret r)     (no protection)
                                          with ExitStack() as stack: for n in L: [x = pure]* stack.enter_context(n.cm(..)) ; yield self
                                                                           ->  exit_stack (map (fun n => cm n ..) L) body
  every path must reach exactly one yield or end in a raise.  `with n.cm(..): BODY` in a caller is `cm n .. BODY'` where BODY' returns
  the locals BODY assigns.
  statements   docstring | x = e | n._state = e | n._fb_flag = e | if / elif / else (`x is None` on an optional local becomes a match
               that refines x) | return e (last statement of its block) | raise RuntimeError(..) / TypeError(..) | e (a call) |
               for n in self.nodes / for k, v in d.items() | with n.with_state(..): ..  | the three generator forms above
  expressions  names | None True False {} | not e | e and e (pure right operand) | x is None | x is not None | isinstance(x, np.ndarray)
               | n._state n._is_initialized n.is_initialized n.output_dim n._fb_flag n.name self.nodes | n.zero_state() n.state()
               n.reset(..) n._flag_feedback() self.reset(..) | n._forward(n, x) | a.astype(n.dtype) | np.zeros((1, n.output_dim), dtype=n.dtype)
               | check_one_sequence(a, n.output_dim, allow_timespans=False, caller=n) | d.get(n.name) | self[name]
               | {n.name: e for n in self.nodes}
  The properties Node.output_dim / is_initialized / dtype and Model.nodes / __getitem__ are pinned textually.
"""
import ast
import hashlib
import os
import warnings

from vlib.py2coq_la import Reject

VERSION = "py2coq_state 1"

_N = "reservoirpy/node.py"
_B = "reservoirpy/_base.py"
_M = "reservoirpy/model.py"

VEC = "(list F)"
COQTYPE = {"NODE": "nat", "MODEL": "(list nat)", "ARR": VEC, "OARR": "(option %s)" % VEC, "BOOL": "bool", "X": "X",
           "MSTATE": "(@mstate F)", "DICT": "(@pydict F)", "ODICT": "(option (@pydict F))", "UNIT": "unit", "ODIM": "(option nat)",
           "DICTFN": "(nat -> option %s)" % VEC, "NODELIST": "(list nat)"}
INNER = {"OARR": "ARR", "ODICT": "DICT"}

SPECS = [
    {"file": _N, "cls": "Node", "name": "zero_state", "coq": "Node_zero_state", "params": [("self", "NODE")], "ret": "OARR", "gen": False},
    {"file": _N, "cls": "Node", "name": "state", "coq": "Node_state", "params": [("self", "NODE")], "ret": "OARR", "gen": False},
    {"file": _N, "cls": "Node", "name": "reset", "coq": "Node_reset", "params": [("self", "NODE"), ("to_state", "OARR")], "ret": "SELF",
     "gen": False},
    {"file": _N, "cls": "Node", "name": "_flag_feedback", "coq": "Node_flag_feedback", "params": [("self", "NODE")], "ret": "UNIT", "gen": False},
    {"file": _N, "cls": "Node", "name": "with_state", "coq": "Node_with_state",
     "params": [("self", "NODE"), ("state", "OARR"), ("stateful", "BOOL"), ("reset", "BOOL")], "ret": None, "gen": True},
    {"file": _B, "cls": None, "name": "call", "coq": "call",
     "params": [("node", "NODE"), ("x", "X"), ("from_state", "OARR"), ("stateful", "BOOL"), ("reset", "BOOL")], "ret": "ARR", "gen": False},
    {"file": _M, "cls": "Model", "name": "reset", "coq": "Model_reset", "params": [("self", "MODEL"), ("to_state", "ODICT")], "ret": "SELF",
     "gen": False},
    {"file": _M, "cls": "Model", "name": "with_state", "coq": "Model_with_state",
     "params": [("self", "MODEL"), ("state", "MSTATE"), ("stateful", "BOOL"), ("reset", "BOOL")], "ret": None, "gen": True},
]

# attribute reads on a node: attribute -> (kind, Gallina projection)
NODE_ATTR = {"_state": ("OARR", "a_state"), "_is_initialized": ("BOOL", "a_is_initialized"), "is_initialized": ("BOOL", "a_is_initialized"),
             "_output_dim": ("ODIM", "a_output_dim"), "output_dim": ("ODIM", "a_output_dim"), "_fb_flag": ("BOOL", "a_fb_flag")}
# properties whose text is pinned: (file, class, name) -> the statements of the body (docstring stripped)
PINNED = {(_N, "Node", "output_dim"): ["return self._output_dim"], (_N, "Node", "is_initialized"): ["return self._is_initialized"],
          (_N, "Node", "dtype"): ["return self._dtype"], (_M, "Model", "nodes"): ["return self._nodes"],
          (_M, "Model", "__getitem__"): ["return self.get_node(item)"]}
# names that must be bound at module level exactly like this
IMPORTS = {_N: {"contextmanager": "from contextlib import contextmanager", "check_one_sequence": "from ._base import check_one_sequence",
                "np": "import numpy"},
           _B: {},
           _M: {"contextmanager": "from contextlib import contextmanager", "ExitStack": "from contextlib import ExitStack", "np": "import numpy"}}

RESERVED = set("""fun let in if then else match with end forall exists Some None true false nat list bool option negb andb orb bind ret raise Ok
Exc M heap obj hupd rd wr_state wr_fb_flag try_finally with_cm exit_stack py_for py_map body r tt unit fst snd Type Prop Set F P X map
check_ok fw hp pydict mstate SNone SDict SArray dict_of dict_items np_zeros_row py_astype py_check_one_sequence py_forward
RuntimeError TypeError CheckError ForwardError""".split())


def _where(node):
    return "line %s" % getattr(node, "lineno", "?")


def _strip_doc(body):
    if body and isinstance(body[0], ast.Expr) and isinstance(body[0].value, ast.Constant) and isinstance(body[0].value.value, str):
        return body[1:]
    return body


def _is_name(node, name=None):
    return isinstance(node, ast.Name) and (name is None or node.id == name)


def _is_none(node):
    return isinstance(node, ast.Constant) and node.value is None


class Val:
    def __init__(self, kind, text):
        self.kind, self.text = kind, text

    def p(self):
        t = self.text
        return t if t.replace("_", "a").replace("'", "a").isalnum() else "(" + t + ")"


def coerce(v, want, where):
    if v.kind == want:
        return v.p()
    if want in INNER and v.kind == INNER[want]:
        return "(Some %s)" % v.p()
    if v.kind == "NONE" and want in ("OARR", "ODICT", "ODIM"):
        return "None"
    if v.kind == "NONE" and want == "MSTATE":
        return "SNone"
    raise Reject("%s: a %s where a %s is expected" % (where, v.kind, want))


def wrap(pre, inner):
    out = inner
    for o, c in reversed(pre):
        out = "%s\n  %s%s" % (o, out, c)
    return out


class FnTr:
    """one function -> Gallina text"""

    def __init__(self, spec, fn, done):
        self.spec, self.fn, self.done = spec, fn, done     # done: (class or None, name) -> translated spec
        self.nt = 0

    def ident(self, n, node):
        if not n.replace("_", "a").isalnum() or n in RESERVED or n[0].isdigit():
            raise Reject("%s: name %r cannot be used as a Gallina identifier" % (_where(node), n))
        return n

    def fresh(self):
        self.nt += 1
        return "t%d" % self.nt

    # ------------------------------------------------------------------ expressions -> (binders, Val)
    def ex(self, node, env):
        if isinstance(node, ast.Name):
            if node.id in env:
                return [], env[node.id]
            raise Reject("%s: unknown name %r" % (_where(node), node.id))
        if isinstance(node, ast.Constant):
            if node.value is None:
                return [], Val("NONE", "None")
            if node.value is True or node.value is False:
                return [], Val("BOOL", "true" if node.value else "false")
            raise Reject("%s: constant %r outside the vocabulary" % (_where(node), node.value))
        if isinstance(node, ast.Dict) and not node.keys:
            return [], Val("DICTFN", "fun _ : nat => @None %s" % VEC)
        if isinstance(node, ast.UnaryOp) and isinstance(node.op, ast.Not):
            pre, v = self.ex(node.operand, env)
            if v.kind != "BOOL":
                raise Reject("%s: `not` on a %s" % (_where(node), v.kind))
            return pre, Val("BOOL", "negb %s" % v.p())
        if isinstance(node, ast.BoolOp) and isinstance(node.op, ast.And) and len(node.values) == 2:
            pl, a = self.ex(node.values[0], env)
            pr, b = self.ex(node.values[1], env)
            if pr:
                raise Reject("%s: the right operand of `and` is not pure" % _where(node))
            if a.kind != "BOOL" or b.kind != "BOOL":
                raise Reject("%s: `and` on %s, %s" % (_where(node), a.kind, b.kind))
            return pl, Val("BOOL", "andb %s %s" % (a.p(), b.p()))
        if isinstance(node, ast.Compare) and len(node.ops) == 1 and isinstance(node.ops[0], (ast.Is, ast.IsNot)) and _is_none(node.comparators[0]):
            pre, v = self.ex(node.left, env)
            if v.kind == "MSTATE":
                t = "mstate_is_none %s" % v.p()
            elif v.kind in ("OARR", "ODICT", "ODIM"):
                t = "match %s with None => true | Some _ => false end" % v.text
            elif v.kind == "NONE":
                t = "true"
            else:
                raise Reject("%s: `is None` on a %s" % (_where(node), v.kind))
            return pre, Val("BOOL", t if isinstance(node.ops[0], ast.Is) else "negb (%s)" % t)
        if isinstance(node, ast.Attribute):
            return self.attribute(node, env)
        if isinstance(node, ast.Subscript):
            pre, o = self.ex(node.value, env)
            pi, i = self.ex(node.slice, env)
            if o.kind != "MODEL" or i.kind != "NODE" or pre or pi:
                raise Reject("%s: subscript outside the vocabulary (only self[name] on a Model): %s" % (_where(node), ast.unparse(node)))
            return [], Val("NODE", i.text)
        if isinstance(node, ast.DictComp):
            return self.dictcomp(node, env)
        if isinstance(node, ast.Call):
            return self.call(node, env)
        raise Reject("%s: expression outside the vocabulary: %s" % (_where(node), ast.unparse(node)))

    def attribute(self, node, env):
        pre, o = self.ex(node.value, env)
        if o.kind == "NODE":
            if node.attr == "name":
                return pre, Val("NODE", o.text)
            if node.attr in NODE_ATTR:
                kind, proj = NODE_ATTR[node.attr]
                t = self.fresh()
                return pre + [("bind (rd %s %s) (fun %s =>" % (proj, o.p(), t), ")")], Val(kind, t)
            if node.attr == "dtype":
                return pre, Val("DTYPE", o.text)
        if o.kind == "MODEL" and node.attr == "nodes":
            return pre, Val("NODELIST", o.text)
        raise Reject("%s: attribute .%s of a %s is outside the vocabulary" % (_where(node), node.attr, o.kind))

    def dictcomp(self, node, env):
        if len(node.generators) != 1:
            raise Reject("%s: dict comprehension with several generators" % _where(node))
        g = node.generators[0]
        if g.ifs or g.is_async or not isinstance(g.target, ast.Name):
            raise Reject("%s: dict comprehension outside the vocabulary" % _where(node))
        pl, l = self.ex(g.iter, env)
        if l.kind != "NODELIST" or pl:
            raise Reject("%s: dict comprehension over a %s" % (_where(node), l.kind))
        v = self.ident(g.target.id, node)
        env2 = dict(env)
        env2[g.target.id] = Val("NODE", v)
        if not (isinstance(node.key, ast.Attribute) and _is_name(node.key.value, g.target.id) and node.key.attr == "name"):
            raise Reject("%s: the key of the dict comprehension must be %s.name" % (_where(node), g.target.id))
        pv, val = self.ex(node.value, env2)
        t = self.fresh()
        inner = wrap(pv, "ret %s" % coerce(val, "OARR", _where(node)))
        return [("bind (py_map %s (fun %s => %s)) (fun %s =>" % (l.p(), v, inner, t), ")")], Val("DICT", "dict_of %s %s" % (l.p(), t))

    def bind_args(self, callee, node, env, skip_first=False):
        """arguments of a call of a translated function -> (binders, [text per parameter after self])"""
        params = callee["params"][1:]
        given = {}
        args = list(node.args)
        if any(isinstance(a, ast.Starred) for a in args) or any(k.arg is None for k in node.keywords):
            raise Reject("%s: */** argument" % _where(node))
        if len(args) > len(params):
            raise Reject("%s: too many positional arguments for %s" % (_where(node), callee["name"]))
        for (pn, _), a in zip(params, args):
            given[pn] = a
        for k in node.keywords:
            if k.arg in given or k.arg not in [pn for pn, _ in params]:
                raise Reject("%s: keyword %s of %s" % (_where(node), k.arg, callee["name"]))
            given[k.arg] = k.value
        pre, out = [], []
        for pn, pk in params:
            if pn in given:
                p1, v = self.ex(given[pn], env)
            else:
                d = callee["defaults"].get(pn)
                if d is None:
                    raise Reject("%s: no argument and no default for %s of %s" % (_where(node), pn, callee["name"]))
                p1, v = self.ex(d, {})
            pre += p1
            out.append(coerce(v, pk, "%s, argument %s of %s" % (_where(node), pn, callee["name"])))
        return pre, out

    def method(self, recv_kind, name, node):
        cls = {"NODE": "Node", "MODEL": "Model"}.get(recv_kind)
        sp = self.done.get((cls, name)) if cls else None
        if sp is None:
            raise Reject("%s: method %s of a %s is not a translated function" % (_where(node), name, recv_kind))
        return sp

    def call(self, node, env):
        f = node.func
        # isinstance(x, np.ndarray)
        if _is_name(f, "isinstance") and len(node.args) == 2 and not node.keywords and ast.unparse(node.args[1]) == "np.ndarray":
            pre, v = self.ex(node.args[0], env)
            if v.kind != "MSTATE":
                raise Reject("%s: isinstance(., np.ndarray) on a %s" % (_where(node), v.kind))
            return pre, Val("BOOL", "mstate_is_ndarray %s" % v.p())
        # check_one_sequence(a, n.output_dim, allow_timespans=False, caller=n)
        if _is_name(f, "check_one_sequence"):
            kw = {k.arg: k.value for k in node.keywords}
            if (len(node.args) != 2 or set(kw) != {"allow_timespans", "caller"} or not (isinstance(kw["allow_timespans"], ast.Constant)
                                                                                      and kw["allow_timespans"].value is False)):
                raise Reject("%s: check_one_sequence must be called as (a, n.output_dim, allow_timespans=False, caller=n)" % _where(node))
            pa, a = self.ex(node.args[0], env)
            pd, d = self.ex(node.args[1], env)
            pc, c = self.ex(kw["caller"], env)
            if a.kind != "ARR" or d.kind != "ODIM" or c.kind != "NODE" or pc:
                raise Reject("%s: check_one_sequence on (%s, %s, caller=%s)" % (_where(node), a.kind, d.kind, c.kind))
            if not (isinstance(node.args[1], ast.Attribute) and ast.unparse(node.args[1].value) == ast.unparse(kw["caller"])):
                raise Reject("%s: check_one_sequence: the expected dimension is not the caller's output_dim" % _where(node))
            t = self.fresh()
            return pa + pd + [("bind (py_check_one_sequence check_ok %s %s) (fun %s =>" % (a.p(), d.p(), t), ")")], Val("ARR", t)
        # np.zeros((1, n.output_dim), dtype=n.dtype)
        if isinstance(f, ast.Attribute) and _is_name(f.value, "np") and f.attr == "zeros":
            kw = {k.arg: k.value for k in node.keywords}
            sh = node.args[0] if len(node.args) == 1 else None
            if (sh is None or set(kw) != {"dtype"} or not isinstance(sh, ast.Tuple) or len(sh.elts) != 2
                    or not (isinstance(sh.elts[0], ast.Constant) and sh.elts[0].value == 1 and type(sh.elts[0].value) is int)):
                raise Reject("%s: np.zeros must be called as np.zeros((1, n.output_dim), dtype=n.dtype)" % _where(node))
            pd, d = self.ex(sh.elts[1], env)
            pt, dt = self.ex(kw["dtype"], env)
            if d.kind != "ODIM" or dt.kind != "DTYPE" or pt:
                raise Reject("%s: np.zeros((1, %s), dtype=%s)" % (_where(node), d.kind, dt.kind))
            t = self.fresh()
            # np.zeros((1, None)) is a TypeError
            return pd + [("bind (match %s with Some n => ret (np_zeros_row n) | None => raise TypeError end) (fun %s =>" % (d.text, t), ")")], Val("ARR", t)
        if isinstance(f, ast.Attribute):
            # stack.enter_context is handled by the statement translator only
            pre, o = self.ex(f.value, env)
            # a.astype(n.dtype)
            if f.attr == "astype":
                if len(node.args) != 1 or node.keywords or o.kind != "ARR":
                    raise Reject("%s: astype outside the vocabulary: %s" % (_where(node), ast.unparse(node)))
                pt, dt = self.ex(node.args[0], env)
                if dt.kind != "DTYPE" or pt:
                    raise Reject("%s: astype(%s)" % (_where(node), dt.kind))
                return pre, Val("ARR", "py_astype %s" % o.p())
            # d.get(n.name)
            if f.attr == "get":
                if len(node.args) != 1 or node.keywords:
                    raise Reject("%s: .get with a default" % _where(node))
                pk, k = self.ex(node.args[0], env)
                if k.kind != "NODE" or pk or pre:
                    raise Reject("%s: .get(%s)" % (_where(node), k.kind))
                if o.kind == "DICTFN":
                    return [], Val("OARR", "%s %s" % (o.p(), k.p()))
                if o.kind == "MSTATE":
                    facts = env.get("%facts", {}).get(ast.unparse(f.value), set())
                    if not {"not_none", "not_array"} <= facts:
                        raise Reject("%s: %s.get(..) where %s is not known to be a dict (neither None nor an ndarray)" % (
                            _where(node), ast.unparse(f.value), ast.unparse(f.value)))
                    return [], Val("OARR", "mstate_dict %s %s" % (o.p(), k.p()))
                raise Reject("%s: .get on a %s" % (_where(node), o.kind))
            # n._forward(n, x)
            if f.attr == "_forward":
                if o.kind != "NODE" or len(node.args) != 2 or node.keywords or pre:
                    raise Reject("%s: _forward outside the vocabulary: %s" % (_where(node), ast.unparse(node)))
                p0, a0 = self.ex(node.args[0], env)
                p1, a1 = self.ex(node.args[1], env)
                if a0.kind != "NODE" or a0.text != o.text or a1.kind != "X" or p0 or p1:
                    raise Reject("%s: _forward must be called as n._forward(n, x)" % _where(node))
                t = self.fresh()
                return [("bind (py_forward fw %s %s) (fun %s =>" % (o.p(), a1.p(), t), ")")], Val("ARR", t)
            # a translated method
            if o.kind in ("NODE", "MODEL"):
                sp = self.method(o.kind, f.attr, node)
                if sp["gen"]:
                    raise Reject("%s: context manager %s used as a value" % (_where(node), f.attr))
                pa, args = self.bind_args(sp, node, env)
                t = self.fresh()
                rk = sp["ret"]
                val = Val("UNIT", "tt") if rk in ("SELF", "UNIT") else Val(rk, t)
                return pre + pa + [("bind (%s %s) (fun %s =>" % (sp["coq"], " ".join([o.p()] + args), "_" if rk in ("SELF", "UNIT") else t), ")")], val
        raise Reject("%s: call outside the vocabulary: %s" % (_where(node), ast.unparse(node)))

    def cm_call(self, node, env):
        """n.with_state(..) as a context manager -> text of a function of the body; arguments must be pure"""
        if not (isinstance(node, ast.Call) and isinstance(node.func, ast.Attribute)):
            raise Reject("%s: not a context manager of the vocabulary: %s" % (_where(node), ast.unparse(node)))
        pre, o = self.ex(node.func.value, env)
        sp = self.method(o.kind, node.func.attr, node)
        if not sp["gen"]:
            raise Reject("%s: %s is not a context manager" % (_where(node), node.func.attr))
        pa, args = self.bind_args(sp, node, env)
        if pre or pa:
            raise Reject("%s: the arguments of the context manager are not pure" % _where(node))
        return "%s %s" % (sp["coq"], " ".join([o.p()] + args))

    # ------------------------------------------------------------------ statements
    # block(stmts, env, mode, k): k(env) gives the text of what follows the block.
    # mode: dict(ret=may `return`, gen=generator (yield allowed), assign=locals may be assigned)
    def block(self, stmts, env, mode, k):
        if not stmts:
            return k(env)
        s, rest = stmts[0], stmts[1:]

        def go(env2):
            return self.block(rest, env2, mode, k)

        if isinstance(s, ast.Return):
            if rest or not mode["ret"]:
                raise Reject("%s: `return` here (not the last statement of its block, or inside with / for / finally / a generator)" % _where(s))
            return self.ret(s.value, env, s)
        if isinstance(s, ast.Raise):
            e = s.exc
            if rest or s.cause is not None or not (isinstance(e, ast.Call) and _is_name(e.func) and e.func.id in ("RuntimeError", "TypeError")):
                raise Reject("%s: raise outside the vocabulary" % _where(s))
            if e.keywords or len(e.args) != 1 or not self.harmless_message(e.args[0], env):
                raise Reject("%s: exception message outside the vocabulary" % _where(s))
            return "raise %s" % e.func.id
        if isinstance(s, ast.If):
            return self.if_(s, env, mode, go)
        if isinstance(s, ast.Assign):
            if len(s.targets) != 1:
                raise Reject("%s: multiple assignment" % _where(s))
            tg = s.targets[0]
            pre, v = self.ex(s.value, env)
            if isinstance(tg, ast.Name):
                if not mode["assign"]:
                    raise Reject("%s: assignment to a local inside a finally block" % _where(s))
                if v.kind in ("DTYPE", "UNIT"):
                    raise Reject("%s: a %s bound to a local" % (_where(s), v.kind))
                c = self.ident(tg.id, s)
                env2 = dict(env)
                env2[tg.id] = Val(v.kind, c)
                facts = dict(env.get("%facts", {}))
                facts.pop(tg.id, None)
                env2["%facts"] = facts
                if "%assigned" in env:
                    env2["%assigned"] = env["%assigned"] + ([tg.id] if tg.id not in env["%assigned"] else [])
                if v.kind == "NONE":              # x = None: no Gallina binding (the literal has no type of its own); x stands for None
                    env2[tg.id] = Val("NONE", "None")
                    return wrap(pre, go(env2))
                return wrap(pre + [("let %s := %s in" % (c, v.text), "")], go(env2))
            if isinstance(tg, ast.Attribute):
                po, o = self.ex(tg.value, env)
                if o.kind != "NODE" or po:
                    raise Reject("%s: attribute assignment on a %s" % (_where(s), o.kind))
                if tg.attr == "_state":
                    w = "wr_state %s %s" % (o.p(), coerce(v, "OARR", _where(s)))
                elif tg.attr == "_fb_flag":
                    w = "wr_fb_flag %s %s" % (o.p(), coerce(v, "BOOL", _where(s)))
                else:
                    raise Reject("%s: assignment to .%s is outside the vocabulary" % (_where(s), tg.attr))
                return wrap(pre + [("bind (%s) (fun _ =>" % w, ")")], go(env))
            raise Reject("%s: assignment target outside the vocabulary: %s" % (_where(s), ast.unparse(tg)))
        if isinstance(s, ast.Expr):
            e = s.value
            if isinstance(e, ast.Yield):
                self.check_yield(e, env, mode)
                return "bind body (fun r =>\n  %s)" % go(self.yielded(env))
            if not isinstance(e, ast.Call):
                raise Reject("%s: expression statement outside the vocabulary: %s" % (_where(s), ast.unparse(s)))
            pre, v = self.ex(e, env)
            if not pre:
                raise Reject("%s: a call without effect as a statement: %s" % (_where(s), ast.unparse(s)))
            return wrap(pre, go(env))
        if isinstance(s, ast.For):
            return self.for_(s, env, mode, go)
        if isinstance(s, ast.Try):
            if s.handlers or s.orelse or not s.finalbody:
                raise Reject("%s: try with except / else clauses" % _where(s))
            if not (len(s.body) == 1 and isinstance(s.body[0], ast.Expr) and isinstance(s.body[0].value, ast.Yield)):
                raise Reject("%s: try/finally around something else than the single `yield self`" % _where(s))
            self.check_yield(s.body[0].value, env, mode)
            fin = self.block(s.finalbody, env, {"ret": False, "gen": False, "assign": False}, lambda e2: "ret tt")
            return "bind (try_finally body\n  (%s)) (fun r =>\n  %s)" % (fin, go(self.yielded(env)))
        if isinstance(s, ast.With):
            return self.with_(s, env, mode, go)
        raise Reject("%s: statement outside the vocabulary: %s" % (_where(s), ast.unparse(s).splitlines()[0]))

    def harmless_message(self, node, env):
        """a string literal, or an f-string whose fields are attribute reads of `self` (no call, nothing that can raise here)"""
        if isinstance(node, ast.Constant) and isinstance(node.value, str):
            return True
        if isinstance(node, ast.JoinedStr):
            for v in node.values:
                if isinstance(v, ast.Constant):
                    continue
                if not (isinstance(v, ast.FormattedValue) and v.format_spec is None and isinstance(v.value, ast.Attribute)
                        and _is_name(v.value.value, "self") and v.value.attr == "name"):
                    return False
            return True
        return False

    def check_yield(self, e, env, mode):
        if not mode["gen"]:
            raise Reject("%s: yield outside a @contextmanager generator (or inside for / finally)" % _where(e))
        if "%r" in env:
            raise Reject("%s: a second yield on the same path" % _where(e))
        if not _is_name(e.value, "self"):
            raise Reject("%s: the generator must `yield self`" % _where(e))

    @staticmethod
    def yielded(env):
        env2 = dict(env)
        env2["%r"] = True
        return env2

    def ret(self, value, env, s):
        rk = self.spec["ret"]
        if value is None:
            pre, v = [], Val("NONE", "None")
        else:
            pre, v = self.ex(value, env)
        if rk == "SELF":
            if not (value is not None and _is_name(value, "self")):
                raise Reject("%s: this function must `return self`" % _where(s))
            return wrap(pre, "ret tt")
        if rk == "UNIT":
            if value is not None and not _is_none(value):
                raise Reject("%s: a procedure returns a value" % _where(s))
            return "ret tt"
        return wrap(pre, "ret %s" % coerce(v, rk, _where(s)))

    def if_(self, s, env, mode, go):
        t = s.test
        # `x is None` / `x is not None` on an optional local: a match that refines x
        if (isinstance(t, ast.Compare) and len(t.ops) == 1 and isinstance(t.ops[0], (ast.Is, ast.IsNot)) and _is_none(t.comparators[0])
                and isinstance(t.left, ast.Name) and t.left.id in env and env[t.left.id].kind in INNER):
            x = t.left.id
            v = env[x]
            en, es = dict(env), dict(env)
            en[x] = Val("NONE", "None")
            es[x] = Val(INNER[v.kind], v.text)
            bn, bs = (s.body, s.orelse) if isinstance(t.ops[0], ast.Is) else (s.orelse, s.body)
            return "match %s with\n  | None => %s\n  | Some %s => %s\n  end" % (
                v.text, self.block(bn, en, mode, go), v.text, self.block(bs, es, mode, go))
        pre, c = self.ex(t, env)
        if c.kind != "BOOL":
            raise Reject("%s: condition of kind %s" % (_where(s), c.kind))
        et, ef = dict(env), dict(env)
        # facts about a Model.with_state `state` argument
        ft, ff = self.facts_of(t)
        for e2, add in ((et, ft), (ef, ff)):
            if add:
                facts = {kk: set(vv) for kk, vv in env.get("%facts", {}).items()}
                facts.setdefault(add[0], set()).add(add[1])
                e2["%facts"] = facts
        return wrap(pre, "if %s\n  then (%s)\n  else (%s)" % (c.text, self.block(s.body, et, mode, go), self.block(s.orelse, ef, mode, go)))

    @staticmethod
    def facts_of(test):
        """(fact established when the test holds, fact established when it does not); a fact is (name, tag)"""
        if (isinstance(test, ast.Compare) and len(test.ops) == 1 and _is_none(test.comparators[0]) and isinstance(test.left, ast.Name)):
            if isinstance(test.ops[0], ast.Is):
                return None, (test.left.id, "not_none")
            if isinstance(test.ops[0], ast.IsNot):
                return (test.left.id, "not_none"), None
        if (isinstance(test, ast.Call) and _is_name(test.func, "isinstance") and len(test.args) == 2 and isinstance(test.args[0], ast.Name)
                and ast.unparse(test.args[1]) == "np.ndarray"):
            return None, (test.args[0].id, "not_array")
        return None, None

    def for_(self, s, env, mode, go):
        if s.orelse:
            raise Reject("%s: for/else" % _where(s))
        inner = {"ret": False, "gen": False, "assign": True}
        env2 = dict(env)
        env2.pop("%assigned", None)
        it = s.iter
        if (isinstance(it, ast.Call) and isinstance(it.func, ast.Attribute) and it.func.attr == "items" and not it.args and not it.keywords):
            pre, d = self.ex(it.func.value, env)
            tg = s.target
            if d.kind != "DICT" or pre or not (isinstance(tg, ast.Tuple) and len(tg.elts) == 2 and all(isinstance(e, ast.Name) for e in tg.elts)):
                raise Reject("%s: for over .items() of a %s" % (_where(s), d.kind))
            kn, vn = self.ident(tg.elts[0].id, s), self.ident(tg.elts[1].id, s)
            if kn == vn:
                raise Reject("%s: the same name twice in the loop target" % _where(s))
            env2[tg.elts[0].id] = Val("NODE", kn)
            env2[tg.elts[1].id] = Val("OARR", vn)
            body = self.block(s.body, env2, inner, lambda e2: "ret tt")
            loop = "py_for (dict_items %s) (fun '(%s, %s) =>\n  %s)" % (d.p(), kn, vn, body)
        else:
            pre, l = self.ex(it, env)
            if l.kind != "NODELIST" or pre or not isinstance(s.target, ast.Name):
                raise Reject("%s: for over a %s" % (_where(s), l.kind))
            v = self.ident(s.target.id, s)
            env2[s.target.id] = Val("NODE", v)
            body = self.block(s.body, env2, inner, lambda e2: "ret tt")
            loop = "py_for %s (fun %s =>\n  %s)" % (l.p(), v, body)
        # locals assigned in the loop body do not survive it in the translation: none may be read afterwards -> drop them from env
        return "bind (%s) (fun _ =>\n  %s)" % (loop, go(env))

    def with_(self, s, env, mode, go):
        if len(s.items) != 1:
            raise Reject("%s: with on several items" % _where(s))
        item = s.items[0]
        ce = item.context_expr
        # with ExitStack() as stack: for n in L: [x = pure]* stack.enter_context(n.cm(..)) ; yield self
        if isinstance(ce, ast.Call) and _is_name(ce.func, "ExitStack") and not ce.args and not ce.keywords:
            if not (isinstance(item.optional_vars, ast.Name) and item.optional_vars.id not in env):
                raise Reject("%s: `with ExitStack() as <fresh name>` expected" % _where(s))
            stack = item.optional_vars.id
            b = s.body
            if not (len(b) == 2 and isinstance(b[0], ast.For) and isinstance(b[1], ast.Expr) and isinstance(b[1].value, ast.Yield)):
                raise Reject("%s: the ExitStack block must be `for n in self.nodes: .. stack.enter_context(..)` then `yield self`" % _where(s))
            self.check_yield(b[1].value, env, mode)
            loop = b[0]
            pl, l = self.ex(loop.iter, env)
            if l.kind != "NODELIST" or pl or loop.orelse or not isinstance(loop.target, ast.Name) or not loop.body:
                raise Reject("%s: the ExitStack loop must run over self.nodes" % _where(loop))
            v = self.ident(loop.target.id, loop)
            env2 = dict(env)
            env2[loop.target.id] = Val("NODE", v)
            lets = []
            for st in loop.body[:-1]:
                if not (isinstance(st, ast.Assign) and len(st.targets) == 1 and isinstance(st.targets[0], ast.Name)):
                    raise Reject("%s: only pure assignments may precede enter_context in the ExitStack loop" % _where(st))
                pv, val = self.ex(st.value, env2)
                if pv or val.kind in ("DTYPE", "UNIT"):
                    raise Reject("%s: not a pure expression: %s" % (_where(st), ast.unparse(st.value)))
                c = self.ident(st.targets[0].id, st)
                if c == stack:
                    raise Reject("%s: the stack is rebound" % _where(st))
                lets.append("let %s := %s in" % (c, val.text))
                env2 = dict(env2)
                env2[st.targets[0].id] = Val(val.kind, c)
            last = loop.body[-1]
            if not (isinstance(last, ast.Expr) and isinstance(last.value, ast.Call) and isinstance(last.value.func, ast.Attribute)
                    and _is_name(last.value.func.value, stack) and last.value.func.attr == "enter_context" and len(last.value.args) == 1
                    and not last.value.keywords):
                raise Reject("%s: the ExitStack loop must end with %s.enter_context(<context manager>)" % (_where(last), stack))
            cm = self.cm_call(last.value.args[0], env2)
            return "bind (exit_stack (map (fun %s => %s %s) %s) body) (fun r =>\n  %s)" % (v, " ".join(lets), cm, l.p(), go(self.yielded(env)))
        # with n.with_state(..): BODY     (BODY returns the locals it assigns)
        if item.optional_vars is not None:
            raise Reject("%s: `with .. as ..` is outside the vocabulary" % _where(s))
        cm = self.cm_call(ce, env)
        env2 = dict(env)
        env2["%assigned"] = []
        got = {}

        def tail(e2):
            names = e2["%assigned"]
            sig = [(n, e2[n].kind) for n in names]
            if got.setdefault("sig", sig) != sig:
                raise Reject("%s: the paths of the with body assign different locals" % _where(s))
            if not names:
                return "ret tt"
            return "ret (%s)" % ", ".join(e2[n].text for n in names)
        body = self.block(s.body, env2, {"ret": False, "gen": False, "assign": True}, tail)
        sig = got.get("sig", [])
        env3 = dict(env)
        for n, kd in sig:
            env3[n] = Val(kd, self.ident(n, s))
        if "%assigned" in env:
            env3["%assigned"] = env["%assigned"] + [n for n, _ in sig if n not in env["%assigned"]]
        pat = "_" if not sig else (sig[0][0] if len(sig) == 1 else "'(%s)" % ", ".join(n for n, _ in sig))
        return "bind (%s\n  (%s)) (fun %s =>\n  %s)" % (cm, body, pat, go(env3))

    # ------------------------------------------------------------------ whole function
    def translate(self):
        a = self.fn.args
        if a.vararg or a.kwonlyargs or a.posonlyargs or a.kwarg:
            raise Reject("unsupported parameter list")
        got = [x.arg for x in a.args]
        if got != [n for n, _ in self.spec["params"]]:
            raise Reject("parameters %s, declared %s" % (got, [n for n, _ in self.spec["params"]]))
        nd = len(a.defaults)
        self.spec["defaults"] = {n: d for n, d in zip(got[len(got) - nd:], a.defaults)} if nd else {}
        for n, d in self.spec["defaults"].items():
            if not (isinstance(d, ast.Constant) and (d.value is None or d.value is True or d.value is False)):
                raise Reject("default value of %s is not None / True / False" % n)
        env, params = {"%facts": {}}, []
        for n, kd in self.spec["params"]:
            c = self.ident(n, self.fn)
            env[n] = Val(kd, c)
            params.append("(%s : %s)" % (c, COQTYPE[kd]))
        body = _strip_doc(self.fn.body)
        if self.spec["gen"]:
            def end(e2):
                if "%r" not in e2:
                    raise Reject("a path of the generator ends without a yield")
                return "ret r"
            text = self.block(body, env, {"ret": False, "gen": True, "assign": True}, end)
            return "{A : Type} " + " ".join(params) + " (body : M hp A)", text, "M hp A"
        rk = self.spec["ret"]

        def end(e2):
            if rk in ("SELF",):
                raise Reject("the function can fall off its end without `return self`")
            if rk == "UNIT":
                return "ret tt"
            if rk in INNER:
                return "ret None"             # falling off the end returns None
            raise Reject("the function can fall off its end without a return")
        text = self.block(body, env, {"ret": True, "gen": False, "assign": True}, end)
        return " ".join(params), text, "M hp %s" % ("unit" if rk in ("SELF", "UNIT") else COQTYPE[rk])


# ---------------------------------------------------------------------------------------------------- module-level checks
def parse(repo, rel):
    try:
        src = open(os.path.join(repo, rel)).read()
        with warnings.catch_warnings():
            warnings.simplefilter("ignore")
            return src, ast.parse(src)
    except (OSError, SyntaxError) as ex:
        raise Reject("%s: cannot read/parse: %s" % (rel, ex))


def module_bindings(tree):
    bound = {}
    for n in tree.body:
        if isinstance(n, ast.ImportFrom):
            for al in n.names:
                bound.setdefault(al.asname or al.name, []).append("from %s%s import %s" % ("." * n.level, n.module or "", al.name))
        elif isinstance(n, ast.Import):
            for al in n.names:
                bound.setdefault(al.asname or al.name.split(".")[0], []).append("import %s" % al.name)
        elif isinstance(n, (ast.FunctionDef, ast.ClassDef)):
            bound.setdefault(n.name, []).append("def")
        elif isinstance(n, (ast.Assign, ast.AugAssign, ast.AnnAssign)):
            for t in (n.targets if isinstance(n, ast.Assign) else [n.target]):
                for m in ast.walk(t):
                    if isinstance(m, ast.Name):
                        bound.setdefault(m.id, []).append("=")
    return bound


def check_module(rel, tree):
    bound = module_bindings(tree)
    for name, how in IMPORTS[rel].items():
        if bound.get(name) != [how]:
            raise Reject("%s: %s must be bound exactly by `%s`, found %s" % (rel, name, how, bound.get(name)))
    for name in ("isinstance", "RuntimeError", "TypeError"):
        if name in bound:
            raise Reject("%s: builtin %s is rebound at module level" % (rel, name))


def find_class(tree, rel, cls):
    hits = [n for n in tree.body if isinstance(n, ast.ClassDef) and n.name == cls]
    if len(hits) != 1:
        raise Reject("%s: %d classes %s" % (rel, len(hits), cls))
    return hits[0]


def find_def(tree, rel, cls, name):
    scope = tree.body if cls is None else find_class(tree, rel, cls).body
    hits = [n for n in scope if isinstance(n, ast.FunctionDef) and n.name == name]
    if len(hits) != 1:
        raise Reject("%s: %d definitions of %s%s" % (rel, len(hits), (cls + ".") if cls else "", name))
    return hits[0]


def check_pinned(trees):
    for (rel, cls, name), want in PINNED.items():
        fn = find_def(trees[rel][1], rel, cls, name)
        got = [ast.unparse(b) for b in _strip_doc(fn.body)]
        decos = [ast.unparse(d) for d in fn.decorator_list]
        if got != want or decos != ([] if name.startswith("__") else ["property"]):
            raise Reject("%s: %s.%s is pinned to %s (a property), found %s %s" % (rel, cls, name, want, decos, got))


# ---------------------------------------------------------------------------------------------------- output
def emit(repo):
    """-> Coq source text of coq/gen/Gen_state.v (raises Reject)"""
    trees = {}
    for rel in (_N, _B, _M):
        trees[rel] = parse(repo, rel)
        check_module(rel, trees[rel][1])
    check_pinned(trees)
    heads, defs, done = [], [], {}
    for sp in SPECS:
        rel = sp["file"]
        src, tree = trees[rel]
        label = "%s%s" % ((sp["cls"] + ".") if sp["cls"] else "", sp["name"])
        try:
            fn = find_def(tree, rel, sp["cls"], sp["name"])
            decos = [ast.unparse(d) for d in fn.decorator_list]
            if decos != (["contextmanager"] if sp["gen"] else []):
                raise Reject("decorators %s" % decos)
            sp = dict(sp)
            params, body, ty = FnTr(sp, fn, done).translate()
        except Reject as ex:
            raise Reject("%s, function %s (as %s): %s" % (rel, label, sp["coq"], ex))
        done[(sp["cls"], sp["name"])] = sp
        sha = hashlib.sha256((ast.get_source_segment(src, fn) or "").encode()).hexdigest()
        heads.append("     %s :: %s  (as %s)  sha256(source segment) = %s" % (rel, label, sp["coq"], sha))
        defs.append("(* %s :: %s *)\nDefinition %s %s : %s :=\n  %s." % (rel, label, sp["coq"], params, ty, body))
    out = ["(* GENERATED by tools/vlib/py2coq_state.py (%s) from the current source text of" % VERSION] + heads + [
        "   -- DO NOT EDIT.  Regenerated by `./check C08` (pregen) and by tools/regen.py.  Vocabulary: base/CtxPrelude.v (a computation is",
        "   heap -> heap * outcome A; a @contextmanager generator is a function of the body of the `with` statement, which stands where",
        "   the generator yields).  Pinned: %s. *)" % "; ".join("%s.%s = `%s`" % (c, n, " ".join(w)) for (_, c, n), w in PINNED.items()),
        "From Coq Require Import List Bool Arith.",
        "From RV Require Import base.Num base.LA base.CtxPrelude.",
        "Import ListNotations.", "",
        "Module GenState.",
        "Section GenState.",
        "Context {F : Type} `{Num F} {P X : Type}.",
        "Variable check_ok : option nat -> list F -> bool.          (* which arrays check_one_sequence accepts *)",
        "Variable fw : nat -> @obj F P -> X -> option (list F * P).  (* the nodes' forward functions *)",
        "Notation hp := (@heap F P).", ""]
    for d in defs:
        out += [d, ""]
    out += ["End GenState.", "End GenState.", ""]
    return "\n".join(out)


if __name__ == "__main__":
    import sys
    from vlib import core
    try:
        sys.stdout.write(emit(core.REPO))
    except Reject as ex:
        sys.stderr.write("REJECT: %s\n" % ex)
        sys.exit(1)
