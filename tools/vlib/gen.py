"""pregen helpers: (re)generate coq/gen/Gen_<unit>.v from the CURRENT source of the repository under test (tie T)."""
import os
import traceback

from vlib import core, la_specs, py2coq_la


def pregen_units(names):
    """Translate the named units of la_specs.UNITS.  Returns None, or an error text (the tie is broken)."""
    errs = []
    gdir = os.path.join(core.COQ, "gen")
    os.makedirs(gdir, exist_ok=True)
    for n in names:
        unit = la_specs.UNITS[n]
        path = os.path.join(gdir, unit["out"])
        try:
            text = py2coq_la.emit_unit(core.REPO, unit)
        except py2coq_la.Reject as ex:
            text = None
            err = "translation rejected: %s" % ex
        except Exception:
            text = None
            err = "translator exception: " + traceback.format_exc()[-1500:]
        if text is None:
            # no model of the current source exists: never leave a stale one behind (the stub does not compile on purpose)
            text = "(* GENERATED: translation of unit %s FAILED -- %s *)\nDefinition translation_failed : True := 0.\n" % (
                n, err.replace("*)", "* )").replace("(*", "( *"))
            errs.append("unit %s: %s" % (n, err))
        old = open(path).read() if os.path.exists(path) else None
        if old != text:               # keep the mtime (and the compiled cone) when nothing changed
            with open(path, "w") as f:
                f.write(text)
    return "\n".join(errs) or None


def rerun_generated(pid, imports_gen, terms, renames, chunk=60):
    """Second evaluation of correspondence terms with the runner functions of the GENERATED kernels.
    renames: {"chk_res ": "chk_gen_res ", ...} (prefix of the term).  Returns (indices of `terms` that fail, error, number run)."""
    sel = []
    for i, t in enumerate(terms):
        for a, b in renames.items():
            if t.startswith(a):
                sel.append((i, b + t[len(a):]))
                break
    if not sel:
        return [], None, 0
    fail, err = core.run_cases(pid + "_gen", imports_gen, [t for _, t in sel], chunk=chunk)
    return sorted({sel[j][0] for j in fail}), err, len(sel)
