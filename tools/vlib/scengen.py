"""Seeded generators of framework scenarios (DAGs of nodes, feedback topologies, operation histories)."""
from fractions import Fraction
from math import comb

from vlib import core


def dy(rng, lim=4, maxpow=1):
    return str(core.dyadic(rng, lim, maxpow))


def rows(rng, T, dim, lim=4, maxpow=1):
    return [[dy(rng, lim, maxpow) for _ in range(dim)] for _ in range(T)]


def mat(rng, r, c, lim=2, maxpow=1):
    return [[dy(rng, lim, maxpow) for _ in range(c)] for _ in range(r)]


def odim_of(kind, idim, nd):
    if kind in ("fun", "acc", "boom", "delay", "input", "output", "fbadd"):
        return idim
    if kind in ("res", "resext", "resfb"):
        return len(nd["W"])
    if kind == "lin":
        return len(nd["bias"])
    if kind == "nvar":
        lin = nd["delay"] * idim
        return lin + comb(lin + nd["order"] - 1, nd["order"])
    raise ValueError(kind)


def make_node(rng, i, kind, idim, tag=""):
    nd = {"id": i, "name": "n%d%s" % (i, tag), "kind": kind, "idim": idim}
    if kind == "fun":
        nd.update(a=dy(rng, 3, 1), b=dy(rng, 3, 1))
    elif kind in ("res", "resext", "resfb"):
        u = rng.randint(2, 3)
        lr = dy(rng, 0, 0)
        lrs = [str(Fraction(rng.randint(1, 4), 4)) for _ in range(u)] if rng.random() < 0.4 else [str(Fraction(rng.randint(1, 4), 4))] * u
        nd.update(W=mat(rng, u, u, 2, 2), Win=mat(rng, u, idim, 2, 1), bias=[dy(rng, 2, 1) for _ in range(u)], lr=lrs,
                  act=rng.choice(["id", "relu", "hardtanh", "half"]))
    elif kind == "lin":
        o = rng.randint(1, 2)
        nd.update(Wout=mat(rng, idim, o, 2, 1), bias=[dy(rng, 2, 1) for _ in range(o)])
    elif kind == "delay":
        nd.update(delay=rng.randint(1, 2))
    elif kind == "nvar":
        nd.update(delay=rng.randint(1, 2), order=rng.randint(1, 2), strides=rng.randint(1, 2))
    elif kind == "boom":
        nd.update(k=rng.randint(1, 6))
    elif kind == "fbadd":
        nd.update(c="100")
    nd["odim"] = odim_of(kind, idim, nd)
    return nd


def gen_dag(rng, n=None, kinds=None, max_dim=2, p_edge=0.45, hidden_ok=True):
    """Random DAG over n nodes (index order is a topological order).  Returns (nodes, edges, entries)."""
    n = n or rng.randint(2, 6)
    kinds = kinds or (["fun", "fun", "acc", "res", "lin"] + (["resext", "delay", "nvar"] if hidden_ok else []))
    edges, par = [], {i: [] for i in range(n)}
    for j in range(1, n):
        for i in range(j):
            if rng.random() < p_edge:
                edges.append([i, j])
                par[j].append(i)
        if not par[j] and rng.random() < 0.7:
            i = rng.randrange(j)
            edges.append([i, j])
            par[j].append(i)
    nodes = []
    din = rng.randint(1, max_dim)
    for j in range(n):
        idim = din if not par[j] else sum(nodes[i]["odim"] for i in par[j])
        kind = rng.choice(kinds)
        if kind == "nvar" and idim > 2:
            kind = "fun"
        if idim > 6 and kind in ("nvar",):
            kind = "fun"
        nodes.append(make_node(rng, j, kind, idim))
    entries = [j for j in range(n) if not par[j]]
    return nodes, edges, entries, din


def chain_models(nodes, edges):
    return [{"nodes": [nd["id"] for nd in nodes], "edges": edges}]


def gen_esn(rng, fb=None):
    """The ESN convenience node: reservoir (internal equation) >> readout with fixed weights, optionally with feedback readout -> reservoir,
    made by the constructor flag or wired by hand.  Returns (nodes, models, din)."""
    d = rng.randint(1, 2)
    fb = rng.random() < 0.5 if fb is None else fb
    res = make_node(rng, 0, "res", d)
    u = len(res["W"])
    o = rng.randint(1, 2)
    if fb:
        res.update(kind="resfb", Wfb=mat(rng, u, o, 2, 1), fbact=rng.choice(["id", "relu", "half"]), fb={"node": 1})
    rd = make_node(rng, 1, "lin", u)
    rd.update(Wout=mat(rng, u, o, 2, 2), bias=[dy(rng, 2, 1) for _ in range(o)])
    rd["odim"] = o
    return [res, rd], [{"nodes": [0, 1], "edges": [[0, 1]], "build": "esn", "wire": rng.choice(["ctor", "hand"])}], d


# ------------------------------------------------------------------------------------------ feedback topologies (C05)
def gen_fb(rng, family=None):
    """Feedback scenario skeleton: (nodes, models, receiver id, sender id or None, pre_ops)."""
    fam = family or rng.choice(["down", "up", "outside", "sub-up", "sub-down", "resfb", "resfb-fun", "esn-fb"])
    d = rng.randint(1, 2)
    pre = []
    if fam == "down":
        skind = rng.choice(["fun", "acc", "lin"])
        n2 = make_node(rng, 2, skind, d)
        if skind == "lin":
            n2.update(Wout=mat(rng, d, d, 2, 1), bias=[dy(rng, 2, 1) for _ in range(d)])
            n2["odim"] = d
        r = make_node(rng, 1, "fbadd", d)
        r["fb"] = {"node": 2}
        nodes = [make_node(rng, 0, "fun", d), r, n2]
        models = [{"nodes": [0, 1, 2], "edges": [[0, 1], [1, 2]]}]
        recv, send = 1, 2
    elif fam == "up":
        r = make_node(rng, 1, "fbadd", d)
        r["fb"] = {"node": 0}
        nodes = [make_node(rng, 0, rng.choice(["fun", "acc"]), d), r]
        models = [{"nodes": [0, 1], "edges": [[0, 1]]}]
        recv, send = 1, 0
    elif fam == "outside":
        r = make_node(rng, 1, "fbadd", d)
        r["fb"] = {"node": 2}
        nodes = [make_node(rng, 0, "fun", d), r, make_node(rng, 2, rng.choice(["fun", "acc"]), d)]
        models = [{"nodes": [0, 1], "edges": [[0, 1]]}, {"nodes": [2], "edges": []}]
        pre = [{"op": "call", "model": 1, "x": rows(rng, 1, d)[0]}]
        recv, send = 1, 2
    elif fam == "sub-up":
        r = make_node(rng, 2, "fbadd", d)
        r["fb"] = {"model": {"nodes": [0, 1], "edges": [[0, 1]], "outs": [1]}}
        nodes = [make_node(rng, 0, "fun", d), make_node(rng, 1, rng.choice(["acc", "fun"]), d), r]
        models = [{"nodes": [0, 1, 2], "edges": [[0, 1], [1, 2]]}]
        recv, send = 2, None
    elif fam == "sub-down":
        r = make_node(rng, 0, "fbadd", d)
        r["fb"] = {"model": {"nodes": [1, 2], "edges": [[1, 2]], "outs": [2]}}
        nodes = [r, make_node(rng, 1, "fun", d), make_node(rng, 2, rng.choice(["acc", "fun"]), d)]
        models = [{"nodes": [0, 1, 2], "edges": [[0, 1], [1, 2]]}]
        recv, send = 0, None
    elif fam == "resfb-fun":  # reservoir with Wfb fed back by a plain (non-trainable) downstream node: forcing by receiver name is allowed
        res = make_node(rng, 0, "res", d)
        u = len(res["W"])
        res.update(kind="resfb", Wfb=mat(rng, u, u, 2, 1), fbact=rng.choice(["id", "relu", "half"]), fb={"node": 1})
        nodes = [res, make_node(rng, 1, rng.choice(["fun", "acc"]), u)]
        models = [{"nodes": [0, 1], "edges": [[0, 1]]}]
        recv, send = 0, 1
    elif fam == "esn-fb":  # the ESN convenience node with feedback readout -> reservoir (constructor flag or hand-wired)
        nodes, models, d = gen_esn(rng, fb=True)
        recv, send = 0, 1
    else:  # resfb: reservoir with Wfb fed back by its readout
        res = make_node(rng, 0, "res", d)
        u = len(res["W"])
        o = rng.randint(1, 2)
        res.update(kind="resfb", Wfb=mat(rng, u, o, 2, 1), fbact=rng.choice(["id", "relu", "half"]), fb={"node": 1})
        rd = make_node(rng, 1, "lin", u)
        rd.update(Wout=mat(rng, u, o, 2, 2), bias=[dy(rng, 2, 1) for _ in range(o)])
        rd["odim"] = o
        nodes = [res, rd]
        models = [{"nodes": [0, 1], "edges": [[0, 1]]}]
        recv, send = 0, 1
    return {"family": fam, "dim": d, "nodes": nodes, "models": models, "recv": recv, "send": send, "pre": pre}
