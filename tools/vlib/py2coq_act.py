"""Fail-closed translator: reservoirpy/activationsfunc.py (Python source, via `ast`) -> coq/gen/Gen_activations.v.

The translator is the *tie* of property C18: the theorems of coq/props/C18.v are about the definitions it emits from
the CURRENT source text.  It understands a deliberately tiny fragment of Python/numpy and returns an error for
everything else (unknown numpy function, unexpected statement, extra function, changed decorator, ...), so a changed
source either changes the emitted definitions (and the proofs are re-checked against them) or fails translation.

Emitted, for every activation function f:
  act_f            the function (arrays = `list R`, flattened; `@_elementwise` = scalar function `act_f_s` + `map`)
  act_f_exp_args   every argument handed to `exp`   (list R, in evaluation order)
  act_f_divisors   every divisor of a `/`           (list R)
  act_f_log_args   every argument handed to `ln`    (list R; `np.log1p(z)` contributes `1 + z`)
and `act_table`, the name -> function table of `get_function`.

Intermediate representation (also evaluated exactly in Python by `Eval`, used by the C18 correspondence run):
  scalar expr : ('var',n) ('elt',) ('const',Fraction) ('neg',e) ('bin',op,a,b) ('call',f,[e..]) ('lsum',A) ('lmax',A)
  array  expr : ('arr', base_var_name, body)   == map (fun t => body) base      (body may mention ('elt',))
  condition   : ('cmp', op, a, b)
  statements  : ('let',name,kind,value,rest) ('if',cond,then,else) ('ifempty',arrvar,then,else) ('ret',kind,value)
"""
import ast
import os
from fractions import Fraction

FUNCS = ["softmax", "softplus", "sigmoid", "tanh", "identity", "relu"]
ELT = "t"
RESERVED = {ELT, "exp", "ln", "tanh", "Rmax", "Rabs", "map", "lsum", "lmax", "nil", "cons", "R", "list", "if", "then",
            "else", "let", "in", "match", "with", "end", "fun", "forall", "exists", "Rlt_dec", "Rle_dec", "Rgt_dec",
            "Rge_dec", "Req_EM_T"}

# The only accepted shape of the wrapper (compared by ast.dump, docstrings/comments aside).  u has shape (1, *x.shape);
# the `u.size == 0` guard returns u[0], the empty array of x's shape, without calling np.vectorize (which can not infer
# an output type from no element): that is exactly `map f [] = []`, so `map` models both paths and no separate case is emitted.
EXPECTED_ELEMENTWISE = '''
def _elementwise(func):
    vect = np.vectorize(func)

    @wraps(func)
    def vect_wrapper(*args, **kwargs):
        u = np.asanyarray(args)
        if u.size == 0:
            return u[0]
        v = vect(u)
        return v[0]

    return vect_wrapper
'''

EXPECTED_GET_FUNCTION_TAIL = '''
if index.get(name) is None:
    raise ValueError(f"Function name must be one of {[k for k in index.keys()]}")
else:
    return index[name]
'''

EXPECTED_IMPORTS = ["from functools import wraps", "from typing import Callable", "import numpy as np"]


class Reject(Exception):
    pass


def _where(node):
    return "line %s" % getattr(node, "lineno", "?")


def _strip_doc(body):
    if body and isinstance(body[0], ast.Expr) and isinstance(body[0].value, ast.Constant) and isinstance(body[0].value.value, str):
        return body[1:]
    return body


def _dump_nodoc(fn):
    fn = ast.parse(ast.unparse(fn)).body[0]
    fn.body = _strip_doc(fn.body)
    return ast.dump(fn, annotate_fields=True, include_attributes=False)


def _ident(name, node):
    import re
    if not re.match(r"^_?[a-z][a-z0-9_]*$", name) or name in RESERVED or name.startswith("act_"):
        raise Reject("%s: identifier %r is not accepted" % (_where(node), name))
    return name


def _np_attr(node):
    """np.<name> -> name, else None"""
    if isinstance(node, ast.Attribute) and isinstance(node.value, ast.Name) and node.value.id == "np":
        return node.attr
    return None


# ----------------------------------------------------------------------------------------------- expressions
class Env:
    def __init__(self):
        self.kind = {}          # var -> 'S' | 'A'
        self.base = {}          # array var -> root array it has the length of
        self.nonempty = set()   # array vars known to be non-empty here

    def copy(self):
        e = Env()
        e.kind, e.base, e.nonempty = dict(self.kind), dict(self.base), set(self.nonempty)
        return e


SCALAR_CALLS = {"exp": ("exp", 1), "log": ("ln", 1), "tanh": ("tanh", 1), "abs": ("Rabs", 1), "absolute": ("Rabs", 1),
                "maximum": ("Rmax", 2), "log1p": ("log1p", 1)}
BINOPS = {ast.Add: "+", ast.Sub: "-", ast.Mult: "*", ast.Div: "/"}
CMPOPS = {ast.Lt: "<", ast.LtE: "<=", ast.Gt: ">", ast.GtE: ">="}


def _const(node):
    v = node.value
    if isinstance(v, bool) or not isinstance(v, (int, float)):
        raise Reject("%s: constant %r is not a number" % (_where(node), v))
    if isinstance(v, float) and (v != v or v in (float("inf"), float("-inf"))):
        raise Reject("%s: non-finite constant" % _where(node))
    return ("const", Fraction(v))


def _combine(kinds_vals, build, node):
    """Lift a scalar constructor over operands that are scalars or arrays with one common base."""
    bases = {v[1] for k, v in kinds_vals if k == "A"}
    if not bases:
        return "S", build([v for _, v in kinds_vals])
    if len(bases) > 1:
        raise Reject("%s: operation between arrays built from different variables (%s)" % (_where(node), sorted(bases)))
    base = bases.pop()
    parts = []
    for k, v in kinds_vals:
        if k == "A":
            parts.append(v[2])
        else:
            if _mentions_elt(v):
                raise Reject("%s: internal: scalar mentions the element variable" % _where(node))
            parts.append(v)
    return "A", ("arr", base, build(parts))


def _mentions_elt(e):
    if e[0] == "elt":
        return True
    if e[0] in ("var", "const"):
        return False
    if e[0] == "neg":
        return _mentions_elt(e[1])
    if e[0] == "bin":
        return _mentions_elt(e[2]) or _mentions_elt(e[3])
    if e[0] == "call":
        return any(_mentions_elt(a) for a in e[2])
    if e[0] in ("lsum", "lmax"):
        return False  # the array body binds its own element variable
    raise Reject("internal: unknown IR node %r" % (e[0],))


def expr(node, env):
    """-> (kind, ir)"""
    if isinstance(node, ast.Constant):
        return "S", _const(node)
    if isinstance(node, ast.Name):
        n = node.id
        if n not in env.kind:
            raise Reject("%s: unknown variable %r" % (_where(node), n))
        if env.kind[n] == "S":
            return "S", ("var", n)
        return "A", ("arr", n, ("elt",))
    if isinstance(node, ast.UnaryOp):
        if isinstance(node.op, ast.USub):
            k, v = expr(node.operand, env)
            return _combine([(k, v)], lambda p: ("neg", p[0]), node)
        if isinstance(node.op, ast.UAdd):
            return expr(node.operand, env)
        raise Reject("%s: unary operator %s" % (_where(node), type(node.op).__name__))
    if isinstance(node, ast.BinOp):
        if type(node.op) not in BINOPS:
            raise Reject("%s: binary operator %s" % (_where(node), type(node.op).__name__))
        op = BINOPS[type(node.op)]
        a, b = expr(node.left, env), expr(node.right, env)
        return _combine([a, b], lambda p: ("bin", op, p[0], p[1]), node)
    if isinstance(node, ast.Call):
        if node.keywords:
            raise Reject("%s: keyword arguments in a call" % _where(node))
        f = _np_attr(node.func)
        if f is not None:
            if f in ("asarray", "asanyarray"):
                if len(node.args) != 1:
                    raise Reject("%s: np.%s arity" % (_where(node), f))
                k, v = expr(node.args[0], env)
                if k != "A":
                    raise Reject("%s: np.%s of a scalar" % (_where(node), f))
                return k, v
            if f in ("max", "amax", "sum"):
                if len(node.args) != 1:
                    raise Reject("%s: np.%s with axis/extra arguments" % (_where(node), f))
                k, v = expr(node.args[0], env)
                return _reduce("lmax" if f != "sum" else "lsum", k, v, env, node)
            if f in SCALAR_CALLS:
                name, ar = SCALAR_CALLS[f]
                if len(node.args) != ar:
                    raise Reject("%s: np.%s expects %d argument(s)" % (_where(node), f, ar))
                args = [expr(a, env) for a in node.args]
                if name == "log1p":
                    return _combine(args, lambda p: ("call", "ln", [("bin", "+", ("const", Fraction(1)), p[0])]), node)
                return _combine(args, lambda p: ("call", name, list(p)), node)
            raise Reject("%s: unknown numpy function np.%s" % (_where(node), f))
        if isinstance(node.func, ast.Attribute) and node.func.attr in ("sum", "max") and not node.args:
            k, v = expr(node.func.value, env)
            return _reduce("lsum" if node.func.attr == "sum" else "lmax", k, v, env, node)
        raise Reject("%s: unsupported call %s" % (_where(node), ast.unparse(node.func)))
    raise Reject("%s: unsupported expression %s" % (_where(node), type(node).__name__))


def _reduce(which, k, v, env, node):
    if k != "A":
        raise Reject("%s: %s of a scalar" % (_where(node), which))
    if which == "lmax" and env.base.get(v[1], v[1]) not in env.nonempty and v[1] not in env.nonempty:
        raise Reject("%s: maximum of a possibly empty array (numpy raises there; no `.size == 0` guard dominates it)" % _where(node))
    return "S", (which, v)


def cond(node, env):
    """-> ('cmp', op, a, b) | ('empty', arrvar)"""
    if not (isinstance(node, ast.Compare) and len(node.ops) == 1 and len(node.comparators) == 1):
        raise Reject("%s: unsupported condition" % _where(node))
    l, r, op = node.left, node.comparators[0], node.ops[0]
    if isinstance(op, ast.Eq) and isinstance(l, ast.Attribute) and l.attr == "size" and isinstance(l.value, ast.Name) \
            and isinstance(r, ast.Constant) and r.value == 0 and not isinstance(r.value, bool):
        n = l.value.id
        if env.kind.get(n) != "A":
            raise Reject("%s: .size of a non-array" % _where(node))
        return ("empty", n)
    if type(op) not in CMPOPS:
        raise Reject("%s: comparison operator %s" % (_where(node), type(op).__name__))
    (ka, a), (kb, b) = expr(l, env), expr(r, env)
    if ka != "S" or kb != "S":
        raise Reject("%s: comparison of arrays" % _where(node))
    return ("cmp", CMPOPS[type(op)], a, b)


# ----------------------------------------------------------------------------------------------- statements
def block(stmts, env, want):
    """Translate a statement list that must end in a return on every path. -> stmt IR"""
    if not stmts:
        raise Reject("a path falls off the end of the function without `return` (would return None)")
    s, rest = stmts[0], stmts[1:]
    if isinstance(s, ast.Return):
        if s.value is None:
            raise Reject("%s: bare return" % _where(s))
        if rest:
            raise Reject("%s: statements after return" % _where(s))
        k, v = expr(s.value, env)
        if k != want:
            raise Reject("%s: returns %s where %s is expected" % (_where(s), {"S": "a scalar", "A": "an array"}[k],
                                                                  {"S": "a scalar", "A": "an array"}[want]))
        return ("ret", k, v)
    if isinstance(s, ast.Assign):
        if len(s.targets) != 1 or not isinstance(s.targets[0], ast.Name):
            raise Reject("%s: unsupported assignment target" % _where(s))
        name = _ident(s.targets[0].id, s)
        if name in env.kind:
            raise Reject("%s: re-assignment of %r" % (_where(s), name))
        k, v = expr(s.value, env)
        env2 = env.copy()
        env2.kind[name] = k
        if k == "A":
            root = env.base.get(v[1], v[1])
            env2.base[name] = root
            if root in env.nonempty or v[1] in env.nonempty:
                env2.nonempty.add(name)
        return ("let", name, k, v, block(rest, env2, want))
    if isinstance(s, ast.If):
        c = cond(s.test, env)
        if s.orelse:
            if rest:
                raise Reject("%s: statements after if/else" % _where(s))
            els = s.orelse
        else:
            els = rest
        if c[0] == "empty":
            env_ne = env.copy()
            env_ne.nonempty.add(c[1])
            env_ne.nonempty.add(env.base.get(c[1], c[1]))
            return ("ifempty", c[1], block(s.body, env.copy(), want), block(els, env_ne, want))
        return ("if", c, block(s.body, env.copy(), want), block(els, env.copy(), want))
    raise Reject("%s: unsupported statement %s" % (_where(s), type(s).__name__))


def function(fn):
    """-> dict(name, elementwise, params=[(name, kind, default)], body=stmt IR, line)"""
    decos = fn.decorator_list
    if len(decos) > 1 or (decos and not (isinstance(decos[0], ast.Name) and decos[0].id == "_elementwise")):
        raise Reject("%s: unexpected decorator on %s" % (_where(fn), fn.name))
    elementwise = bool(decos)
    a = fn.args
    if a.vararg or a.kwarg or a.kwonlyargs or a.posonlyargs:
        raise Reject("%s: unsupported parameter kinds in %s" % (_where(fn), fn.name))
    defaults = [None] * (len(a.args) - len(a.defaults)) + list(a.defaults)
    env, params = Env(), []
    for i, (p, d) in enumerate(zip(a.args, defaults)):
        name = _ident(p.arg, p)
        ann = ast.unparse(p.annotation) if p.annotation is not None else None
        if elementwise:
            if i > 0:
                raise Reject("%s: an _elementwise function takes one argument" % _where(fn))
            kind = "S"
        elif ann == "np.ndarray":
            kind = "A"
        elif ann == "float":
            kind = "S"
        else:
            raise Reject("%s: parameter %s of %s has annotation %r" % (_where(fn), name, fn.name, ann))
        dv = None
        if d is not None:
            if kind != "S" or not isinstance(d, ast.Constant):
                raise Reject("%s: unsupported default value" % _where(fn))
            dv = _const(d)[1]
        if name in env.kind:
            raise Reject("%s: duplicate parameter" % _where(fn))
        env.kind[name] = kind
        params.append((name, kind, dv))
    if not params or (not elementwise and params[0][1] != "A"):
        raise Reject("%s: first parameter of %s must be the input array" % (_where(fn), fn.name))
    body = block(_strip_doc(fn.body), env, "S" if elementwise else "A")
    return {"name": fn.name, "elementwise": elementwise, "params": params, "body": body, "line": fn.lineno}


def get_function_table(fn):
    body = _strip_doc(fn.body)
    if [x.arg for x in fn.args.args] != ["name"] or len(body) != 2:
        raise Reject("%s: get_function has an unexpected shape" % _where(fn))
    asg, tail = body
    if not (isinstance(asg, ast.Assign) and len(asg.targets) == 1 and isinstance(asg.targets[0], ast.Name)
            and asg.targets[0].id == "index" and isinstance(asg.value, ast.Dict)):
        raise Reject("%s: get_function does not start with `index = {...}`" % _where(fn))
    exp_tail = ast.parse(EXPECTED_GET_FUNCTION_TAIL).body[0]
    if ast.dump(ast.parse(ast.unparse(tail)).body[0]) != ast.dump(exp_tail):
        raise Reject("%s: the lookup part of get_function changed" % _where(tail))
    table = []
    for k, v in zip(asg.value.keys, asg.value.values):
        if not (isinstance(k, ast.Constant) and isinstance(k.value, str) and isinstance(v, ast.Name)):
            raise Reject("%s: unexpected entry in get_function's table" % _where(asg))
        if k.value in [a for a, _ in table]:
            raise Reject("%s: duplicate key %r in get_function's table" % (_where(asg), k.value))
        table.append((k.value, v.id))
    return table


def translate_module(src):
    """-> dict(funcs={name: fdict}, table=[(key, fname)])   (raises Reject)"""
    tree = ast.parse(src)
    body = _strip_doc(tree.body)
    imports, funcs, table, seen_elementwise = [], {}, None, False
    for s in body:
        if isinstance(s, (ast.Import, ast.ImportFrom)):
            imports.append(ast.unparse(s))
        elif isinstance(s, ast.FunctionDef):
            if s.name == "_elementwise":
                exp_fn = ast.parse(EXPECTED_ELEMENTWISE).body[0]
                if _dump_nodoc(s) != _dump_nodoc(exp_fn):
                    raise Reject("%s: the _elementwise wrapper is not `u = np.asanyarray(args); u[0] if u.size == 0 else np.vectorize(func)(u)[0]`" % _where(s))
                if funcs:
                    raise Reject("_elementwise defined after its uses")
                seen_elementwise = True
            elif s.name == "get_function":
                table = get_function_table(s)
            elif s.name in FUNCS:
                if s.name in funcs:
                    raise Reject("%s: %s defined twice" % (_where(s), s.name))
                funcs[s.name] = function(s)
            else:
                raise Reject("%s: unexpected function %s" % (_where(s), s.name))
        else:
            raise Reject("%s: unexpected top-level statement %s" % (_where(s), type(s).__name__))
    if sorted(imports) != sorted(EXPECTED_IMPORTS):
        raise Reject("imports changed: %r" % (imports,))
    if not seen_elementwise:
        raise Reject("_elementwise is missing")
    if table is None:
        raise Reject("get_function is missing")
    missing = [f for f in FUNCS if f not in funcs]
    if missing:
        raise Reject("missing functions: %s" % missing)
    for k, v in table:
        if v not in funcs:
            raise Reject("get_function maps %r to unknown function %s" % (k, v))
    return {"funcs": funcs, "table": table}


# ----------------------------------------------------------------------------------------------- Coq printer
def coq_const(fr):
    if fr.denominator == 1:
        return "%d" % fr.numerator if fr.numerator >= 0 else "(- %d)" % (-fr.numerator)
    s = "(%d / %d)" % (abs(fr.numerator), fr.denominator)
    return s if fr.numerator >= 0 else "(- %s)" % s


def coq_arr(a):
    _, base, body = a
    if body == ("elt",):
        return base
    return "(map (fun %s => %s) %s)" % (ELT, coq_expr(body), base)


def coq_expr(e):
    t = e[0]
    if t == "var":
        return e[1]
    if t == "elt":
        return ELT
    if t == "const":
        return coq_const(e[1])
    if t == "neg":
        return "(- %s)" % coq_expr(e[1])
    if t == "bin":
        return "(%s %s %s)" % (coq_expr(e[2]), e[1], coq_expr(e[3]))
    if t == "call":
        return "(%s %s)" % (e[1], " ".join(coq_expr(a) for a in e[2]))
    if t in ("lsum", "lmax"):
        return "(%s %s)" % (t, coq_arr(e[1]))
    raise Reject("internal: cannot print %r" % (t,))


def coq_cond(c):
    _, op, a, b = c
    dec = {"<": "Rlt_dec", "<=": "Rle_dec", ">": "Rgt_dec", ">=": "Rge_dec"}[op]
    return "%s %s %s" % (dec, coq_expr(a), coq_expr(b))


def coq_value(k, v):
    return coq_arr(v) if k == "A" else coq_expr(v)


def coq_stmt(s, ind):
    p = "  " * ind
    if s[0] == "ret":
        return p + coq_value(s[1], s[2])
    if s[0] == "let":
        return p + "let %s := %s in\n%s" % (s[1], coq_value(s[2], s[3]), coq_stmt(s[4], ind))
    if s[0] == "if":
        return p + "if %s then\n%s\n%selse\n%s" % (coq_cond(s[1]), coq_stmt(s[2], ind + 1), p, coq_stmt(s[3], ind + 1))
    if s[0] == "ifempty":
        return p + "match %s with\n%s| nil =>\n%s\n%s| _ :: _ =>\n%s\n%send" % (
            s[1], p, coq_stmt(s[2], ind + 1), p, coq_stmt(s[3], ind + 1), p)
    raise Reject("internal: cannot print statement %r" % (s[0],))


# ---- instrumentation: the arguments of exp / ln and the divisors, as list-R terms
def collect_expr(e, what, wrap):
    """-> list of Coq terms of type `list R`.  `wrap(term)` turns the collected scalar term into a list term
    (a singleton at scalar level, a `map` over the base inside an array body).  Evaluation order: operands first."""
    t = e[0]
    out = []
    if t in ("var", "elt", "const"):
        return out
    if t == "neg":
        return collect_expr(e[1], what, wrap)
    if t == "bin":
        out += collect_expr(e[2], what, wrap) + collect_expr(e[3], what, wrap)
        if what == "div" and e[1] == "/":
            out.append(wrap(coq_expr(e[3])))
        return out
    if t == "call":
        for a in e[2]:
            out += collect_expr(a, what, wrap)
        if (what == "exp" and e[1] == "exp") or (what == "log" and e[1] == "ln"):
            out.append(wrap(coq_expr(e[2][0])))
        return out
    if t in ("lsum", "lmax"):
        return collect_arr(e[1], what)
    raise Reject("internal: cannot collect in %r" % (t,))


def collect_arr(a, what):
    _, base, body = a
    return collect_expr(body, what, lambda term: "(map (fun %s => %s) %s)" % (ELT, term, base))


def collect_value(k, v, what):
    if k == "A":
        return collect_arr(v, what)
    return collect_expr(v, what, lambda term: "(%s :: nil)" % term)


def _app(items, tail=None):
    items = list(items) + ([tail] if tail is not None else [])
    if not items:
        return "nil"
    return " ++ ".join(items) if len(items) > 1 else items[0]


def _is_nil(term):
    return term.strip() == "nil"


def collect_stmt(s, what, ind):
    """-> Coq term (string, possibly multi-line) of type list R"""
    p = "  " * ind
    if s[0] == "ret":
        return p + _app(collect_value(s[1], s[2], what))
    if s[0] == "let":
        here = collect_value(s[2], s[3], what)
        rest = collect_stmt(s[4], what, ind)
        if _is_nil(rest):
            return p + _app(here)
        inner = "(let %s := %s in\n%s)" % (s[1], coq_value(s[2], s[3]), rest)
        return p + _app(here, inner)
    if s[0] == "if":
        c = s[1]
        here = collect_expr(c[2], what, lambda t: "(%s :: nil)" % t) + collect_expr(c[3], what, lambda t: "(%s :: nil)" % t)
        a, b = collect_stmt(s[2], what, ind + 1), collect_stmt(s[3], what, ind + 1)
        if _is_nil(a) and _is_nil(b):
            return p + _app(here)
        inner = "(if %s then\n%s\n%selse\n%s)" % (coq_cond(c), a, p, b)
        return p + _app(here, inner)
    if s[0] == "ifempty":
        a, b = collect_stmt(s[2], what, ind + 1), collect_stmt(s[3], what, ind + 1)
        if _is_nil(a) and _is_nil(b):
            return p + "nil"
        return p + "match %s with\n%s| nil =>\n%s\n%s| _ :: _ =>\n%s\n%send" % (s[1], p, a, p, b, p)
    raise Reject("internal: cannot collect in statement %r" % (s[0],))


HEADER = """(* GENERATED by tools/vlib/py2coq_act.py from reservoirpy/activationsfunc.py -- DO NOT EDIT.
   Regenerated from the current source by `./check C18` (pregen) and by setup (tools/regen.py).
   Arrays are flattened to `list R`; `@_elementwise` (np.vectorize, with its empty-input guard: map f [] = []) is `map`; np.max / .sum() are lmax / lsum
   (model/ActPrelude.v); np.log1p z = ln (1 + z); np.maximum = Rmax; np.abs = Rabs; `if a < b` = Rlt_dec. *)
From Coq Require Import Reals List String.
From RV Require Import model.ActPrelude.
Local Open Scope R_scope.
"""


def emit(mod):
    out = [HEADER]
    for name in FUNCS:
        f = mod["funcs"][name]
        params = " ".join("(%s : %s)" % (n, "list R" if k == "A" else "R") for n, k, _ in f["params"])
        args = " ".join(n for n, _, _ in f["params"])
        out.append("(* %s: reservoirpy/activationsfunc.py:%d%s *)" % (name, f["line"], "  (@_elementwise)" if f["elementwise"] else ""))
        suffix = "_s" if f["elementwise"] else ""
        rty = "R" if f["elementwise"] else "list R"
        out.append("Definition act_%s%s %s : %s :=\n%s.\n" % (name, suffix, params, rty, coq_stmt(f["body"], 1)))
        if f["elementwise"]:
            out.append("Definition act_%s (xs : list R) : list R := map act_%s_s xs.\n" % (name, name))
        for n, k, d in f["params"]:
            if d is not None:
                out.append("Definition act_%s_default_%s : R := %s.\n" % (name, n, coq_const(d)))
        for what, nm in (("exp", "exp_args"), ("div", "divisors"), ("log", "log_args")):
            out.append("Definition act_%s_%s %s : list R :=\n%s.\n" % (name, nm, params, collect_stmt(f["body"], what, 1)))
    out.append("(* get_function: name -> function *)")
    out.append("Definition act_table : list (string * string) :=\n  %s\n  nil.\n" % "\n  ".join(
        '("%s"%%string, "%s"%%string) ::' % (k, v) for k, v in mod["table"]))
    return "\n".join(out)


def translate_source(src):
    """-> (coq_text, module_ir, None) or (None, None, error string)"""
    try:
        mod = translate_module(src)
        return emit(mod), mod, None
    except Reject as e:
        return None, None, "translation rejected: %s" % e
    except SyntaxError as e:
        return None, None, "source does not parse: %s" % e


def translate_file(path):
    try:
        src = open(path).read()
    except OSError as e:
        return None, None, "cannot read %s: %s" % (path, e)
    return translate_source(src)


# ----------------------------------------------------------------------------------------------- exact evaluator of the IR
class Eval:
    """Evaluates the IR with `decimal` arithmetic at the current context precision (second backend of the translator;
    the C18 correspondence run compares it with the real functions)."""

    def __init__(self, D):
        self.D = D  # the decimal module

    def expr(self, e, env, elt=None):
        D, t = self.D, e[0]
        if t == "var":
            return env[e[1]]
        if t == "elt":
            return elt
        if t == "const":
            return D.Decimal(e[1].numerator) / D.Decimal(e[1].denominator)
        if t == "neg":
            return -self.expr(e[1], env, elt)
        if t == "bin":
            a, b = self.expr(e[2], env, elt), self.expr(e[3], env, elt)
            return {"+": lambda: a + b, "-": lambda: a - b, "*": lambda: a * b, "/": lambda: a / b}[e[1]]()
        if t == "call":
            args = [self.expr(a, env, elt) for a in e[2]]
            f = e[1]
            if f == "exp":
                return self.exp(args[0])
            if f == "ln":
                return args[0].ln()
            if f == "tanh":
                p = self.exp(2 * args[0])
                return (p - 1) / (p + 1) if p.is_finite() else D.Decimal(1)
            if f == "Rmax":
                return max(args[0], args[1])
            if f == "Rabs":
                return abs(args[0])
            raise Reject("internal: eval of %s" % f)
        if t == "lsum":
            return sum(self.arr(e[1], env), D.Decimal(0))
        if t == "lmax":
            return max(self.arr(e[1], env))
        raise Reject("internal: eval of %r" % (t,))

    def exp(self, a):
        D = self.D
        if a < -5000000:
            return D.Decimal(0)
        if a > 5000000:
            return D.Decimal("Infinity")
        return a.exp()

    def arr(self, a, env):
        _, base, body = a
        return [self.expr(body, env, x) for x in env[base]]

    def cond(self, c, env):
        a, b = self.expr(c[2], env), self.expr(c[3], env)
        return {"<": a < b, "<=": a <= b, ">": a > b, ">=": a >= b}[c[1]]

    def stmt(self, s, env):
        if s[0] == "ret":
            return self.arr(s[2], env) if s[1] == "A" else self.expr(s[2], env)
        if s[0] == "let":
            env = dict(env)
            env[s[1]] = self.arr(s[3], env) if s[2] == "A" else self.expr(s[3], env)
            return self.stmt(s[4], env)
        if s[0] == "if":
            return self.stmt(s[2] if self.cond(s[1], env) else s[3], env)
        if s[0] == "ifempty":
            return self.stmt(s[2] if len(env[s[1]]) == 0 else s[3], env)
        raise Reject("internal: eval of statement %r" % (s[0],))

    def call(self, f, xs, **scalars):
        """f: function dict; xs: flat list of Decimals -> flat list of Decimals"""
        if f["elementwise"]:
            return [self.stmt(f["body"], {f["params"][0][0]: x}) for x in xs]
        env = {f["params"][0][0]: list(xs)}
        for n, k, d in f["params"][1:]:
            env[n] = scalars[n] if n in scalars else self.D.Decimal(d.numerator) / self.D.Decimal(d.denominator)
        return self.stmt(f["body"], env)


if __name__ == "__main__":
    import sys
    text, _, err = translate_file(sys.argv[1] if len(sys.argv) > 1 else "/repo/reservoirpy/activationsfunc.py")
    print(err if err else text)
