"""Fail-closed translator for the FEEDBACK MACHINERY of reservoirpy -> Gallina (tie (T) of property C05, DESIGN §8 C05).

Targets   reservoirpy/node.py  :: Node.zero_state, Node.state (re-emitted), Node.state_proxy, Node.set_state_proxy, Node.with_feedback
          reservoirpy/model.py :: Model._load_proxys, Model._clean_proxys, Model.with_feedback
          reservoirpy/_base.py :: DistantFeedback.clamp, DistantFeedback.call_distant_node

Built on tools/vlib/py2coq_state.py (imported, subclassed, not edited): same reading of the code - a computation is
`heap -> heap * outcome A`, try/finally is [try_finally], a @contextmanager generator is a function of the body of the `with` statement,
an ExitStack is the nesting of the contexts entered on it (coq/base/CtxPrelude.v).  What is added (vocabulary coq/base/FbPrelude.v):

  objects      node._state_proxy | node._feedback (a DistantFeedback, named by its receiver; only where `node.has_feedback` is known to
               hold: inside `if node.has_feedback:` or to the right of `.. and node.has_feedback`) | dfb._clamped, dfb._clamped_value
               (mutable) | dfb.name, dfb._sender, dfb._reduced_sender (immutable: section parameters has_fb / fb_kind)
  statements   `continue` as the last statement of a block of a `for` body | a bare `return` after the yield of a generator |
               `if dfb._reduced_sender is not None: A else: B` -> the case split on fb_kind (A sees the sender as a Model, B as a Node) |
               in the ExitStack loop also `if <pure>: x = <pure>` (a conditional rebinding)
  expressions  `a and b` where b only READS attributes | [e for n in <node list>] | len(l) <cmp> <int> | np.unique(<list of bools>) |
               l[0] | hasattr(dfb._reduced_sender, "nodes") | _distant_model_inputs(dfb._sender) | input_data[name] |
               dfb._reduced_sender.call(..) | node.zero_feedback() | d.get(name) on an optional dict once it is known not to be None |
               check_n_sequences(value, expected_dim=dfb._sender.output_dim, caller=dfb._sender, allow_n_sequences=False)
  pinned       Node.has_feedback, DistantFeedback.name (text), DistantFeedback.__init__ / __call__ / initialize (sha256 of the unparsed
               definition: they establish "`_reduced_sender` is not None iff the sender is a Model", which fb_kind encodes)
Everything else raises Reject.
"""
import ast
import hashlib

from vlib import py2coq_state as S
from vlib.py2coq_la import Reject

VERSION = "py2coq_fb 1"
Val, wrap, _where, _is_name, _is_none, _strip_doc = S.Val, S.wrap, S._where, S._is_name, S._is_none, S._strip_doc
_N, _B, _M = S._N, S._B, S._M

VEC = S.VEC
COQTYPE = dict(S.COQTYPE)
COQTYPE.update({"DFB": "nat", "FBVAL": "(@fbval F)", "OFBD": "(option (nat -> option %s))" % VEC, "LISTBOOL": "(list bool)",
                "LISTOARR": "(list (option %s))" % VEC, "NAT": "nat", "SMODEL": "smodel", "IDATA": "ID", "IX": "IX"})
INNER = dict(S.INNER)
INNER["OFBD"] = "DICTFN"
LISTOF = {"BOOL": "LISTBOOL", "OARR": "LISTOARR"}

SPECS = [
    {"file": _N, "cls": "Node", "name": "zero_state", "coq": "Node_zero_state", "params": [("self", "NODE")], "ret": "OARR", "gen": False},
    {"file": _N, "cls": "Node", "name": "state", "coq": "Node_state", "params": [("self", "NODE")], "ret": "OARR", "gen": False},
    {"file": _N, "cls": "Node", "name": "state_proxy", "coq": "Node_state_proxy", "params": [("self", "NODE")], "ret": "OARR", "gen": False},
    {"file": _N, "cls": "Node", "name": "set_state_proxy", "coq": "Node_set_state_proxy", "params": [("self", "NODE"), ("value", "OARR")],
     "ret": "UNIT", "gen": False},
    {"file": _M, "cls": "Model", "name": "_load_proxys", "coq": "Model_load_proxys", "params": [("self", "MODEL"), ("keep", "BOOL")],
     "ret": "UNIT", "gen": False},
    {"file": _M, "cls": "Model", "name": "_clean_proxys", "coq": "Model_clean_proxys", "params": [("self", "MODEL")], "ret": "UNIT", "gen": False},
    {"file": _B, "cls": "DistantFeedback", "name": "clamp", "coq": "DistantFeedback_clamp", "params": [("self", "DFB"), ("value", "ARR")],
     "ret": "UNIT", "gen": False},
    {"file": _B, "cls": "DistantFeedback", "name": "call_distant_node", "coq": "DistantFeedback_call_distant_node", "params": [("self", "DFB")],
     "ret": "FBVAL", "gen": False},
    {"file": _N, "cls": "Node", "name": "with_feedback", "coq": "Node_with_feedback",
     "params": [("self", "NODE"), ("feedback", "OARR"), ("stateful", "BOOL"), ("reset", "BOOL")], "ret": None, "gen": True},
    {"file": _M, "cls": "Model", "name": "with_feedback", "coq": "Model_with_feedback",
     "params": [("self", "MODEL"), ("feedback", "OFBD"), ("stateful", "BOOL"), ("reset", "BOOL")], "ret": None, "gen": True},
]

# properties pinned textually: (file, class, name) -> statements of the body (docstring stripped)
PINNED = dict(S.PINNED)
PINNED.update({(_N, "Node", "has_feedback"): ["return self._feedback is not None"],
               (_B, "DistantFeedback", "name"): ["return self._sender.name"]})
# whole definitions pinned by the sha256 of their unparsed text (comments and layout do not count)
PINNED_SHA = {
    (_B, "DistantFeedback", "__init__"): "9b7304214fb07b8ecd6f53dbd0720c2325ef315d6f99be5daf9d1a7733f6bbec",
    (_B, "DistantFeedback", "__call__"): "a8edad3511835cb7e175a1c2926e6cbc497df56fdcb3e02b2dee70614628ab7b",
    (_B, "DistantFeedback", "initialize"): "7d23139bc3b98f9aa67b509e4826cf76a7d9c893b842fdbb7f99126db979de1a",
}
IMPORTS = {_N: dict(S.IMPORTS[_N]),
           _B: {"np": "import numpy", "_distant_model_inputs": "def", "check_n_sequences": "def", "DistantFeedback": "def"},
           _M: dict(S.IMPORTS[_M])}
BUILTINS = ("isinstance", "RuntimeError", "TypeError", "len", "hasattr")

EXTRA_RESERVED = set("""sm sender_node has_fb fb_kind check_n_ok zero_feedback distant_model_inputs idata_item reduced_model_call
reduced_node_call ID IX fbval FbArr FbList dfb_kind DNode DModel dfb_name smodel sm_name sm_nodes sm_inputs sm_outputs sm_red_is_model
sm_red_name np_unique_bool py_item0 py_check_n_sequences wr_state_proxy wr_clamped wr_clamped_value a_state_proxy a_clamped a_clamped_value
length Nat""".split())

CMP = {ast.Gt: "Nat.ltb %(c)s %(e)s", ast.GtE: "Nat.leb %(c)s %(e)s", ast.Lt: "Nat.ltb %(e)s %(c)s", ast.LtE: "Nat.leb %(e)s %(c)s",
       ast.Eq: "Nat.eqb %(e)s %(c)s", ast.NotEq: "negb (Nat.eqb %(e)s %(c)s)"}


def coerce(v, want, where):
    if v.kind == want:
        return v.p()
    if want in INNER and v.kind == INNER[want]:
        return "(Some %s)" % v.p()
    if v.kind == "NONE" and want in ("OARR", "ODICT", "ODIM", "OFBD"):
        return "None"
    if want == "FBVAL":
        if v.kind in ("OARR", "ARR", "NONE"):
            return "(FbArr %s)" % coerce(v, "OARR", where)
        if v.kind == "LISTOARR":
            return "(FbList %s)" % v.p()
    return S.coerce(v, want, where)


def _only_reads(pre):
    return all(o.startswith("bind (rd ") for o, _ in pre)


class FbTr(S.FnTr):
    def ident(self, n, node):
        if n in EXTRA_RESERVED:
            raise Reject("%s: name %r cannot be used as a Gallina identifier" % (_where(node), n))
        return S.FnTr.ident(self, n, node)

    def method(self, recv_kind, name, node):
        cls = {"NODE": "Node", "MODEL": "Model", "DFB": "DistantFeedback"}.get(recv_kind)
        sp = self.done.get((cls, name)) if cls else None
        if sp is None:
            raise Reject("%s: method %s of a %s is not a translated function" % (_where(node), name, recv_kind))
        return sp

    # ------------------------------------------------------------------ expressions
    def ex(self, node, env):
        if isinstance(node, ast.Compare) and len(node.ops) == 1:
            op, rhs = node.ops[0], node.comparators[0]
            if isinstance(op, (ast.Is, ast.IsNot)) and _is_none(rhs):
                if isinstance(node.left, ast.Attribute) and node.left.attr == "_reduced_sender":
                    raise Reject("%s: `_reduced_sender is None` may only be the test of an if statement" % _where(node))
                if isinstance(node.left, ast.Name) and node.left.id in env and env[node.left.id].kind == "OFBD":
                    t = "match %s with None => true | Some _ => false end" % env[node.left.id].text
                    return [], Val("BOOL", t if isinstance(op, ast.Is) else "negb (%s)" % t)
                return S.FnTr.ex(self, node, env)
            if type(op) in CMP and isinstance(rhs, ast.Constant) and type(rhs.value) is int and rhs.value >= 0:
                pre, e = self.ex(node.left, env)
                if e.kind != "NAT":
                    raise Reject("%s: comparison of a %s with an integer" % (_where(node), e.kind))
                return pre, Val("BOOL", CMP[type(op)] % {"c": str(rhs.value), "e": e.p()})
            raise Reject("%s: comparison outside the vocabulary: %s" % (_where(node), ast.unparse(node)))
        if isinstance(node, ast.BoolOp) and isinstance(node.op, ast.And) and len(node.values) == 2:
            pl, a = self.ex(node.values[0], env)
            env2 = self.with_facts(env, node.values[0])
            pr, b = self.ex(node.values[1], env2)
            if not _only_reads(pr):
                raise Reject("%s: the right operand of `and` does more than read attributes" % _where(node))
            if a.kind != "BOOL" or b.kind != "BOOL":
                raise Reject("%s: `and` on %s, %s" % (_where(node), a.kind, b.kind))
            return pl + pr, Val("BOOL", "andb %s %s" % (a.p(), b.p()))
        if isinstance(node, ast.ListComp):
            return self.listcomp(node, env)
        if isinstance(node, ast.Subscript):
            pre, o = self.ex(node.value, env)
            if o.kind == "LISTOARR" and isinstance(node.slice, ast.Constant) and node.slice.value == 0 and type(node.slice.value) is int:
                t = self.fresh()
                return pre + [("bind (py_item0 %s) (fun %s =>" % (o.p(), t), ")")], Val("OARR", t)
            if o.kind == "IDATA" and not pre:
                pi, i = self.ex(node.slice, env)
                if i.kind != "NODE" or pi:
                    raise Reject("%s: input_data[%s]" % (_where(node), i.kind))
                return [], Val("IX", "idata_item %s %s" % (o.p(), i.p()))
            return S.FnTr.ex(self, node, env)
        return S.FnTr.ex(self, node, env)

    def with_facts(self, env, test):
        """env + `X.has_feedback` known to hold when `test` holds"""
        if isinstance(test, ast.BoolOp) and isinstance(test.op, ast.And):
            for v in test.values:
                env = self.with_facts(env, v)
            return env
        if isinstance(test, ast.Attribute) and test.attr == "has_feedback":
            pre, o = self.ex(test.value, env)
            if o.kind == "NODE" and not pre:
                env = dict(env)
                env["%hasfb"] = set(env.get("%hasfb", set())) | {o.text}
        return env

    def listcomp(self, node, env):
        if len(node.generators) != 1:
            raise Reject("%s: list comprehension with several generators" % _where(node))
        g = node.generators[0]
        if g.ifs or g.is_async or not isinstance(g.target, ast.Name):
            raise Reject("%s: list comprehension outside the vocabulary" % _where(node))
        pl, l = self.ex(g.iter, env)
        if l.kind != "NODELIST" or pl:
            raise Reject("%s: list comprehension over a %s" % (_where(node), l.kind))
        v = self.ident(g.target.id, node)
        env2 = dict(env)
        env2[g.target.id] = Val("NODE", v)
        pv, val = self.ex(node.elt, env2)
        if val.kind not in LISTOF:
            raise Reject("%s: a list of %s" % (_where(node), val.kind))
        t = self.fresh()
        inner = wrap(pv, "ret %s" % val.p())
        return [("bind (py_map %s (fun %s => %s)) (fun %s =>" % (l.p(), v, inner, t), ")")], Val(LISTOF[val.kind], t)

    def attribute(self, node, env):
        pre, o = self.ex(node.value, env)
        a = node.attr
        if o.kind == "NODE":
            if a == "_state_proxy":
                t = self.fresh()
                return pre + [("bind (rd a_state_proxy %s) (fun %s =>" % (o.p(), t), ")")], Val("OARR", t)
            if a == "has_feedback":
                return pre, Val("BOOL", "has_fb %s" % o.p())
            if a == "_feedback":
                if o.text not in env.get("%hasfb", set()):
                    raise Reject("%s: %s where `.has_feedback` is not known to hold" % (_where(node), ast.unparse(node)))
                return pre, Val("DFB", o.text)
        if o.kind == "MODEL" and a == "_nodes":          # Model.nodes is pinned to `return self._nodes`
            return pre, Val("NODELIST", o.text)
        if o.kind == "DFB":
            if a == "_clamped":
                t = self.fresh()
                return pre + [("bind (rd a_clamped %s) (fun %s =>" % (o.p(), t), ")")], Val("BOOL", t)
            if a == "_clamped_value":
                t = self.fresh()
                return pre + [("bind (rd a_clamped_value %s) (fun %s =>" % (o.p(), t), ")")], Val("OARR", t)
            if a == "name":
                return pre, Val("NODE", "dfb_name (fb_kind %s)" % o.p())
            if a in ("_sender", "_reduced_sender"):
                ref = env.get("%kind", {}).get(o.text)
                if ref is None:
                    raise Reject("%s: %s outside the branches of `if self._reduced_sender is not None`" % (_where(node), ast.unparse(node)))
                if a == "_sender":
                    return pre, (Val("SMODEL", "sm") if ref == "model" else Val("NODE", "sender_node"))
                if ref == "model":
                    return pre, Val("RED", "sm")
                raise Reject("%s: _reduced_sender is None here" % _where(node))
        if o.kind == "SMODEL":
            if a == "nodes":
                return pre, Val("NODELIST", "sm_nodes %s" % o.p())
            if a == "output_nodes":
                return pre, Val("NODELIST", "sm_outputs %s" % o.p())
            if a == "input_nodes":
                return pre, Val("NODELIST", "sm_inputs %s" % o.p())
        if o.kind == "RED" and a == "name":
            return pre, Val("NODE", "sm_red_name %s" % o.p())
        if pre:
            raise Reject("%s: attribute .%s of a %s is outside the vocabulary" % (_where(node), a, o.kind))
        return S.FnTr.attribute(self, node, env)

    def call(self, node, env):
        f = node.func
        if _is_name(f, "len") and len(node.args) == 1 and not node.keywords:
            pre, v = self.ex(node.args[0], env)
            if v.kind not in ("LISTBOOL", "LISTOARR", "NODELIST"):
                raise Reject("%s: len of a %s" % (_where(node), v.kind))
            return pre, Val("NAT", "length %s" % v.p())
        if isinstance(f, ast.Attribute) and _is_name(f.value, "np") and f.attr == "unique":
            if len(node.args) != 1 or node.keywords:
                raise Reject("%s: np.unique with options" % _where(node))
            pre, v = self.ex(node.args[0], env)
            if v.kind != "LISTBOOL":
                raise Reject("%s: np.unique of a %s" % (_where(node), v.kind))
            return pre, Val("LISTBOOL", "np_unique_bool %s" % v.p())
        if _is_name(f, "hasattr"):
            if not (len(node.args) == 2 and not node.keywords and isinstance(node.args[1], ast.Constant) and node.args[1].value == "nodes"):
                raise Reject("%s: hasattr outside the vocabulary" % _where(node))
            pre, v = self.ex(node.args[0], env)
            if v.kind != "RED" or pre:
                raise Reject("%s: hasattr(%s, 'nodes')" % (_where(node), v.kind))
            return [], Val("BOOL", "sm_red_is_model %s" % v.p())
        if _is_name(f, "_distant_model_inputs"):
            if len(node.args) != 1 or node.keywords:
                raise Reject("%s: _distant_model_inputs(..)" % _where(node))
            pre, v = self.ex(node.args[0], env)
            if v.kind != "SMODEL" or pre:
                raise Reject("%s: _distant_model_inputs of a %s" % (_where(node), v.kind))
            t = self.fresh()
            return [("bind (distant_model_inputs %s) (fun %s =>" % (v.p(), t), ")")], Val("IDATA", t)
        if _is_name(f, "check_n_sequences"):
            kw = {k.arg: ast.unparse(k.value) for k in node.keywords}
            if len(node.args) != 1 or kw != {"expected_dim": "self._sender.output_dim", "caller": "self._sender", "allow_n_sequences": "False"}:
                raise Reject("%s: check_n_sequences must be called as (value, expected_dim=self._sender.output_dim, caller=self._sender, "
                             "allow_n_sequences=False)" % _where(node))
            pa, a = self.ex(node.args[0], env)
            me = env.get("self")
            if a.kind != "ARR" or me is None or me.kind != "DFB":
                raise Reject("%s: check_n_sequences on a %s" % (_where(node), a.kind))
            t = self.fresh()
            return pa + [("bind (py_check_n_sequences check_n_ok %s %s) (fun %s =>" % (me.p(), a.p(), t), ")")], Val("ARR", t)
        if isinstance(f, ast.Attribute):
            # d.get(name) on a dict that was an optional parameter, refined by `is not None`
            if f.attr == "get" and isinstance(f.value, ast.Name) and f.value.id in env and env[f.value.id].kind == "OFBD":
                raise Reject("%s: %s.get(..) where %s may be None" % (_where(node), f.value.id, f.value.id))
            if f.attr == "zero_feedback" and not node.args and not node.keywords:
                pre, o = self.ex(f.value, env)
                if o.kind != "NODE" or pre:
                    raise Reject("%s: zero_feedback of a %s" % (_where(node), o.kind))
                t = self.fresh()
                return [("bind (zero_feedback %s) (fun %s =>" % (o.p(), t), ")")], Val("OARR", t)
            if f.attr == "call" and isinstance(f.value, ast.Attribute) and f.value.attr == "_reduced_sender":
                pre, o = self.ex(f.value, env)
                if o.kind != "RED" or pre or len(node.args) != 1 or node.keywords:
                    raise Reject("%s: call of the reduced sender outside the vocabulary" % _where(node))
                pa, a = self.ex(node.args[0], env)
                if pa or a.kind not in ("IDATA", "IX"):
                    raise Reject("%s: the reduced sender is called on a %s" % (_where(node), a.kind))
                t = self.fresh()
                fn = "reduced_model_call" if a.kind == "IDATA" else "reduced_node_call"
                return [("bind (%s %s %s) (fun %s =>" % (fn, o.p(), a.p(), t), ")")], Val("FBVAL", t)
            if isinstance(f.value, ast.Attribute) and f.value.attr == "_feedback":
                pre, o = self.ex(f.value, env)             # a DFB (or rejected)
                sp = self.method(o.kind, f.attr, node)
                if sp["gen"]:
                    raise Reject("%s: context manager %s used as a value" % (_where(node), f.attr))
                pa, args = self.bind_args(sp, node, env)
                t = self.fresh()
                rk = sp["ret"]
                val = Val("UNIT", "tt") if rk in ("SELF", "UNIT") else Val(rk, t)
                return pre + pa + [("bind (%s %s) (fun %s =>" % (sp["coq"], " ".join([o.p()] + args), "_" if rk in ("SELF", "UNIT") else t), ")")], val
        return S.FnTr.call(self, node, env)

    # ------------------------------------------------------------------ statements
    def block(self, stmts, env, mode, k):
        if not stmts:
            return k(env)
        s, rest = stmts[0], stmts[1:]

        def go(env2):
            return self.block(rest, env2, mode, k)

        if isinstance(s, ast.Continue):
            if rest or not mode.get("loop"):
                raise Reject("%s: `continue` here (not the last statement of a block of a for body)" % _where(s))
            return "ret tt"
        if isinstance(s, ast.Return) and mode.get("gen"):
            if rest or s.value is not None or "%r" not in env:
                raise Reject("%s: `return` in a generator must be bare, last in its block and after the yield" % _where(s))
            return "ret r"
        if isinstance(s, ast.Assign) and len(s.targets) == 1 and isinstance(s.targets[0], ast.Attribute) \
                and s.targets[0].attr in ("_state_proxy", "_clamped", "_clamped_value"):
            tg = s.targets[0]
            pre, v = self.ex(s.value, env)
            po, o = self.ex(tg.value, env)
            if po:
                raise Reject("%s: assignment target is not pure" % _where(s))
            if tg.attr == "_state_proxy" and o.kind == "NODE":
                w = "wr_state_proxy %s %s" % (o.p(), coerce(v, "OARR", _where(s)))
            elif tg.attr == "_clamped" and o.kind == "DFB":
                w = "wr_clamped %s %s" % (o.p(), coerce(v, "BOOL", _where(s)))
            elif tg.attr == "_clamped_value" and o.kind == "DFB":
                w = "wr_clamped_value %s %s" % (o.p(), coerce(v, "OARR", _where(s)))
            else:
                raise Reject("%s: assignment to .%s of a %s" % (_where(s), tg.attr, o.kind))
            return wrap(pre + [("bind (%s) (fun _ =>" % w, ")")], go(env))
        return S.FnTr.block(self, stmts, env, mode, k)

    def ret(self, value, env, s):
        if self.spec["ret"] == "FBVAL":
            if value is None:
                raise Reject("%s: bare return" % _where(s))
            pre, v = self.ex(value, env)
            return wrap(pre, "ret %s" % coerce(v, "FBVAL", _where(s)))
        return S.FnTr.ret(self, value, env, s)

    def if_(self, s, env, mode, go):
        t = s.test
        # if node.has_feedback:
        if isinstance(t, ast.Attribute) and t.attr == "has_feedback":
            pre, c = self.ex(t, env)
            if pre or c.kind != "BOOL":
                raise Reject("%s: has_feedback of something that is not a node" % _where(s))
            et = self.with_facts(env, t)
            return "if %s\n  then (%s)\n  else (%s)" % (c.text, self.block(s.body, et, mode, go), self.block(s.orelse, dict(env), mode, go))
        # if dfb._reduced_sender is not None:   /   is None:
        if (isinstance(t, ast.Compare) and len(t.ops) == 1 and isinstance(t.ops[0], (ast.Is, ast.IsNot)) and _is_none(t.comparators[0])
                and isinstance(t.left, ast.Attribute) and t.left.attr == "_reduced_sender"):
            po, o = self.ex(t.left.value, env)
            if o.kind != "DFB" or po:
                raise Reject("%s: _reduced_sender of a %s" % (_where(s), o.kind))
            if "sm" in env or "sender_node" in env or o.text in env.get("%kind", {}):
                raise Reject("%s: nested case split on the sender" % _where(s))
            em, en = dict(env), dict(env)
            em["%kind"] = dict(env.get("%kind", {}), **{o.text: "model"})
            en["%kind"] = dict(env.get("%kind", {}), **{o.text: "node"})
            bm, bn = (s.body, s.orelse) if isinstance(t.ops[0], ast.IsNot) else (s.orelse, s.body)
            return "match fb_kind %s with\n  | DModel sm => %s\n  | DNode sender_node => %s\n  end" % (
                o.p(), self.block(bm, em, mode, go), self.block(bn, en, mode, go))
        # `x is None` on an optional dict parameter
        if (isinstance(t, ast.Compare) and len(t.ops) == 1 and isinstance(t.ops[0], (ast.Is, ast.IsNot)) and _is_none(t.comparators[0])
                and isinstance(t.left, ast.Name) and t.left.id in env and env[t.left.id].kind == "OFBD"):
            x = t.left.id
            v = env[x]
            en, es = dict(env), dict(env)
            en[x] = Val("NONE", "None")
            es[x] = Val(INNER[v.kind], v.text)
            bn, bs = (s.body, s.orelse) if isinstance(t.ops[0], ast.Is) else (s.orelse, s.body)
            return "match %s with\n  | None => %s\n  | Some %s => %s\n  end" % (
                v.text, self.block(bn, en, mode, go), v.text, self.block(bs, es, mode, go))
        return S.FnTr.if_(self, s, env, mode, go)

    def for_(self, s, env, mode, go):
        if s.orelse:
            raise Reject("%s: for/else" % _where(s))
        pre, l = self.ex(s.iter, env)
        if l.kind != "NODELIST" or pre or not isinstance(s.target, ast.Name):
            raise Reject("%s: for over a %s" % (_where(s), l.kind))
        env2 = dict(env)
        env2.pop("%assigned", None)
        v = self.ident(s.target.id, s)
        env2[s.target.id] = Val("NODE", v)
        body = self.block(s.body, env2, {"ret": False, "gen": False, "assign": True, "loop": True}, lambda e2: "ret tt")
        return "bind (py_for %s (fun %s =>\n  %s)) (fun _ =>\n  %s)" % (l.p(), v, body, go(env))

    def with_(self, s, env, mode, go):
        """with ExitStack() as stack: for n in L: [x = pure | if pure: x = pure]* stack.enter_context(n.cm(..)) ; yield self"""
        if len(s.items) != 1:
            raise Reject("%s: with on several items" % _where(s))
        item = s.items[0]
        ce = item.context_expr
        if not (isinstance(ce, ast.Call) and _is_name(ce.func, "ExitStack") and not ce.args and not ce.keywords):
            raise Reject("%s: only `with ExitStack() as stack` is in the vocabulary" % _where(s))
        if not (isinstance(item.optional_vars, ast.Name) and item.optional_vars.id not in env):
            raise Reject("%s: `with ExitStack() as <fresh name>` expected" % _where(s))
        stack = item.optional_vars.id
        b = s.body
        if not (len(b) == 2 and isinstance(b[0], ast.For) and isinstance(b[1], ast.Expr) and isinstance(b[1].value, ast.Yield)):
            raise Reject("%s: the ExitStack block must be `for n in self.nodes: .. stack.enter_context(..)` then `yield self`" % _where(s))
        self.check_yield(b[1].value, env, mode)
        loop = b[0]
        pl, l = self.ex(loop.iter, env)
        if l.kind != "NODELIST" or pl or loop.orelse or not isinstance(loop.target, ast.Name) or not loop.body:
            raise Reject("%s: the ExitStack loop must run over self.nodes" % _where(loop))
        v = self.ident(loop.target.id, loop)
        env2 = dict(env)
        env2[loop.target.id] = Val("NODE", v)
        lets = []

        def pure_assign(st, e_val, e_bind):
            if not (isinstance(st, ast.Assign) and len(st.targets) == 1 and isinstance(st.targets[0], ast.Name)):
                raise Reject("%s: only pure assignments may precede enter_context in the ExitStack loop" % _where(st))
            pv, val = self.ex(st.value, e_val)
            if pv or val.kind in ("DTYPE", "UNIT"):
                raise Reject("%s: not a pure expression: %s" % (_where(st), ast.unparse(st.value)))
            c = self.ident(st.targets[0].id, st)
            if c == stack:
                raise Reject("%s: the stack is rebound" % _where(st))
            return st.targets[0].id, c, val

        for st in loop.body[:-1]:
            if isinstance(st, ast.If):
                if st.orelse or len(st.body) != 1:
                    raise Reject("%s: only `if <pure>: x = <pure>` in the ExitStack loop" % _where(st))
                pc, c = self.ex(st.test, env2)
                if pc or c.kind != "BOOL":
                    raise Reject("%s: the condition is not a pure test" % _where(st))
                name, cn, val = pure_assign(st.body[0], self.with_facts(env2, st.test), env2)
                old = env2.get(name)
                if old is None or old.kind != val.kind:
                    raise Reject("%s: %s is rebound conditionally to another kind of value" % (_where(st), name))
                lets.append("let %s := if %s then %s else %s in" % (cn, c.text, val.text, old.text))
                env2 = dict(env2)
                env2[name] = Val(val.kind, cn)
            else:
                name, cn, val = pure_assign(st, env2, env2)
                lets.append("let %s := %s in" % (cn, val.text))
                env2 = dict(env2)
                env2[name] = Val(val.kind, cn)
        last = loop.body[-1]
        if not (isinstance(last, ast.Expr) and isinstance(last.value, ast.Call) and isinstance(last.value.func, ast.Attribute)
                and _is_name(last.value.func.value, stack) and last.value.func.attr == "enter_context" and len(last.value.args) == 1
                and not last.value.keywords):
            raise Reject("%s: the ExitStack loop must end with %s.enter_context(<context manager>)" % (_where(last), stack))
        cm = self.cm_call(last.value.args[0], env2)
        return "bind (exit_stack (map (fun %s => %s %s) %s) body) (fun r =>\n  %s)" % (v, " ".join(lets), cm, l.p(), go(self.yielded(env)))

    # ------------------------------------------------------------------ whole function
    def translate(self):
        a = self.fn.args
        if a.vararg or a.kwonlyargs or a.posonlyargs or a.kwarg:
            raise Reject("unsupported parameter list")
        got = [x.arg for x in a.args]
        if got != [n for n, _ in self.spec["params"]]:
            raise Reject("parameters %s, declared %s" % (got, [n for n, _ in self.spec["params"]]))
        nd = len(a.defaults)
        self.spec["defaults"] = {n: d for n, d in zip(got[len(got) - nd:], a.defaults)} if nd else {}
        for n, d in self.spec["defaults"].items():
            if not (isinstance(d, ast.Constant) and (d.value is None or d.value is True or d.value is False)):
                raise Reject("default value of %s is not None / True / False" % n)
        env, params = {"%facts": {}}, []
        for n, kd in self.spec["params"]:
            c = self.ident(n, self.fn)
            env[n] = Val(kd, c)
            params.append("(%s : %s)" % (c, COQTYPE[kd]))
        body = _strip_doc(self.fn.body)
        if self.spec["gen"]:
            def end(e2):
                if "%r" not in e2:
                    raise Reject("a path of the generator ends without a yield")
                return "ret r"
            text = self.block(body, env, {"ret": False, "gen": True, "assign": True}, end)
            return "{A : Type} " + " ".join(params) + " (body : M hp A)", text, "M hp A"
        rk = self.spec["ret"]

        def end(e2):
            if rk == "UNIT":
                return "ret tt"
            if rk in INNER:
                return "ret None"             # falling off the end returns None
            raise Reject("the function can fall off its end without a return")
        text = self.block(body, env, {"ret": True, "gen": False, "assign": True}, end)
        return " ".join(params), text, "M hp %s" % ("unit" if rk in ("SELF", "UNIT") else COQTYPE[rk])


# ---------------------------------------------------------------------------------------------------- module-level checks
def check_module(rel, tree):
    bound = S.module_bindings(tree)
    for name, how in IMPORTS[rel].items():
        if bound.get(name) != [how]:
            raise Reject("%s: %s must be bound exactly by `%s`, found %s" % (rel, name, how, bound.get(name)))
    for name in BUILTINS:
        if name in bound:
            raise Reject("%s: builtin %s is rebound at module level" % (rel, name))


def check_pinned(trees):
    for (rel, cls, name), want in PINNED.items():
        fn = S.find_def(trees[rel][1], rel, cls, name)
        got = [ast.unparse(b) for b in _strip_doc(fn.body)]
        decos = [ast.unparse(d) for d in fn.decorator_list]
        if got != want or decos != ([] if name.startswith("__") else ["property"]):
            raise Reject("%s: %s.%s is pinned to %s (a property), found %s %s" % (rel, cls, name, want, decos, got))
    for (rel, cls, name), want in PINNED_SHA.items():
        got = unparsed_sha(S.find_def(trees[rel][1], rel, cls, name))
        if got != want:
            raise Reject("%s: %s.%s is pinned (sha256 of its unparsed text %s), found %s" % (rel, cls, name, want, got))


def unparsed_sha(fn):
    fn2 = ast.parse(ast.unparse(fn)).body[0]
    fn2.body = _strip_doc(fn2.body) or [ast.Pass()]
    return hashlib.sha256(ast.unparse(fn2).encode()).hexdigest()


# ---------------------------------------------------------------------------------------------------- output
def emit(repo):
    """-> Coq source text of coq/gen/Gen_feedback.v (raises Reject)"""
    trees = {}
    for rel in (_N, _B, _M):
        trees[rel] = S.parse(repo, rel)
        check_module(rel, trees[rel][1])
    check_pinned(trees)
    heads, defs, done = [], [], {}
    for sp in SPECS:
        rel = sp["file"]
        src, tree = trees[rel]
        label = "%s%s" % ((sp["cls"] + ".") if sp["cls"] else "", sp["name"])
        try:
            fn = S.find_def(tree, rel, sp["cls"], sp["name"])
            decos = [ast.unparse(d) for d in fn.decorator_list]
            if decos != (["contextmanager"] if sp["gen"] else []):
                raise Reject("decorators %s" % decos)
            sp = dict(sp)
            params, body, ty = FbTr(sp, fn, done).translate()
        except Reject as ex:
            raise Reject("%s, function %s (as %s): %s" % (rel, label, sp["coq"], ex))
        done[(sp["cls"], sp["name"])] = sp
        sha = hashlib.sha256((ast.get_source_segment(src, fn) or "").encode()).hexdigest()
        heads.append("     %s :: %s  (as %s)  sha256(source segment) = %s" % (rel, label, sp["coq"], sha))
        defs.append("(* %s :: %s *)\nDefinition %s %s : %s :=\n  %s." % (rel, label, sp["coq"], params, ty, body))
    pins = ["%s.%s = `%s`" % (c, n, " ".join(w)) for (_, c, n), w in PINNED.items()] + [
        "%s.%s sha256(unparsed) = %s" % (c, n, w[:16]) for (_, c, n), w in PINNED_SHA.items()]
    out = ["(* GENERATED by tools/vlib/py2coq_fb.py (%s, on %s) from the current source text of" % (VERSION, S.VERSION)] + heads + [
        "   -- DO NOT EDIT.  Regenerated by `./check C05` (pregen) and by tools/regen.py.  Vocabulary: base/CtxPrelude.v (a computation is",
        "   heap -> heap * outcome A; a @contextmanager generator is a function of the body of the `with` statement) and base/FbPrelude.v",
        "   (`_state_proxy` and the clamp of the DistantFeedback a receiver owns live in the node object; the immutable part of a",
        "   DistantFeedback is has_fb / fb_kind).  Pinned: %s. *)" % "; ".join(pins),
        "From Coq Require Import List Bool Arith.",
        "From RV Require Import base.Num base.LA base.CtxPrelude base.FbPrelude.",
        "Import ListNotations.", "",
        "Module GenFb.",
        "Section GenFb.",
        "Context {F : Type} `{Num F} {P ID IX : Type}.",
        "Notation hp := (@heap F (@fbx F P)).",
        "Variable check_ok : option nat -> list F -> bool.          (* which arrays check_one_sequence accepts *)",
        "Variable check_n_ok : nat -> list F -> bool.               (* which arrays check_n_sequences accepts for the DistantFeedback of receiver n *)",
        "Variable has_fb : nat -> bool.                             (* node._feedback is not None *)",
        "Variable fb_kind : nat -> dfb_kind.                        (* node._feedback._sender / ._reduced_sender after initialize() *)",
        "Variable zero_feedback : nat -> M hp (option (list F)).    (* node.zero_feedback() *)",
        "Variable distant_model_inputs : smodel -> M hp ID.         (* _distant_model_inputs(sender) *)",
        "Variable idata_item : ID -> nat -> IX.                     (* input_data[name] *)",
        "Variable reduced_model_call : smodel -> ID -> M hp (@fbval F).   (* dfb._reduced_sender.call(input_data), a Model *)",
        "Variable reduced_node_call : smodel -> IX -> M hp (@fbval F).    (* dfb._reduced_sender.call(x), a Node *)", ""]
    for d in defs:
        out += [d, ""]
    out += ["End GenFb.", "End GenFb.", ""]
    return "\n".join(out)


if __name__ == "__main__":
    import sys
    from vlib import core
    try:
        sys.stdout.write(emit(core.REPO))
    except Reject as ex:
        sys.stderr.write("REJECT: %s\n" % ex)
        sys.exit(1)
