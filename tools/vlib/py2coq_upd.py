"""py2coq_upd 1 -- tie (T) for `Model.update_graph` of reservoirpy/model.py -> coq/gen/Gen_update.v.

On top of py2coq_ops (Gen_ops.v: concat_multi_inputs) and py2coq_graph (Gen_graphflow.v: find_entries_and_exits, topological_sort).
The GRAPH PART of the method is translated statement by statement (each statement of the current source is parsed, normalised with
ast.unparse and must be one of the accepted statement forms below; the Gallina line is built from the names the statement binds and
reads); the BOOKKEEPING TAIL (`self._nodes = ...` down to `return self`) and the static method `Model._concat_multi_inputs` are pinned
by their exact (normalised) text.  Anything else is rejected (fail closed): the stub written on rejection does not compile.
"""
import ast
import hashlib
import os
import re

from vlib import py2coq_ops as o

VERSION = "py2coq_upd 1"
SOURCE = "reservoirpy/model.py"


class Reject(Exception):
    pass


PINNED_CMI = ("@staticmethod\ndef _concat_multi_inputs(nodes, edges):\n    from .ops import concat_multi_inputs\n"
              "    return concat_multi_inputs(nodes, edges)")
PINNED_TAIL = [
    "self._nodes = nodes",
    "self._edges = edges",
    "self._inputs, self._outputs = (inputs, outputs)",
    "self._params = {n.name: n.params for n in self._nodes}",
    "self._hypers = {n.name: n.hypers for n in self._nodes}",
    "self._node_registry = {n.name: n for n in self.nodes}",
    "self._dispatcher = DataDispatcher(self)",
    "self._fitted = all([n.fitted for n in self.nodes])",
    "self._is_initialized = False",
    "return self",
]
PINNED_ARGS = "self, new_nodes: Sequence[_Node], new_edges: Sequence[Tuple[_Node, _Node]]"
PINNED_NODES_PROP = "@property\ndef nodes(self) -> List[_Node]:\n    return self._nodes"
PINNED_EDGES_PROP = "@property\ndef edges(self):\n    return self._edges"

ID = r"([A-Za-z_][A-Za-z_0-9]*)"
# accepted statement forms of the graph part: (regex on the normalised statement, builder of the Gallina line)
FORMS = [
    # x = list(set(a) | set(self.nodes))          a set converted to a list: iteration order ord_n k
    (re.compile(r"^%s = list\(set\(%s\) \| set\(self\.(nodes|edges)\)\)$" % (ID, ID)), "union"),
    # x, y = self._concat_multi_inputs(a, b)      the generated concat_multi_inputs of Gen_ops.v
    (re.compile(r"^%s, %s = self\._concat_multi_inputs\(%s, %s\)$" % (ID, ID, ID, ID)), "cmi"),
    # x, y = find_entries_and_exits(a, b)         the generated find_entries_and_exits of Gen_graphflow.v
    (re.compile(r"^%s, %s = find_entries_and_exits\(%s, %s\)$" % (ID, ID, ID, ID)), "ee"),
    # x = topological_sort(a, b, c)               the generated topological_sort of Gen_graphflow.v (may raise)
    (re.compile(r"^%s = topological_sort\(%s, %s, %s\)$" % (ID, ID, ID, ID)), "topo"),
]


def _find_method(cls, name, prop=False):
    hits = [s for s in cls.body if isinstance(s, ast.FunctionDef) and s.name == name]
    if prop:
        hits = [s for s in hits if [ast.unparse(d) for d in s.decorator_list] == ["property"]]
    if len(hits) != 1:
        raise Reject("Model.%s: expected exactly one definition, found %d" % (name, len(hits)))
    return hits[0]


def _nodoc(fd):
    body = list(fd.body)
    if body and isinstance(body[0], ast.Expr) and isinstance(body[0].value, ast.Constant) and isinstance(body[0].value.value, str):
        body = body[1:]
    return body


def _text_nodoc(fd):
    f2 = ast.FunctionDef(name=fd.name, args=fd.args, body=_nodoc(fd), decorator_list=fd.decorator_list, returns=fd.returns,
                         type_comment=None, lineno=0, col_offset=0)
    try:
        f2.type_params = []
    except Exception:
        pass
    return ast.unparse(ast.fix_missing_locations(f2))


def translate(src):
    """-> (Gallina text of update_graph, normalised source text)"""
    mod = ast.parse(src)
    classes = [s for s in mod.body if isinstance(s, ast.ClassDef) and s.name == "Model"]
    if len(classes) != 1:
        raise Reject("class Model not found exactly once")
    cls = classes[0]
    # the imports the calls resolve to
    imps = [ast.unparse(s) for s in mod.body if isinstance(s, ast.ImportFrom)]
    gf = [i for i in imps if i.startswith("from .utils.graphflow import")]
    if len(gf) != 1 or not all(n in gf[0] for n in ("find_entries_and_exits", "topological_sort")):
        raise Reject("find_entries_and_exits / topological_sort are not imported from .utils.graphflow")
    for nm in ("find_entries_and_exits", "topological_sort", "DataDispatcher"):
        for s in ast.walk(mod):
            if isinstance(s, (ast.FunctionDef, ast.ClassDef)) and s.name == nm:
                raise Reject("%s is redefined in model.py" % nm)
            if isinstance(s, ast.Assign) and any(isinstance(t, ast.Name) and t.id == nm for t in s.targets):
                raise Reject("%s is rebound in model.py" % nm)
    if _text_nodoc(_find_method(cls, "_concat_multi_inputs")) != PINNED_CMI:
        raise Reject("Model._concat_multi_inputs is not the pinned forwarder to ops.concat_multi_inputs")
    if _text_nodoc(_find_method(cls, "nodes", prop=True)) != PINNED_NODES_PROP:
        raise Reject("property Model.nodes is not `return self._nodes`")
    if _text_nodoc(_find_method(cls, "edges", prop=True)) != PINNED_EDGES_PROP:
        raise Reject("property Model.edges is not `return self._edges`")
    fd = _find_method(cls, "update_graph")
    if fd.decorator_list or ast.unparse(fd.args) != PINNED_ARGS:
        raise Reject("update_graph: unexpected decorators / signature %r" % ast.unparse(fd.args))
    stmts = [ast.unparse(s) for s in _nodoc(fd)]
    n = len(PINNED_TAIL)
    if len(stmts) <= n or stmts[-n:] != PINNED_TAIL:
        raise Reject("update_graph: the bookkeeping tail is not the pinned text; got %r" % (stmts[-n:],))
    graph = stmts[:-n]
    kind = {"new_nodes": "N", "new_edges": "E"}          # variable -> N (list node) / E (list edge)
    lines, sites = [], {"N": 0, "E": 0}
    raised = False
    for s in graph:
        for rx, what in FORMS:
            m = rx.match(s)
            if m:
                break
        else:
            raise Reject("update_graph: statement outside the translated fragment: %r" % s)
        g = m.groups()

        def need(v, k):
            if kind.get(v) != k:
                raise Reject("update_graph: %r read as %s in %r but it is %r" % (v, k, s, kind.get(v)))
        if what == "union":
            k = "N" if g[2] == "nodes" else "E"
            need(g[1], k)
            site = sites[k]
            sites[k] += 1
            lines.append("let %s := (ord_%s %d (set_union (py_set %s) (py_set self_%s))) in" % (g[0], "n" if k == "N" else "e", site, g[1], g[2]))
            kind[g[0]] = k
        elif what == "cmi":
            need(g[2], "N"); need(g[3], "E")
            lines.append("let '(%s, %s) := (concat_multi_inputs %s %s) in" % (g[0], g[1], g[2], g[3]))
            kind[g[0]], kind[g[1]] = "N", "E"
        elif what == "ee":
            need(g[2], "N"); need(g[3], "E")
            lines.append("let '(%s, %s) := (find_entries_and_exits %s %s) in" % (g[0], g[1], g[2], g[3]))
            kind[g[0]], kind[g[1]] = "N", "N"
        elif what == "topo":
            need(g[1], "N"); need(g[2], "E"); need(g[3], "N")
            lines.append("py_bind (topological_sort fuel %s %s (Some %s)) (fun %s =>" % (g[1], g[2], g[3], g[0]))
            kind[g[0]] = "N"
            raised = True
    for v, k in (("nodes", "N"), ("edges", "E"), ("inputs", "N"), ("outputs", "N")):
        if kind.get(v) != k:
            raise Reject("update_graph: the tail reads %r, which the graph part does not bind as %s" % (v, k))
    if not raised:
        # a path on which topological_sort is not called has no translation here
        raise Reject("update_graph: topological_sort is not called")
    if sum(1 for l in lines if l.startswith("py_bind")) != 1:
        raise Reject("update_graph: more than one topological_sort call")
    # tail: the new state of the object = (self._nodes, self._edges, self._inputs, self._outputs); dicts / dispatcher / flags pinned
    lines.append("Val (nodes, edges, inputs, outputs))." if raised else "Val (nodes, edges, inputs, outputs).")
    text = ("(* %s :: Model.update_graph   may raise: py _ ; value = (self._nodes, self._edges, self._inputs, self._outputs) after the tail *)\n"
            "Definition update_graph (fuel : nat) (new_nodes : list node) (new_edges : list edge) :=\n" % SOURCE) + "\n".join(lines)
    return text, "\n".join(stmts) + "\n" + PINNED_CMI, sites


def emit(repo):
    # the two callee translations must exist for this tree (raises their Reject otherwise)
    sigs, gsha = o.callee_signatures(repo)
    src = open(os.path.join(repo, SOURCE)).read()
    text, norm, sites = translate(src)
    sha = hashlib.sha256(norm.encode()).hexdigest()
    out = ["(* GENERATED by tools/vlib/py2coq_upd.py (%s, on top of %s / %s) from the current source of %s -- DO NOT EDIT." % (
               VERSION, o.VERSION, o.g.VERSION, SOURCE),
           "   function: Model.update_graph (graph part translated; bookkeeping tail + Model._concat_multi_inputs + properties nodes / edges",
           "   pinned by exact text);  sha256 of the normalised source: %s" % sha,
           "   callees: concat_multi_inputs of gen/Gen_ops.v, find_entries_and_exits / topological_sort of gen/Gen_graphflow.v (sha256 %s)." % gsha,
           "   ord_n k / ord_e k : iteration order of the set converted by `list(set(..) | set(..))` at site k (%d node, %d edge sites);" % (sites["N"], sites["E"]),
           "   ord_c_n / ord_c_e : the ord_n / ord_e of concat_multi_inputs;  ord_g : the ord_n of graphflow;  self_nodes / self_edges :",
           "   self.nodes / self.edges at entry;  fuel : bound on the iterations of the `while` of topological_sort.",
           "   Regenerated by `./check C03` (pregen). *)",
           "From Coq Require Import List Bool Arith.",
           "From RV Require Import base.PyColl gen.Gen_graphflow gen.Gen_ops.",
           "Import ListNotations.", "",
           "Module GenUpdate.", "Section Gen.",
           "Variable ord_n : nat -> list node -> list node.",
           "Variable ord_e : nat -> list edge -> list edge.",
           "Variable ord_c_n : nat -> list node -> list node.",
           "Variable ord_c_e : nat -> list edge -> list edge.",
           "Variable ord_g : nat -> list node -> list node.",
           "Variable sorted_by_name : list edge -> list edge.",
           "Variable isc : node -> bool.",
           "Variable new_concat : nat -> node -> node.",
           "Variable self_nodes : list node.",
           "Variable self_edges : list edge.", "",
           "Definition concat_multi_inputs := GenOps.concat_multi_inputs ord_c_n ord_c_e sorted_by_name isc new_concat.",
           "Definition find_entries_and_exits := GenGraphflow.find_entries_and_exits ord_g.",
           "Definition topological_sort := GenGraphflow.topological_sort ord_g sorted_by_name.", "",
           text, "", "End Gen.", "End GenUpdate.", ""]
    return "\n".join(out)


def pregen():
    """(re)write coq/gen/Gen_update.v from the tree under test.  Returns None, or the error text (tie broken)."""
    import traceback
    from vlib import core
    gdir = os.path.join(core.COQ, "gen")
    os.makedirs(gdir, exist_ok=True)
    path = os.path.join(gdir, "Gen_update.v")
    err = None
    try:
        text = emit(core.REPO)
    except (Reject, o.Reject) as ex:
        err = "translation rejected: %s" % ex
    except Exception:
        err = "translator exception: " + traceback.format_exc()[-1500:]
    if err is not None:
        text = "(* GENERATED: translation of %s (update_graph) FAILED -- %s *)\nDefinition translation_failed : True := 0.\n" % (
            SOURCE, err.replace("*)", "* )").replace("(*", "( *"))
    old = open(path).read() if os.path.exists(path) else None
    if old != text:
        with open(path, "w") as f:
            f.write(text)
    return ("unit update: " + err) if err else None


if __name__ == "__main__":
    import sys
    sys.path.insert(0, os.path.dirname(os.path.dirname(os.path.abspath(__file__))))
    print(emit(sys.argv[1] if len(sys.argv) > 1 else "/repo"))
