"""Fail-closed translator for the graph functions of reservoirpy/utils/graphflow.py -> Gallina (tie T of C03).

Targets (FUNCS, in emission order): find_entries_and_exits, find_parents_and_children, topological_sort.
The CURRENT text of graphflow.py of the tree under test (core.REPO, honours VERIF_REPO) is parsed with `ast`, every
expression is typed with a small kind system and one `Definition` per function is emitted into coq/gen/Gen_graphflow.v
over the vocabulary of coq/base/PyColl.v ("the meaning of Python collections", trusted).

Kinds   node | edge (pair of nodes) | nat | bool | list(k) | coll(k) | set(k) | deque(k) | dd | opt(k) | tuple(k..)
        coll(k)  : a parameter holding a collection in an order the function must not rely on (a list or a set, given as
                   SOME enumeration: the theorems quantify over all lists); read-only
        set(k)   : duplicate-free list whose representation order never escapes: every set -> sequence conversion
                   (`list(s)`, `deque(s)`, `for x in s`, comprehension over s, `sorted(s)`) is emitted as `ord_n k s` /
                   `ord_e k s` with a fresh site number k; ord_n / ord_e are Section variables of the generated file
        dd       : defaultdict(list) node -> list of nodes (association list); a read `d[k]` is emitted with its
                   insert-if-missing side effect (`dd_touch`) at the place where Python evaluates it (also under `or`/`and`)
        opt(k)   : a parameter defaulting to None; `if p is None: p[, _] = <expr>` rebinds it to kind k
`sorted(<edges>, key=lambda x: x[0].name + x[1].name)` (the lambda is pinned textually) is the Section variable
`sorted_by_name : list edge -> list edge` (names are not modelled; the theorems assume it returns a permutation).
`while c:` is `py_while fuel` (explicit fuel, OutOfFuel result), `raise X(...)` is `Exc X`, `.remove` / `.pop` raise
KeyError / ValueError / IndexError as Python does.  Mutating methods are accepted only on objects the function owns
(created by `[]`, `set()`, `deque()`, `defaultdict(list)`, `list()`, `sorted()`, set algebra, or returned fresh by a
translated callee); binding a second name to a mutable object, mutating a parameter, mutating the collection a `for`
iterates over, `break` / `continue` / `return` inside a loop, unknown calls / methods / statement shapes are REJECTED.
"""
import ast
import hashlib
import os


class Reject(Exception):
    pass


VERSION = "py2coq_graph 1"
SOURCE = "reservoirpy/utils/graphflow.py"
NODE, EDGE, NAT, BOOL, DD = ("node",), ("edge",), ("nat",), ("bool",), ("dd",)


def L(k): return ("list", k)
def C(k): return ("coll", k)
def SET(k): return ("set", k)
def DQ(k): return ("deque", k)
def OPT(k): return ("opt", k)
def T(*ks): return ("tuple",) + tuple(ks)


# emission order = dependency order (a function may only call functions listed before it)
FUNCS = [
    ("find_entries_and_exits", [("nodes", C(NODE)), ("edges", C(EDGE))]),
    ("find_parents_and_children", [("edges", C(EDGE))]),
    ("topological_sort", [("nodes", C(NODE)), ("edges", C(EDGE)), ("inputs", OPT(L(NODE)))]),
]
PINNED_KEY = "lambda x: x[0].name + x[1].name"
EXCS = {"RuntimeError", "KeyError", "ValueError", "IndexError"}
MUTABLE = ("list", "set", "deque", "dd", "coll")
RESERVED = set("""node edge fuel ord_n ord_e sorted_by_name py_set set_diff set_union set_inter set_remove list_append list_remove
deque_append deque_appendleft deque_pop deque_popleft dd_lookup dd_set dd_get dd_getitem dd_touch dd_iadd py_for py_while pure_for
py_bind Val Exc OutOfFuel is_none map fold_left length fst snd if then else let in match with end fun forall exists nat list bool
true false Some None andb orb negb S O tmp c__""".split())


def where(n):
    return "line %s" % getattr(n, "lineno", "?")


def coqtype(k):
    if k == NODE: return "node"
    if k == EDGE: return "edge"
    if k == NAT: return "nat"
    if k == BOOL: return "bool"
    if k == DD: return "ddict node node"
    if k[0] in ("list", "set", "deque", "coll"):
        return "list _" if k[1] is None else "list %s" % coqtype(k[1]) if k[1] in (NODE, EDGE, NAT, BOOL) else "list (%s)" % coqtype(k[1])
    if k[0] == "opt": return "option (%s)" % coqtype(k[1])
    if k[0] == "tuple": return "(" + " * ".join(coqtype(x) for x in k[1:]) + ")"
    raise Reject("no Coq type for kind %r" % (k,))


def is_seq(k):
    return k[0] in ("list", "coll", "deque")


class Fn:
    """translation state of one function"""

    def __init__(self, tr, name, params):
        self.tr, self.name = tr, name
        self.monadic = False
        self.uses_fuel = False

    # ------------------------------------------------------------------ helpers
    def pat(self, names):
        names = list(names)
        if not names:
            return "tt"
        return names[0] if len(names) == 1 else "(" + ", ".join(names) + ")"

    def lam(self, names):
        names = list(names)
        if not names:
            return "_"
        return names[0] if len(names) == 1 else "'(" + ", ".join(names) + ")"

    def site(self, k):
        if k[1] == NODE:
            self.tr.sites_n += 1
            return "ord_n %d" % (self.tr.sites_n - 1)
        if k[1] == EDGE:
            self.tr.sites_e += 1
            return "ord_e %d" % (self.tr.sites_e - 1)
        raise Reject("a set of %r is converted to a sequence: no iteration-order oracle for that element kind" % (k[1],))

    def as_seq(self, term, k, n):
        """term denoting the sequence Python obtains by iterating over a value of kind k"""
        if is_seq(k):
            return term
        if k[0] == "set":
            return "(%s %s)" % (self.site(k), term)
        raise Reject("%s: cannot iterate over a value of kind %r" % (where(n), k))

    def name_ok(self, s, n):
        if s in RESERVED or s.startswith("ord_") or s in self.tr.done:
            raise Reject("%s: variable name %r clashes with the generated vocabulary" % (where(n), s))
        return s

    # ------------------------------------------------------------------ expressions: -> (pre, term, kind, fresh)
    # pre: list of (var, term) re-bindings that must happen before `term` is evaluated (defaultdict read side effects)
    def expr(self, e, env):
        if isinstance(e, ast.Name):
            if e.id not in env:
                raise Reject("%s: unknown name %r" % (where(e), e.id))
            return [], e.id, env[e.id], False
        if isinstance(e, ast.Constant):
            if isinstance(e.value, bool) or not isinstance(e.value, int) or e.value < 0:
                raise Reject("%s: constant %r" % (where(e), e.value))
            return [], "%d" % e.value, NAT, False
        if isinstance(e, ast.List):
            if not e.elts:
                return [], "[]", L(None), True
            parts = [self.expr(x, env) for x in e.elts]
            if any(p[0] for p in parts):
                raise Reject("%s: side effect inside a list display" % where(e))
            k = parts[0][2]
            if any(p[2] != k for p in parts) or k[0] in MUTABLE:
                raise Reject("%s: list display of mixed / mutable elements" % where(e))
            return [], "[" + "; ".join(p[1] for p in parts) + "]", L(k), True
        if isinstance(e, ast.Tuple):
            if not e.elts:
                return [], "[]", L(None), True          # `()` used as an empty sequence
            parts = [self.expr(x, env) for x in e.elts]
            if any(p[0] for p in parts):
                raise Reject("%s: side effect inside a tuple" % where(e))
            ks = [p[2] for p in parts]
            if any(k[0] in MUTABLE for k in ks):
                raise Reject("%s: tuple of mutable objects (aliasing is not tracked)" % where(e))
            k = EDGE if ks == [NODE, NODE] else T(*ks)
            return [], "(" + ", ".join(p[1] for p in parts) + ")", k, False
        if isinstance(e, ast.BinOp):
            op = {ast.Sub: "set_diff", ast.BitOr: "set_union", ast.BitAnd: "set_inter"}.get(type(e.op))
            pa, a, ka, _ = self.expr(e.left, env)
            pb, b, kb, _ = self.expr(e.right, env)
            if pa or pb:
                raise Reject("%s: side effect inside a binary operation" % where(e))
            if op and ka[0] == "set" and ka == kb:
                return [], "(%s %s %s)" % (op, a, b), ka, True
            if isinstance(e.op, ast.Add) and ka[0] == "list" and ka == kb:
                return [], "(%s ++ %s)" % (a, b), ka, True
            raise Reject("%s: binary operator %s on kinds %r, %r" % (where(e), type(e.op).__name__, ka, kb))
        if isinstance(e, ast.Compare):
            if len(e.ops) != 1:
                raise Reject("%s: chained comparison" % where(e))
            op, rhs = e.ops[0], e.comparators[0]
            if isinstance(op, (ast.Is, ast.IsNot)):
                if not (isinstance(rhs, ast.Constant) and rhs.value is None):
                    raise Reject("%s: `is` with something else than None" % where(e))
                pa, a, ka, _ = self.expr(e.left, env)
                if ka[0] != "opt":
                    raise Reject("%s: `is None` on a value of kind %r (never None)" % (where(e), ka))
                t = "(is_none %s)" % a
                return pa, t if isinstance(op, ast.Is) else "(negb %s)" % t, BOOL, False
            pa, a, ka, _ = self.expr(e.left, env)
            pb, b, kb, _ = self.expr(rhs, env)
            if pb:
                raise Reject("%s: side effect in the right operand of a comparison" % where(e))
            if ka == NAT and kb == NAT:
                t = {ast.Lt: "(Nat.ltb %s %s)" % (a, b), ast.LtE: "(Nat.leb %s %s)" % (a, b),
                     ast.Gt: "(Nat.ltb %s %s)" % (b, a), ast.GtE: "(Nat.leb %s %s)" % (b, a),
                     ast.Eq: "(Nat.eqb %s %s)" % (a, b), ast.NotEq: "(negb (Nat.eqb %s %s))" % (a, b)}.get(type(op))
                if t:
                    return pa, t, BOOL, False
            if isinstance(op, (ast.In, ast.NotIn)) and kb[0] in ("list", "set", "coll", "deque") and kb[1] == ka:
                t = "(py_in %s %s)" % (a, b)
                return pa, t if isinstance(op, ast.In) else "(negb %s)" % t, BOOL, False
            raise Reject("%s: comparison %s on kinds %r, %r" % (where(e), type(op).__name__, ka, kb))
        if isinstance(e, ast.UnaryOp) and isinstance(e.op, ast.Not):
            pa, a, ka, _ = self.expr(e.operand, env)
            if ka != BOOL:
                raise Reject("%s: `not` on kind %r" % (where(e), ka))
            return pa, "(negb %s)" % a, BOOL, False
        if isinstance(e, ast.BoolOp):
            return self.boolop(e, list(e.values), env)
        if isinstance(e, ast.Subscript):
            pd, d, kd, _ = self.expr(e.value, env)
            if kd == DD and isinstance(e.value, ast.Name):
                pk, k, kk, _ = self.expr(e.slice, env)
                if pd or pk or kk != NODE:
                    raise Reject("%s: defaultdict subscript" % where(e))
                return [(d, "(dd_touch %s %s)" % (d, k))], "(dd_getitem %s %s)" % (d, k), L(NODE), False
            raise Reject("%s: subscript of a value of kind %r" % (where(e), kd))
        if isinstance(e, ast.ListComp):
            if len(e.generators) != 1 or e.generators[0].ifs or e.generators[0].is_async:
                raise Reject("%s: comprehension shape" % where(e))
            g = e.generators[0]
            pi, it, ki, _ = self.expr(g.iter, env)
            if pi:
                raise Reject("%s: side effect in a comprehension" % where(e))
            seq = self.as_seq(it, ki, e)
            env2 = dict(env)
            p = self.bind_pattern(g.target, ki[1], env2)
            pe, el, ke, _ = self.expr(e.elt, env2)
            if pe or ke[0] in MUTABLE:
                raise Reject("%s: comprehension element" % where(e))
            return [], "(map (fun %s => %s) %s)" % (p, el, seq), L(ke), True
        if isinstance(e, ast.Call):
            return self.call(e, env)
        raise Reject("%s: expression %s" % (where(e), type(e).__name__))

    def boolop(self, e, vals, env):
        pa, a, ka, _ = self.expr(vals[0], env)
        if ka != BOOL:
            raise Reject("%s: boolean operator on kind %r" % (where(e), ka))
        if len(vals) == 1:
            return pa, a, BOOL, False
        pb, b, kb, _ = self.boolop(e, vals[1:], env)
        is_or = isinstance(e.op, ast.Or)
        if not pb:
            return pa, "(%s %s %s)" % ("orb" if is_or else "andb", a, b), BOOL, False
        # the right operand has side effects: they happen only when it is evaluated (short circuit)
        vs = []
        for v, _t in pb:
            if v not in vs:
                vs.append(v)
        lets = "".join("let %s := %s in " % (v, t) for v, t in pb)
        skip = "(%s, %s)" % ("true" if is_or else "false", ", ".join(vs))
        evalb = "(%s(%s, %s))" % (lets, b, ", ".join(vs))
        t = "(if %s then %s else %s)" % (a, skip, evalb) if is_or else "(if %s then %s else %s)" % (a, evalb, skip)
        self.tr.tmp += 1
        c = "c__%d" % self.tr.tmp
        # encoded as a re-binding of the PAIR; the caller sees pre = [( "'(c, vs)", t )] and the term c
        return pa + [("'(%s, %s)" % (c, ", ".join(vs)), t)], c, BOOL, False

    def bind_pattern(self, target, k, env):
        """bind the loop / comprehension / unpacking target to a value of kind k; returns the Coq pattern"""
        if isinstance(target, ast.Name):
            if target.id == "_":
                return "_"
            if k is None or k[0] in MUTABLE:
                raise Reject("%s: a name is bound to a mutable element (aliasing is not tracked)" % where(target))
            env[self.name_ok(target.id, target)] = k
            return target.id
        if isinstance(target, ast.Tuple):
            ks = [NODE, NODE] if k == EDGE else list(k[1:]) if k and k[0] == "tuple" else None
            if ks is None or len(ks) != len(target.elts):
                raise Reject("%s: cannot unpack a value of kind %r into %d names" % (where(target), k, len(target.elts)))
            ps = []
            for t, kk in zip(target.elts, ks):
                if not isinstance(t, ast.Name):
                    raise Reject("%s: nested unpacking" % where(target))
                if t.id == "_":
                    ps.append("_")
                else:
                    env[self.name_ok(t.id, t)] = kk
                    ps.append(t.id)
            return "'(" + ", ".join(ps) + ")"
        raise Reject("%s: assignment target %s" % (where(target), type(target).__name__))

    def call(self, e, env):
        if e.keywords and not (isinstance(e.func, ast.Name) and e.func.id == "sorted"):
            raise Reject("%s: keyword arguments" % where(e))
        f = e.func
        if isinstance(f, ast.Name):
            args = e.args
            if f.id == "defaultdict":
                if len(args) != 1 or not (isinstance(args[0], ast.Name) and args[0].id == "list"):
                    raise Reject("%s: only defaultdict(list) is understood" % where(e))
                return [], "([] : ddict node node)", DD, True
            if f.id in ("list", "set", "deque", "len", "sorted") and len(args) == 1:
                pa, a, ka, _ = self.expr(args[0], env)
                if f.id == "len":
                    if ka[0] not in ("list", "set", "deque", "coll"):
                        raise Reject("%s: len of kind %r" % (where(e), ka))
                    return pa, "(length %s)" % a, NAT, False
                if pa:
                    raise Reject("%s: side effect in the argument of %s()" % (where(e), f.id))
                if ka[0] not in ("list", "set", "deque", "coll") or ka[1] is None:
                    raise Reject("%s: %s() of kind %r" % (where(e), f.id, ka))
                if f.id == "list":
                    return [], self.as_seq(a, ka, e), L(ka[1]), True
                if f.id == "deque":
                    return [], self.as_seq(a, ka, e), DQ(ka[1]), True
                if f.id == "set":
                    return [], a if ka[0] == "set" else "(py_set %s)" % a, SET(ka[1]), True
                if f.id == "sorted":
                    kw = {k.arg: k.value for k in e.keywords}
                    if set(kw) == {"key"} and ast.unparse(kw["key"]) == "lambda n: n.name" and ka[0] == "set" and ka[1] == NODE:
                        # a set of nodes sorted by name: names are not modelled, so this is one more set -> sequence conversion site
                        # (some permutation of the set, as list(s) is); sound because every theorem holds for every permutation
                        return [], self.as_seq(a, ka, e), L(ka[1]), True
                    if set(kw) != {"key"} or ast.unparse(kw["key"]) != PINNED_KEY or ka[1] != EDGE:
                        raise Reject("%s: sorted() is understood only on edges with key=%s" % (where(e), PINNED_KEY))
                    return [], "(sorted_by_name %s)" % self.as_seq(a, ka, e), L(EDGE), True
            if f.id in self.tr.done:
                sig = self.tr.done[f.id]
                if sig["monadic"]:
                    raise Reject("%s: call of %s, which may raise" % (where(e), f.id))
                if len(args) != len(sig["params"]):
                    raise Reject("%s: %s() called with %d arguments" % (where(e), f.id, len(args)))
                ts = []
                for a, (pn, pk) in zip(args, sig["params"]):
                    pa, t, ka, _ = self.expr(a, env)
                    if pa:
                        raise Reject("%s: side effect in an argument" % where(e))
                    ok = ka == pk or (pk[0] == "coll" and ka[0] in ("list", "coll", "set", "deque") and ka[1] == pk[1])
                    if not ok:
                        raise Reject("%s: argument %s of %s has kind %r, expected %r" % (where(e), pn, f.id, ka, pk))
                    ts.append(t)
                return [], "(%s %s)" % (f.id, " ".join(ts)), sig["ret"], True
            raise Reject("%s: call of unknown function %r" % (where(e), f.id))
        if isinstance(f, ast.Attribute) and isinstance(f.value, ast.Name):
            pd, d, kd, _ = self.expr(f.value, env)
            if kd == DD and f.attr == "get" and len(e.args) in (1, 2):
                pk, k, kk, _ = self.expr(e.args[0], env)
                if pk or kk != NODE:
                    raise Reject("%s: .get key" % where(e))
                if len(e.args) == 1:
                    return [], "(dd_lookup %s %s)" % (d, k), OPT(L(NODE)), False
                pf, dflt, kf, _ = self.expr(e.args[1], env)
                if pf or dflt != "[]":
                    raise Reject("%s: .get default must be an empty sequence" % where(e))
                return [], "(dd_get %s %s [])" % (d, k), L(NODE), False
        raise Reject("%s: call %s" % (where(e), ast.unparse(e.func)))

    # ------------------------------------------------------------------ statements
    def assigned(self, stmts):
        """names (re)bound or mutated by a block, in first-occurrence order"""
        out = []

        def add(n):
            if n not in out:
                out.append(n)

        def target(t):
            if isinstance(t, ast.Name):
                if t.id != "_":
                    add(t.id)
            elif isinstance(t, ast.Tuple):
                for x in t.elts:
                    target(x)
            elif isinstance(t, ast.Subscript):
                base(t.value)
            else:
                raise Reject("%s: assignment target" % where(t))

        def base(v):
            while isinstance(v, (ast.Subscript, ast.Attribute)):
                v = v.value
            if isinstance(v, ast.Name):
                add(v.id)

        for s in stmts:
            for n in ast.walk(s):
                if isinstance(n, ast.Assign):
                    for t in n.targets:
                        target(t)
                elif isinstance(n, (ast.AugAssign, ast.AnnAssign)):
                    target(n.target)
                elif isinstance(n, ast.For):
                    target(n.target)
                elif isinstance(n, ast.Call) and isinstance(n.func, ast.Attribute) and n.func.attr in (
                        "append", "appendleft", "remove", "pop", "popleft", "add", "discard", "clear", "extend", "update",
                        "insert", "sort", "reverse", "setdefault", "popitem", "rotate", "extendleft"):
                    base(n.func.value)
                elif isinstance(n, ast.Subscript) and isinstance(n.value, ast.Name):
                    add(n.value.id)          # a defaultdict read may insert the key
                elif isinstance(n, (ast.NamedExpr, ast.Delete, ast.Global, ast.Nonlocal, ast.With, ast.Try, ast.Import,
                                    ast.ImportFrom, ast.FunctionDef, ast.ClassDef, ast.Lambda, ast.Yield, ast.YieldFrom,
                                    ast.Await, ast.Break, ast.Continue)):
                    if not isinstance(n, ast.Lambda):
                        raise Reject("%s: statement %s" % (where(n), type(n).__name__))
        return out

    def raises(self, stmts):
        for s in stmts:
            for n in ast.walk(s):
                if isinstance(n, (ast.While, ast.Raise)):
                    return True
                if isinstance(n, ast.Call) and isinstance(n.func, ast.Attribute) and n.func.attr in ("remove", "pop", "popleft"):
                    return True
        return False

    def wrap(self, mon, term):
        return "Val %s" % term if mon else term

    def pre_lets(self, pre):
        return "".join("let %s := %s in\n" % (v, t) for v, t in pre)

    def need_owned(self, v, owned, n, what):
        if v not in owned:
            raise Reject("%s: %s mutates %r, which this function does not own (parameter or alias)" % (where(n), what, v))

    def block(self, stmts, env, owned, mon, tail):
        """stmts -> Coq term.  mon: the term has type py _.  tail(env, owned) -> the term ending the block when no
        return/raise ended it (None: falling off the end is not allowed here)."""
        if not stmts:
            if tail is None:
                raise Reject("function %s: a path ends without return" % self.name)
            return tail(env, owned)
        s, rest = stmts[0], stmts[1:]
        env, owned = dict(env), set(owned)
        k = lambda: self.block(rest, env, owned, mon, tail)

        if isinstance(s, ast.Expr) and isinstance(s.value, ast.Constant) and isinstance(s.value.value, str):
            return k()
        if isinstance(s, ast.Pass):
            return k()

        if isinstance(s, ast.Return):
            if rest:
                raise Reject("%s: code after return" % where(s))
            if tail is not None and getattr(tail, "in_loop", False):
                raise Reject("%s: return inside a loop" % where(s))
            if s.value is None:
                raise Reject("%s: bare return" % where(s))
            vals = s.value.elts if isinstance(s.value, ast.Tuple) else [s.value]
            parts = [self.expr(v, env) for v in vals]
            pre = [b for p in parts for b in p[0]]
            ks = [p[2] for p in parts]
            fresh = [p[3] or (isinstance(v, ast.Name) and v.id in owned) or p[2][0] not in MUTABLE for p, v in zip(parts, vals)]
            rk = ks[0] if len(ks) == 1 else T(*ks)
            if any(kk[0] in ("list", "set", "deque") and kk[1] is None for kk in ks):
                raise Reject("%s: returns a collection of unknown element kind" % where(s))
            if getattr(self, "ret", None) not in (None, rk):
                raise Reject("%s: return kinds differ: %r / %r" % (where(s), self.ret, rk))
            self.ret, self.ret_fresh = rk, fresh
            t = parts[0][1] if len(parts) == 1 else "(" + ", ".join(p[1] for p in parts) + ")"
            return self.pre_lets(pre) + self.wrap(mon, t)

        if isinstance(s, ast.Raise):
            if rest:
                raise Reject("%s: code after raise" % where(s))
            ex = s.exc
            nm = ex.func.id if isinstance(ex, ast.Call) and isinstance(ex.func, ast.Name) else ex.id if isinstance(ex, ast.Name) else None
            if nm not in EXCS or s.cause is not None:
                raise Reject("%s: raise of %r" % (where(s), nm))
            if not mon:
                raise Reject("%s: raise in a function translated as pure" % where(s))
            return "Exc %s" % nm

        if isinstance(s, ast.Assign):
            if len(s.targets) != 1:
                raise Reject("%s: chained assignment" % where(s))
            tg = s.targets[0]
            # x = d.pop() / d.popleft()
            v = s.value
            if (isinstance(v, ast.Call) and isinstance(v.func, ast.Attribute) and v.func.attr in ("pop", "popleft")
                    and isinstance(v.func.value, ast.Name) and isinstance(tg, ast.Name)):
                d = v.func.value.id
                if v.args or v.keywords or env.get(d, ("?",))[0] != "deque":
                    raise Reject("%s: .%s() is understood on a deque, without arguments" % (where(s), v.func.attr))
                self.need_owned(d, owned, s, "." + v.func.attr)
                if tg.id == d:
                    raise Reject("%s: target aliases the deque" % where(s))
                env[self.name_ok(tg.id, tg)] = env[d][1]
                return "py_bind (deque_%s %s) (fun '(%s, %s) =>\n%s)" % (v.func.attr, d, tg.id, d, k())
            pre, t, kv, fresh = self.expr(v, env)
            if isinstance(tg, ast.Name):
                if kv[0] in MUTABLE and not fresh:
                    raise Reject("%s: %r becomes a second name of a mutable object (aliasing is not tracked)" % (where(s), tg.id))
                env[self.name_ok(tg.id, tg)] = kv
                owned.discard(tg.id)
                if fresh and kv[0] in MUTABLE:
                    owned.add(tg.id)
                return self.pre_lets(pre) + "let %s := %s in\n%s" % (tg.id, t, k())
            if isinstance(tg, ast.Tuple):
                src_fresh = isinstance(v, ast.Call) and isinstance(v.func, ast.Name) and v.func.id in self.tr.done
                p = self.bind_pattern_mut(tg, kv, env, owned, src_fresh and self.tr.done[v.func.id]["ret_fresh"], s)
                return self.pre_lets(pre) + "let %s := %s in\n%s" % (p, t, k())
            raise Reject("%s: assignment target %s" % (where(s), type(tg).__name__))

        if isinstance(s, ast.AugAssign):
            tg = s.target
            if (isinstance(s.op, ast.Add) and isinstance(tg, ast.Subscript) and isinstance(tg.value, ast.Name)
                    and env.get(tg.value.id) == DD):
                d = tg.value.id
                self.need_owned(d, owned, s, "+=")
                pk, key, kk, _ = self.expr(tg.slice, env)
                pv, val, kv, fresh = self.expr(s.value, env)
                if pk or pv or kk != NODE or kv != L(NODE) or not fresh:
                    raise Reject("%s: `d[k] += l` needs a node key and a fresh list of nodes" % where(s))
                return "let %s := dd_iadd %s %s %s in\n%s" % (d, d, key, val, k())
            raise Reject("%s: augmented assignment" % where(s))

        if isinstance(s, ast.Expr) and isinstance(s.value, ast.Call) and isinstance(s.value.func, ast.Attribute):
            c = s.value
            meth, obj = c.func.attr, c.func.value
            if c.keywords or len(c.args) != 1:
                raise Reject("%s: method call shape" % where(s))
            pa, a, ka, _ = self.expr(c.args[0], env)
            if pa:
                raise Reject("%s: side effect in a method argument" % where(s))
            if isinstance(obj, ast.Name):
                v = obj.id
                kv = env.get(v)
                if kv is None:
                    raise Reject("%s: unknown name %r" % (where(s), v))
                self.need_owned(v, owned, s, "." + meth)
                if kv[0] in ("list", "deque") and kv[1] is None and meth in ("append", "appendleft"):
                    kv = (kv[0], ka)
                    env[v] = kv
                if kv[0] in MUTABLE and kv[1] != ka:
                    raise Reject("%s: .%s(%s) on %r of kind %r" % (where(s), meth, a, v, kv))
                if meth == "append" and kv[0] == "list":
                    return "let %s := list_append %s %s in\n%s" % (v, v, a, k())
                if meth == "append" and kv[0] == "deque":
                    return "let %s := deque_append %s %s in\n%s" % (v, v, a, k())
                if meth == "appendleft" and kv[0] == "deque":
                    return "let %s := deque_appendleft %s %s in\n%s" % (v, v, a, k())
                if meth == "remove" and kv[0] in ("list", "set"):
                    if not mon:
                        raise Reject("%s: .remove in a function translated as pure" % where(s))
                    return "py_bind (%s_remove %s %s) (fun %s =>\n%s)" % (kv[0], a, v, v, k())
                raise Reject("%s: method .%s on kind %r" % (where(s), meth, kv))
            if (isinstance(obj, ast.Subscript) and isinstance(obj.value, ast.Name) and env.get(obj.value.id) == DD
                    and meth == "remove"):
                d = obj.value.id
                self.need_owned(d, owned, s, "[k].remove")
                pk, key, kk, _ = self.expr(obj.slice, env)
                if pk or kk != NODE or ka != NODE or not mon:
                    raise Reject("%s: `d[k].remove(x)` shape" % where(s))
                # reading d[k] inserts a missing key; the shortened list object stays in the dict
                return "py_bind (list_remove %s (dd_getitem %s %s)) (fun tmp =>\nlet %s := dd_set %s %s tmp in\n%s)" % (
                    a, d, key, d, d, key, k())
            raise Reject("%s: statement %s" % (where(s), ast.unparse(s)[:60]))

        if isinstance(s, ast.If):
            return self.if_stmt(s, rest, env, owned, mon, tail)
        if isinstance(s, ast.For):
            return self.for_stmt(s, rest, env, owned, mon, tail)
        if isinstance(s, ast.While):
            return self.while_stmt(s, rest, env, owned, mon, tail)
        raise Reject("%s: statement %s" % (where(s), type(s).__name__))

    def bind_pattern_mut(self, tg, kv, env, owned, fresh_list, s):
        if kv[0] != "tuple" and kv != EDGE:
            raise Reject("%s: cannot unpack kind %r" % (where(s), kv))
        ks = [NODE, NODE] if kv == EDGE else list(kv[1:])
        if len(ks) != len(tg.elts):
            raise Reject("%s: unpacking %d values into %d names" % (where(s), len(ks), len(tg.elts)))
        ps = []
        for i, (t, kk) in enumerate(zip(tg.elts, ks)):
            if not isinstance(t, ast.Name):
                raise Reject("%s: nested unpacking" % where(s))
            if t.id == "_":
                ps.append("_")
                continue
            fr = bool(fresh_list and fresh_list[i])
            if kk[0] in MUTABLE and not fr:
                raise Reject("%s: %r becomes a second name of a mutable object" % (where(s), t.id))
            env[self.name_ok(t.id, t)] = kk
            owned.discard(t.id)
            if kk[0] in MUTABLE:
                owned.add(t.id)
            ps.append(t.id)
        return "'(" + ", ".join(ps) + ")"

    def state_vars(self, body, env, extra=()):
        return [v for v in self.assigned(body) if v in env and v not in extra]

    def loop_tail(self, vs, mon):
        def tail(env, owned):
            return self.wrap(mon, self.pat(vs))
        tail.in_loop = True
        return tail

    def if_stmt(self, s, rest, env, owned, mon, tail):
        # `if p is None: p[, _] = <pure expr>`  for an optional parameter
        t = s.test
        if (isinstance(t, ast.Compare) and isinstance(t.left, ast.Name) and env.get(t.left.id, ("?",))[0] == "opt"
                and len(t.ops) == 1 and isinstance(t.ops[0], ast.Is) and isinstance(t.comparators[0], ast.Constant)
                and t.comparators[0].value is None and isinstance(s.test.left.ctx, ast.Load)
                and t.left.id in [p for p, _ in self.params]):
            p = t.left.id
            if s.orelse or len(s.body) != 1 or not isinstance(s.body[0], ast.Assign) or self.raises(s.body):
                raise Reject("%s: `if %s is None:` must contain exactly one assignment to %s" % (where(s), p, p))
            env2, owned2 = dict(env), set(owned)
            del env2[p]
            inner = self.block(s.body, env2, owned2, False, lambda e, o: p if e.get(p) == env[p][1] else self.bad(s, p))
            env[p] = env[p][1]
            owned.discard(p)                              # may be the caller's object
            return "let %s := match %s with\n| None =>\n%s\n| Some %s => %s end in\n%s" % (
                p, p, inner, p, p, self.block(rest, env, owned, mon, tail))
        pre, c, kc, _ = self.expr(t, env)
        if kc != BOOL:
            raise Reject("%s: condition of kind %r" % (where(s), kc))
        ends = lambda b: bool(b) and isinstance(b[-1], (ast.Return, ast.Raise))
        if ends(s.body) and (ends(s.orelse) or not s.orelse):
            # terminal if: both paths leave the function (the else path may be the rest of the block)
            if s.orelse and rest:
                raise Reject("%s: code after an if whose branches both leave the function" % where(s))
            if tail is not None and getattr(tail, "in_loop", False):
                raise Reject("%s: return / raise inside a loop" % where(s))
            a = self.block(s.body, env, owned, mon, None)
            b = self.block(s.orelse if s.orelse else rest, env, owned, mon, tail)
            return self.pre_lets(pre) + "if %s then\n%s\nelse\n%s" % (c, a, b)
        if ends(s.body) or ends(s.orelse):
            raise Reject("%s: only one branch of the if leaves the function" % where(s))
        vs = [v for v in self.assigned(s.body + s.orelse) if v in env]
        m2 = mon and self.raises(s.body + s.orelse)
        tl = self.loop_tail(vs, m2)
        tl.in_loop = getattr(tail, "in_loop", False) if tail is not None else False
        outs = []
        for br in (s.body, s.orelse):
            e2, o2 = dict(env), set(owned)
            outs.append(self.block(br, e2, o2, m2, self.branch_tail(vs, m2, env, owned, s, tail)))
        body = "(if %s then\n%s\nelse\n%s)" % (c, outs[0], outs[1])
        if not vs:
            raise Reject("%s: if statement without effect" % where(s))
        if m2:
            return self.pre_lets(pre) + "py_bind %s (fun %s =>\n%s)" % (body, self.lam(vs), self.block(rest, env, owned, mon, tail))
        return self.pre_lets(pre) + "let %s := %s in\n%s" % (self.lam(vs) if len(vs) > 1 else vs[0], body, self.block(rest, env, owned, mon, tail))

    def branch_tail(self, vs, mon, env0, owned0, s, outer):
        def tail(env, owned):
            for v in vs:
                if env.get(v) != env0.get(v):
                    # an empty collection literal gets its element kind from the first use
                    if not (env0[v][0] in ("list", "deque") and env0[v][1] is None):
                        raise Reject("%s: %r changes kind in a branch" % (where(s), v))
                if (v in owned0) != (v in owned):
                    raise Reject("%s: ownership of %r differs between branches" % (where(s), v))
            return self.wrap(mon, self.pat(vs))
        tail.in_loop = getattr(outer, "in_loop", False) if outer is not None else False
        return tail

    def bad(self, s, p):
        raise Reject("%s: the branch does not rebind %s to a value of the expected kind" % (where(s), p))

    def for_stmt(self, s, rest, env, owned, mon, tail):
        if s.orelse:
            raise Reject("%s: for-else" % where(s))
        pi, it, ki, _ = self.expr(s.iter, env)
        if ki[0] not in ("list", "coll", "set", "deque") or ki[1] is None:
            raise Reject("%s: for over a value of kind %r" % (where(s), ki))
        seq = self.as_seq(it, ki, s)
        env2 = dict(env)
        p = self.bind_pattern(s.target, ki[1], env2)
        loopvars = [n.id for n in ast.walk(s.target) if isinstance(n, ast.Name)]
        vs = self.state_vars(s.body, env, loopvars)
        for n in ast.walk(s.iter):
            if isinstance(n, ast.Name) and n.id in vs:
                raise Reject("%s: the loop body modifies %r, which the loop iterates over" % (where(s), n.id))
        for v in loopvars:
            if v in env or v in self.assigned(s.body):
                raise Reject("%s: loop variable %r is rebound" % (where(s), v))
        if not vs:
            raise Reject("%s: loop without effect" % where(s))
        m2 = self.raises(s.body)
        if m2 and not mon:
            raise Reject("%s: raising loop in a function translated as pure" % where(s))
        body = self.block(s.body, env2, set(owned), m2, self.check_tail(vs, m2, env, owned, s))
        self.refine(vs, env, env2)
        st = self.pat(vs)
        restt = self.block(rest, env, owned, mon, tail)
        if m2:
            return self.pre_lets(pi) + "py_bind (py_for %s (fun %s %s =>\n%s) %s) (fun %s =>\n%s)" % (seq, self.lam(vs), p, body, st, self.lam(vs), restt)
        return self.pre_lets(pi) + "let %s := pure_for %s (fun %s %s =>\n%s) %s in\n%s" % (self.lam(vs), seq, self.lam(vs), p, body, st, restt)

    def refine(self, vs, env, env2):
        pass

    def check_tail(self, vs, mon, env0, owned0, s):
        def tail(env, owned):
            for v in vs:
                if env.get(v) != env0.get(v):
                    if env0[v][0] in ("list", "deque") and env0[v][1] is None and env[v][0] == env0[v][0]:
                        env0[v] = env[v]                    # `x = []` before the loop, first `.append` inside it
                    else:
                        raise Reject("%s: %r changes kind inside the loop" % (where(s), v))
                if (v in owned0) != (v in owned):
                    raise Reject("%s: ownership of %r changes inside the loop" % (where(s), v))
            return self.wrap(mon, self.pat(vs))
        tail.in_loop = True
        return tail

    def while_stmt(self, s, rest, env, owned, mon, tail):
        if s.orelse or not mon:
            raise Reject("%s: while shape" % where(s))
        if self.uses_fuel:
            raise Reject("%s: a second while loop (one fuel parameter per function)" % where(s))
        if tail is not None and getattr(tail, "in_loop", False):
            raise Reject("%s: while nested in a loop" % where(s))
        self.uses_fuel = True
        vs = self.state_vars(s.body, env)
        pc, c, kc, _ = self.expr(s.test, env)
        if pc or kc != BOOL:
            raise Reject("%s: while condition" % where(s))
        cvars = [n.id for n in ast.walk(s.test) if isinstance(n, ast.Name) and n.id in env]
        for v in cvars:
            if v not in vs:
                raise Reject("%s: the loop never changes %r of its condition" % (where(s), v))
        env2 = dict(env)
        body = self.block(s.body, env2, set(owned), True, self.check_tail(vs, True, env, owned, s))
        restt = self.block(rest, env, owned, mon, tail)
        return "py_bind (py_while fuel (fun %s => %s) (fun %s =>\n%s) %s) (fun %s =>\n%s)" % (
            self.lam(vs), c, self.lam(vs), body, self.pat(vs), self.lam(vs), restt)


class Translator:
    def __init__(self, src):
        self.src = src
        self.tree = ast.parse(src)
        self.done = {}
        self.sites_n = self.sites_e = 0
        self.tmp = 0

    def function(self, name, params):
        fns = [n for n in self.tree.body if isinstance(n, ast.FunctionDef) and n.name == name]
        if len(fns) != 1:
            raise Reject("function %s: %d definitions found" % (name, len(fns)))
        fd = fns[0]
        a = fd.args
        if a.vararg or a.kwarg or a.kwonlyargs or a.posonlyargs or fd.decorator_list:
            raise Reject("function %s: signature shape" % name)
        if [x.arg for x in a.args] != [p for p, _ in params]:
            raise Reject("function %s: parameters are %r, expected %r" % (name, [x.arg for x in a.args], [p for p, _ in params]))
        opt = [p for p, k in params if k[0] == "opt"]
        if len(a.defaults) != len(opt) or any(not (isinstance(d, ast.Constant) and d.value is None) for d in a.defaults) \
                or [p for p, _ in params][len(params) - len(opt):] != opt:
            raise Reject("function %s: defaults" % name)
        # a Python variable whose name belongs to the generated vocabulary is emitted with a trailing underscore
        stored = {n.id for n in ast.walk(fd) if isinstance(n, ast.Name) and isinstance(n.ctx, ast.Store)} | {p for p, _ in params}
        allnames = {n.id for n in ast.walk(fd) if isinstance(n, ast.Name)}
        for bad in sorted(x for x in stored if x in RESERVED or x.startswith("ord_") or x in self.done):
            if bad in ("list", "set", "deque", "len", "sorted", "defaultdict") or bad + "_" in allnames:
                raise Reject("function %s: variable name %r cannot be renamed safely" % (name, bad))
            for n in ast.walk(fd):
                if isinstance(n, ast.Name) and n.id == bad:
                    n.id = bad + "_"
        seg = ast.get_source_segment(self.src, fd)
        f = Fn(self, name, params)
        f.params = params
        f.ret = None
        env = {p: k for p, k in params}
        mon = f.raises(fd.body)
        f.monadic = mon
        body = f.block(fd.body, env, set(), mon, None)
        if f.ret is None:
            raise Reject("function %s: no return" % name)
        sig = " ".join("(%s : %s)" % (p, coqtype(k)) for p, k in params)
        if f.uses_fuel:
            sig = "(fuel : nat) " + sig
        self.done[name] = {"params": params, "ret": f.ret, "ret_fresh": f.ret_fresh, "monadic": mon, "fuel": f.uses_fuel}
        text = "(* %s :: %s   %s *)\nDefinition %s %s :=\n%s." % (SOURCE, name, "may raise: py _" if mon else "pure", name, sig, body)
        return text, seg


def emit(repo):
    """-> text of coq/gen/Gen_graphflow.v translated from <repo>/reservoirpy/utils/graphflow.py (raises Reject)"""
    path = os.path.join(repo, SOURCE)
    src = open(path).read()
    tr = Translator(src)
    defs, segs = [], []
    for name, params in FUNCS:
        t, seg = tr.function(name, params)
        defs.append(t)
        segs.append(seg)
    sha = hashlib.sha256("\n".join(segs).encode()).hexdigest()
    out = ["(* GENERATED by tools/vlib/py2coq_graph.py (%s) from the current source of %s -- DO NOT EDIT." % (VERSION, SOURCE),
           "   functions: %s;  sha256 of their source texts: %s" % (", ".join(n for n, _ in FUNCS), sha),
           "   Regenerated by `./check C03` (pregen) and by setup (tools/regen.py).  Vocabulary: base/PyColl.v.",
           "   ord_n k / ord_e k : the order in which Python iterates over a set at conversion site k (%d node sites, %d edge" % (tr.sites_n, tr.sites_e),
           "   sites); sorted_by_name : `sorted(edges, key=%s)`; fuel : bound on the iterations of `while`. *)" % PINNED_KEY,
           "From Coq Require Import List Bool Arith.",
           "From RV Require Import base.PyColl.",
           "Import ListNotations.", "",
           "Module GenGraphflow.",
           "Section Gen.",
           "Variable ord_n : nat -> list node -> list node.",
           "Variable ord_e : nat -> list edge -> list edge.",
           "Variable sorted_by_name : list edge -> list edge.", ""]
    out += [d + "\n" for d in defs]
    out += ["End Gen.", "End GenGraphflow.", ""]
    return "\n".join(out)


def pregen():
    """(re)write coq/gen/Gen_graphflow.v from the tree under test.  Returns None, or the error text (tie broken)."""
    import traceback
    from vlib import core
    gdir = os.path.join(core.COQ, "gen")
    os.makedirs(gdir, exist_ok=True)
    path = os.path.join(gdir, "Gen_graphflow.v")
    err = None
    try:
        text = emit(core.REPO)
    except Reject as ex:
        err = "translation rejected: %s" % ex
    except Exception:
        err = "translator exception: " + traceback.format_exc()[-1500:]
    if err is not None:
        # no model of the current source exists: never leave a stale one behind (the stub does not compile on purpose)
        text = "(* GENERATED: translation of %s FAILED -- %s *)\nDefinition translation_failed : True := 0.\n" % (
            SOURCE, err.replace("*)", "* )").replace("(*", "( *"))
    old = open(path).read() if os.path.exists(path) else None
    if old != text:                   # keep the mtime (and the compiled cone) when nothing changed
        with open(path, "w") as f:
            f.write(text)
    return ("unit graphflow: " + err) if err else None


if __name__ == "__main__":
    import sys
    print(emit(sys.argv[1] if len(sys.argv) > 1 else "/repo"))
