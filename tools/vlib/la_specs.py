"""Units translated by vlib/py2coq_la.py: which functions of /repo, and the kinds of their parameters and of the node attributes they read."""
from vlib.py2coq_la import S, B, N, M, FN, OPQ, NONE, V, T

ADD_BIAS_PINNED = '''
def add_bias(X):
    if isinstance(X, np.ndarray):
        X = np.atleast_2d(X)
        return np.hstack([np.ones((X.shape[0], 1)), X])
    elif isinstance(X, list):
        new_X = []
        for x in X:
            x = np.atleast_2d(x)
            new_X.append(np.hstack([np.ones((x.shape[0], 1)), x]))
        return new_X
'''

RESERVOIR = {
    "module": "GenReservoir", "out": "Gen_reservoir.v",
    "fields": {"W": M, "Win": M, "bias": V("col"), "has_feedback": B, "Wfb": M, "lr": S, "activation": FN, "fb_activation": FN,
               "noise_in": S, "noise_out": S, "noise_rc": S, "noise_type": OPQ, "noise_generator": ("NOISE",),
               "state_value": V("row"), "feedback_value": V("flat"), "internal_state": V("row")},
    "variants": {"LrS": {"lr": S}, "LrV": {"lr": V("flat")}},
    "methods": {"state": "state_value", "feedback": "feedback_value"},
    "oracles": [("xi_in", "list F"), ("xi_fb", "list F"), ("xi_rc", "list F")],
    "noise_fn": "noise",
    "draw_exprs": {"getattr(rng, dist)(**kwargs, size=shape)": "xi"},
    "functions": [
        {"name": "noise", "file": "reservoirpy/utils/random.py", "allow_kwargs": True,
         "params": {"rng": "IGNORE", "dist": "IGNORE", "shape": N, "gain": S}, "extra_params": [("xi", "list F")]},
        {"name": "reservoir_kernel", "file": "reservoirpy/nodes/reservoirs/base.py", "objects": ["reservoir"],
         "params": {"reservoir": "OBJ", "u": V("col"), "r": V("col")}, "draws": {"g_in": "xi_in", "g_fb": "xi_fb"},
         # a bias given as a 1-D vector is made a column: a no-op on `list F` (the orientation is declared `col` above)
         "skip": ["if getattr(bias, 'ndim', 2) == 1:\n    bias = bias.reshape(-1, 1)"]},
        {"name": "forward_internal", "file": "reservoirpy/nodes/reservoirs/base.py", "objects": ["reservoir"],
         "params": {"reservoir": "OBJ", "x": V("row")}, "draws": {"g_rc": "xi_rc"}},
        {"name": "forward_external", "file": "reservoirpy/nodes/reservoirs/base.py", "objects": ["reservoir"],
         "params": {"reservoir": "OBJ", "x": V("row")}, "draws": {"g_rc": "xi_rc"}},
    ],
}

UNITS = {"reservoir": RESERVOIR}

# ---------------------------------------------------------------------------------------------------------------- readouts
_PREPARE = {"name": "_prepare_inputs_for_learning", "file": "reservoirpy/nodes/readouts/base.py", "coqname": "prepare_inputs",
            "params": {"X": None, "Y": None, "bias": B, "allow_reshape": "IGNORE"}}


def _prepare(xkind, ykind):
    return dict(_PREPARE, params={"X": xkind, "Y": ykind, "bias": B, "allow_reshape": "IGNORE"})


READOUT_FIELDS = {"Wout": M, "bias": V("row"), "input_bias": B, "state_value": V("row")}

ONLINE = {
    "module": "GenOnline", "out": "Gen_online.v",
    "fields": dict(READOUT_FIELDS, P=M, _alpha_gen=("GEN",)),
    "methods": {"state": "state_value"},
    "identity_calls": ["check_vector"],
    "functions": [
        {"name": "add_bias", "file": "reservoirpy/utils/validation.py", "pinned": ADD_BIAS_PINNED, "prim": "add_bias_row",
         "params": {"X": V("row")}, "ret": V("row")},
        _prepare(V("row"), V("row")),
        {"name": "readout_forward", "file": "reservoirpy/nodes/readouts/base.py", "objects": ["node"],
         "params": {"node": "OBJ", "x": V("row")}},
        {"name": "_assemble_wout", "file": "reservoirpy/nodes/readouts/base.py",
         "params": {"Wout": M, "bias": V("row"), "has_bias": B}},
        {"name": "_split_and_save_wout", "file": "reservoirpy/nodes/readouts/base.py", "objects": ["node"],
         "params": {"node": "OBJ", "wo": M}},
        {"name": "_compute_error", "file": "reservoirpy/nodes/readouts/base.py", "objects": ["node"],
         "params": {"node": "OBJ", "x": V("row"), "y": V("row")}},
        {"name": "_rls", "file": "reservoirpy/nodes/readouts/rls.py", "params": {"P": M, "r": V("col"), "e": V("row")}},
        {"name": "train", "file": "reservoirpy/nodes/readouts/rls.py", "coqname": "rls_train", "objects": ["node"],
         "params": {"node": "OBJ", "x": V("row"), "y": V("row")}},
        {"name": "_lms", "file": "reservoirpy/nodes/readouts/lms.py", "params": {"alpha": ("GEN",), "r": V("col"), "e": V("row")}},
        {"name": "train", "file": "reservoirpy/nodes/readouts/lms.py", "coqname": "lms_train", "objects": ["node"],
         "params": {"node": "OBJ", "x": V("row"), "y": V("row")}},
    ],
}

RIDGE = {
    "module": "GenRidge", "out": "Gen_ridge.v",
    "fields": dict(READOUT_FIELDS, ridge=S, input_dim=N, XXT=M, YXT=M),
    "buffers": ["XXT", "YXT"],
    "methods": {"state": "state_value"},
    "identity_calls": ["check_vector"],
    "oracles": [("solve", "list (list F) -> list (list F) -> list (list F)")],
    "functions": [
        {"name": "add_bias", "file": "reservoirpy/utils/validation.py", "pinned": ADD_BIAS_PINNED, "prim": "add_bias_mat",
         "params": {"X": M}, "ret": M},
        _prepare(M, M),
        {"name": "readout_forward", "file": "reservoirpy/nodes/readouts/base.py", "objects": ["node"],
         "params": {"node": "OBJ", "x": V("row")}},
        {"name": "_solve_ridge", "file": "reservoirpy/nodes/readouts/ridge.py", "params": {"XXT": M, "YXT": M, "ridge": M}},
        {"name": "_accumulate", "file": "reservoirpy/nodes/readouts/ridge.py", "objects": ["readout"],
         "params": {"readout": "OBJ", "xxt": M, "yxt": M}},
        {"name": "partial_backward", "file": "reservoirpy/nodes/readouts/ridge.py", "objects": ["readout"],
         "params": {"readout": "OBJ", "X_batch": M, "Y_batch": M, "lock": ("OPT",)}},
        {"name": "backward", "file": "reservoirpy/nodes/readouts/ridge.py", "objects": ["readout"], "allow_kwargs": True, "allow_varargs": True,
         "params": {"readout": "OBJ"}},
    ],
}

UNITS["online"] = ONLINE
UNITS["ridge"] = RIDGE

# ---------------------------------------------------------------------------------------------------------------- intrinsic plasticity
IP = {
    "module": "GenIP", "out": "Gen_ip.v",
    "fields": {"a": V("col"), "b": V("col"), "mu": S, "sigma": S, "learning_rate": S, "tanh_rule": B},
    # reservoir.activation_type is 'tanh' or 'sigmoid' (checked by IPReservoir.__init__): the test is a boolean attribute here
    "bool_exprs": {"reservoir.activation_type == 'tanh'": "tanh_rule"},
    "functions": [
        {"name": "gaussian_gradients", "file": "reservoirpy/nodes/reservoirs/intrinsic_plasticity.py",
         "params": {"x": V("col"), "y": V("col"), "a": V("col"), "mu": S, "sigma": S, "eta": S}},
        {"name": "exp_gradients", "file": "reservoirpy/nodes/reservoirs/intrinsic_plasticity.py",
         "params": {"x": V("col"), "y": V("col"), "a": V("col"), "mu": S, "eta": S}},
        {"name": "apply_gradients", "file": "reservoirpy/nodes/reservoirs/intrinsic_plasticity.py",
         "params": {"a": V("col"), "b": V("col"), "delta_a": V("col"), "delta_b": V("col")}},
        {"name": "ip", "file": "reservoirpy/nodes/reservoirs/intrinsic_plasticity.py", "objects": ["reservoir"],
         "params": {"reservoir": "OBJ", "pre_state": V("row"), "post_state": V("row")}},
        {"name": "ip_activation", "file": "reservoirpy/nodes/reservoirs/intrinsic_plasticity.py", "objects": ["reservoir"], "kwonly": True,
         "params": {"state": V("col"), "reservoir": "OBJ", "f": FN}},
    ],
}
UNITS["ip"] = IP

# ---------------------------------------------------------------------------------------------------------------- window nodes (C17)
WINDOWS = {
    "module": "GenWindows", "out": "Gen_windows.v",
    "fields": {"store": M, "strides": N, "_monomial_idx": ("IDX",), "output_dim": N, "buffer": ("DEQUE",), "delay": N, "axis": OPQ},
    "deque_maxlen": {"buffer": "S o_delay"},          # delay.initialize: deque(initial_values, maxlen=node.delay + 1)
    "functions": [
        {"name": "forward", "file": "reservoirpy/nodes/reservoirs/nvar.py", "coqname": "nvar_forward", "objects": ["node"],
         "params": {"node": "OBJ", "x": V("row")}},
        {"name": "forward", "file": "reservoirpy/nodes/delay.py", "coqname": "delay_forward", "objects": ["node"], "allow_kwargs": True,
         "params": {"node": "OBJ", "x": V("row")}},
        {"name": "concat_forward", "file": "reservoirpy/nodes/concat.py", "objects": ["concat"],
         "params": {"concat": "OBJ", "data": ("LISTV",)}},
    ],
}
UNITS["windows"] = WINDOWS

# ---------------------------------------------------------------------------------------------------------------- dataset loops (C20)
_CH = "reservoirpy/datasets/_chaos.py"
MAPS = {
    "module": "GenMaps", "out": "Gen_maps.v",
    "fields": {},
    "identity_calls": ["check_vector"],
    "functions": [
        {"name": "henon_map", "file": _CH, "indexing": True, "allow_kwargs": True,
         "params": {"n_timesteps": N, "a": S, "b": S, "x0": V("flat")}},
        {"name": "logistic_map", "file": _CH, "indexing": True, "allow_kwargs": True, "raises": True,
         "params": {"n_timesteps": N, "r": S, "x0": S}},
        {"name": "narma", "file": _CH, "indexing": True,
         "params": {"n_timesteps": N, "order": N, "a1": S, "a2": S, "b": S, "c": S, "x0": V("col"), "seed": "IGNORE", "u": V("col")},
         # seed plumbing (only used to draw u when none is given: C14) and the normalisation of x0 to an (init_steps, 1) column
         "skip": ["if seed is None:\n    seed = get_seed()", "rs = rand_generator(seed)", "x0 = np.asarray(x0)",
                  "if x0.ndim == 1:\n    x0 = x0.reshape(-1, 1)", "x0 = check_vector(np.atleast_2d(x0))",
                  "if u is None:\n    u = rs.uniform(0, 0.5, size=(n_timesteps + order, 1))"]},
    ],
}
UNITS["maps"] = MAPS
