"""Units translated by vlib/py2coq_la.py: which functions of /repo, and the kinds of their parameters and of the node attributes they read."""
from vlib.py2coq_la import S, B, N, M, FN, OPQ, NONE, V, T

ADD_BIAS_PINNED = '''
def add_bias(X):
    if isinstance(X, np.ndarray):
        X = np.atleast_2d(X)
        return np.hstack([np.ones((X.shape[0], 1)), X])
    elif isinstance(X, list):
        new_X = []
        for x in X:
            x = np.atleast_2d(x)
            new_X.append(np.hstack([np.ones((x.shape[0], 1)), x]))
        return new_X
'''

RESERVOIR = {
    "module": "GenReservoir", "out": "Gen_reservoir.v",
    "fields": {"W": M, "Win": M, "bias": V("col"), "has_feedback": B, "Wfb": M, "lr": S, "activation": FN, "fb_activation": FN,
               "noise_in": S, "noise_out": S, "noise_rc": S, "noise_type": OPQ, "noise_generator": ("NOISE",),
               "state_value": V("row"), "feedback_value": V("flat"), "internal_state": V("row")},
    "variants": {"LrS": {"lr": S}, "LrV": {"lr": V("flat")}},
    "methods": {"state": "state_value", "feedback": "feedback_value"},
    "oracles": [("xi_in", "list F"), ("xi_fb", "list F"), ("xi_rc", "list F")],
    "noise_fn": "noise",
    "draw_exprs": {"getattr(rng, dist)(**kwargs, size=shape)": "xi"},
    "functions": [
        {"name": "noise", "file": "reservoirpy/utils/random.py", "allow_kwargs": True,
         "params": {"rng": "IGNORE", "dist": "IGNORE", "shape": N, "gain": S}, "extra_params": [("xi", "list F")]},
        {"name": "reservoir_kernel", "file": "reservoirpy/nodes/reservoirs/base.py", "objects": ["reservoir"],
         "params": {"reservoir": "OBJ", "u": V("col"), "r": V("col")}, "draws": {"g_in": "xi_in", "g_fb": "xi_fb"},
         # a bias given as a 1-D vector is made a column: a no-op on `list F` (the orientation is declared `col` above)
         "skip": ["if getattr(bias, 'ndim', 2) == 1:\n    bias = bias.reshape(-1, 1)"]},
        {"name": "forward_internal", "file": "reservoirpy/nodes/reservoirs/base.py", "objects": ["reservoir"],
         "params": {"reservoir": "OBJ", "x": V("row")}, "draws": {"g_rc": "xi_rc"}},
        {"name": "forward_external", "file": "reservoirpy/nodes/reservoirs/base.py", "objects": ["reservoir"],
         "params": {"reservoir": "OBJ", "x": V("row")}, "draws": {"g_rc": "xi_rc"}},
    ],
}

UNITS = {"reservoir": RESERVOIR}
