"""py2coq_mrun2 -- tie (T) for `Model.run` of reservoirpy/model.py  ->  coq/gen/Gen_mrun2.v   (C07 / C02)

Fail-closed translator of ONE method, `Model.run(self, X, forced_feedbacks, from_state, stateful, reset, shift_fb, return_states)`: the
loop over the SEQUENCES (py2coq_mrun.py translates the loop over the timesteps of one sequence, `Model._run`).  World-passing monad of
base/CtxPrelude.v; `for .. in zip(A, B)` = MRunPrelude.py_foldM over `combine A B`; the callees are Section functions of module GenMRun2.
Everything outside the fragment is rejected (`Reject`); the caller (props/c07.pregen) then gets a stub that does not compile.

Statement by statement:
  X_, forced_feedbacks_ = to_data_mapping(self, X, forced_feedbacks)          `bind (to_data_mapping X forced_feedbacks) (fun '(X_, forced_feedbacks_) => ..`
  self._initialize_on_sequence(X_[0], forced_feedbacks_[0])                   `bind (index0 X_) (fun a0 => bind (index0f forced_feedbacks_) (fun b0 =>
                                                                               bind (_initialize_on_sequence a0 b0) (fun _ => ..` (`l[0]` may raise)
  if return_states is not None and not isinstance(return_states, str):
      return_states = list(return_states)                                      pinned by exact text: `let return_states := list_rs return_states in`
  states = []                                                                  `let states := [] in`
  for X_seq, fb_seq in zip(X_, forced_feedbacks_):                             `bind (py_foldM (combine X_ forced_feedbacks_) (fun states '(X_seq, fb_seq) => BODY) states)`
      with self.with_state(reset=<p>, stateful=<p>):                           `with_state <stateful> <reset> (..)`: keywords only, each a bool PARAMETER of run or a bool
                                                                               constant; left out = the default of the signature of Model.with_state in the tree; NO
                                                                               positional argument (the state mapping stays None)
          states_seq = self._run(X_seq, fb_seq, from_state=.., stateful=.., shift_fb=.., return_states=..)
                                                                               `bind (_run <the six arguments in the order of the signature of Model._run>) (fun states_seq =>`;
                                                                               every argument must be the variable of that name (no constant, no swap), none missing
          states.append(states_seq)                                            `ret (states ++ [states_seq])`
  return fold_mapping(self, states, return_states)                             `fold_mapping states return_states`
"""
import ast
import hashlib
import os

from vlib.py2coq_mcall import Reject, rej, _model_class, _method, _body, SRC_MODEL
from vlib import py2coq_mrun

VERSION = "py2coq_mrun2 1"
Q = "CtxPrelude."
PARAMS = ["self", "X", "forced_feedbacks", "from_state", "stateful", "reset", "shift_fb", "return_states"]
DEFAULTS = ["None", "None", "True", "False", "True", "None"]
S0 = "X_, forced_feedbacks_ = to_data_mapping(self, X, forced_feedbacks)"
S1 = "self._initialize_on_sequence(X_[0], forced_feedbacks_[0])"
S2 = "if return_states is not None and (not isinstance(return_states, str)):\n    return_states = list(return_states)"
S3 = "states = []"
S5 = "return fold_mapping(self, states, return_states)"
RUN_KW = ["from_state", "stateful", "shift_fb", "return_states"]


def with_state_args(cls, c):
    if not (isinstance(c, ast.Call) and ast.unparse(c.func) == "self.with_state"):
        rej(c, "Model.run: only `with self.with_state(..)`")
    fd = _method_cm(cls, "with_state")
    a = fd.args
    names = [p.arg for p in a.args]
    if names != ["self", "state", "stateful", "reset"] or len(a.defaults) != 3 or a.vararg or a.kwarg or a.kwonlyargs or a.posonlyargs:
        rej(fd, "Model.run: signature of Model.with_state must be (self, state=None, stateful=.., reset=..)")
    if ast.unparse(a.defaults[0]) != "None":
        rej(fd, "Model.run: default of `state` in Model.with_state must be None")
    vals = {"stateful": a.defaults[1], "reset": a.defaults[2]}
    if c.args:
        rej(c, "Model.run: `self.with_state(..)` takes keywords only here (the state mapping stays None)")
    seen = set()
    for k in c.keywords:
        if k.arg not in ("stateful", "reset") or k.arg in seen:
            rej(c, "Model.run: keyword of the context manager outside the fragment")
        seen.add(k.arg)
        vals[k.arg] = k.value
    out = []
    for n in ("stateful", "reset"):
        v = vals[n]
        if isinstance(v, ast.Constant) and type(v.value) is bool:
            out.append("true" if v.value else "false")
        elif isinstance(v, ast.Name) and v.id in ("stateful", "reset"):
            out.append(v.id)
        else:
            rej(c, "Model.run: %s of the context manager is neither a bool constant nor a bool parameter" % n)
    return "with_state %s %s" % (out[0], out[1])


def _method_cm(cls, name):
    ms = [n for n in cls.body if isinstance(n, ast.FunctionDef) and n.name == name]
    if len(ms) != 1:
        raise Reject("%s: Model.%s: %d definitions" % (SRC_MODEL, name, len(ms)))
    return ms[0]


def run_call(cls, s):
    """`states_seq = self._run(X_seq, fb_seq, k=k ..)` -> '_run X_seq fb_seq from_state stateful shift_fb return_states'"""
    if not (isinstance(s, ast.Assign) and len(s.targets) == 1 and ast.unparse(s.targets[0]) == "states_seq" and isinstance(s.value, ast.Call)
            and ast.unparse(s.value.func) == "self._run"):
        rej(s, "Model.run: expected `states_seq = self._run(..)`")
    c = s.value
    sig = [p.arg for p in _method(cls, "_run").args.args]
    if sig != py2coq_mrun.PARAMS:
        rej(s, "Model.run: signature of Model._run moved")
    got = {}
    for name, a in zip(sig[1:], c.args):
        if isinstance(a, ast.Starred):
            rej(s, "Model.run: starred argument")
        got[name] = a
    for k in c.keywords:
        if k.arg is None or k.arg in got or k.arg not in sig[1:]:
            rej(s, "Model.run: keyword of `_run` outside the fragment")
        got[k.arg] = k.value
    want = {"X": "X_seq", "feedback": "fb_seq", "from_state": "from_state", "stateful": "stateful", "shift_fb": "shift_fb",
            "return_states": "return_states"}
    if set(got) != set(want):
        rej(s, "Model.run: `_run` must be given exactly X, feedback, from_state, stateful, shift_fb, return_states")
    for n, v in want.items():
        if not (isinstance(got[n], ast.Name) and got[n].id == v):
            rej(s, "Model.run: argument `%s` of `_run` must be the variable `%s`" % (n, v))
    return "_run X_seq fb_seq from_state stateful shift_fb return_states"


def emit(repo):
    src = open(os.path.join(repo, SRC_MODEL)).read()
    tree = ast.parse(src)
    cls = _model_class(tree)
    fd = _method(cls, "run")
    a = fd.args
    if [p.arg for p in a.args] != PARAMS or [ast.unparse(d) for d in a.defaults] != DEFAULTS or a.vararg or a.kwarg or a.kwonlyargs or a.posonlyargs:
        raise Reject("%s:%d: Model.run: signature must be (%s) with defaults (%s)" % (SRC_MODEL, fd.lineno, ", ".join(PARAMS), ", ".join(DEFAULTS)))
    body = _body(fd)
    txt = [ast.unparse(s) for s in body]
    if len(body) != 6 or txt[0] != S0 or txt[1] != S1 or txt[2] != S2 or txt[3] != S3 or txt[5] != S5:
        raise Reject("%s:%d: Model.run: expected to_data_mapping / _initialize_on_sequence / list(return_states) / states = [] / for / return fold_mapping -- got %r"
                     % (SRC_MODEL, fd.lineno, [t[:60] for t in txt]))
    lp = body[4]
    if not (isinstance(lp, ast.For) and not lp.orelse and ast.unparse(lp.target) == "(X_seq, fb_seq)"
            and ast.unparse(lp.iter) == "zip(X_, forced_feedbacks_)" and len(lp.body) == 1 and isinstance(lp.body[0], ast.With)):
        rej(lp, "Model.run: only `for X_seq, fb_seq in zip(X_, forced_feedbacks_): with ..`")
    w = lp.body[0]
    if len(w.items) != 1 or w.items[0].optional_vars is not None:
        rej(w, "Model.run: a `with` binds nothing and has one item")
    cm = with_state_args(cls, w.items[0].context_expr)
    if len(w.body) != 2 or ast.unparse(w.body[1]) != "states.append(states_seq)":
        rej(w, "Model.run: the body of the `with` must be `states_seq = self._run(..)` / `states.append(states_seq)`")
    call = run_call(cls, w.body[0])
    # names the method relies on must be the module-level imports, not rebound in the class
    for nm in ("to_data_mapping", "fold_mapping"):
        imp = [n for n in tree.body if isinstance(n, ast.ImportFrom) and any(al.name == nm and al.asname is None for al in n.names)]
        if len(imp) != 1:
            raise Reject("%s: pin: `%s` must be imported once at module level" % (SRC_MODEL, nm))
    term = ("%sbind (to_data_mapping X forced_feedbacks) (fun '(X_, forced_feedbacks_) =>\n"
            "%sbind (index0 X_) (fun a__0 =>\n%sbind (index0f forced_feedbacks_) (fun b__0 =>\n"
            "%sbind (_initialize_on_sequence a__0 b__0) (fun _ =>\n"
            "let return_states := list_rs return_states in\n"
            "let states := [] in\n"
            "%sbind (py_foldM (combine X_ forced_feedbacks_) (fun states '(X_seq, fb_seq) =>\n"
            "%s\n(%sbind (%s) (fun states_seq =>\n%sret (states ++ [states_seq])))) states) (fun states =>\n"
            "fold_mapping states return_states)))))" % (Q, Q, Q, Q, Q, cm, Q, call, Q))
    seg = ast.get_source_segment(src, fd)
    out = ["(* GENERATED by tools/vlib/py2coq_mrun2.py (%s) -- DO NOT EDIT." % VERSION,
           "   source: %s :: Model.run (line %d)" % (SRC_MODEL, fd.lineno),
           "   sha256 of its source text: %s" % hashlib.sha256(seg.encode()).hexdigest(),
           "   pinned by exact text: `if return_states is not None and not isinstance(return_states, str): return_states = list(return_states)`",
           "   (list_rs); the arguments of `self._run(..)` are the variables of the same names, in the order of its signature.",
           "   Regenerated by `./check C07` (pregen).  Vocabulary: base/CtxPrelude.v, MRunPrelude.v (py_foldM).",
           "   Section functions, in source order: to_data_mapping X fb; index0 l / index0f l : `l[0]`; _initialize_on_sequence x0 fb0;",
           "   list_rs rs; with_state s r B : `with self.with_state(reset=r, stateful=s): B` (no state mapping); _run : Model._run (module GenMRun",
           "   of Gen_mrun.v); fold_mapping states rs. *)",
           "From Coq Require Import List Bool Arith.",
           "From RV Require Import base.MRunPrelude.",
           "From RV Require base.CtxPrelude.",
           "Import ListNotations.", "",
           "Module GenMRun2.",
           "Section Gen.",
           "Variables world xdata fbdata xseq fbseq fromst rsel sseq out : Type.",
           "Variable to_data_mapping : xdata -> fbdata -> CtxPrelude.M world (list xseq * list fbseq).",
           "Variable index0 : list xseq -> CtxPrelude.M world xseq.",
           "Variable index0f : list fbseq -> CtxPrelude.M world fbseq.",
           "Variable _initialize_on_sequence : xseq -> fbseq -> CtxPrelude.M world unit.",
           "Variable list_rs : rsel -> rsel.",
           "Variable with_state : bool -> bool -> CtxPrelude.M world (list sseq) -> CtxPrelude.M world (list sseq).",
           "Variable _run : xseq -> fbseq -> fromst -> bool -> bool -> rsel -> CtxPrelude.M world sseq.",
           "Variable fold_mapping : list sseq -> rsel -> CtxPrelude.M world out.", "",
           "(* %s :: Model.run *)" % SRC_MODEL,
           "Definition Model_run (X : xdata) (forced_feedbacks : fbdata) (from_state : fromst) (stateful reset shift_fb : bool) (return_states : rsel)",
           "  : CtxPrelude.M world out :=",
           term + ".", "",
           "End Gen.", "End GenMRun2.", ""]
    return "\n".join(out)


def pregen():
    """(re)write coq/gen/Gen_mrun2.v from the tree under test.  Returns None, or the error text (tie broken)."""
    import traceback
    from vlib import core
    gdir = os.path.join(core.COQ, "gen")
    os.makedirs(gdir, exist_ok=True)
    path = os.path.join(gdir, "Gen_mrun2.v")
    err = None
    try:
        text = emit(core.REPO)
    except Reject as ex:
        err = "translation rejected: %s" % ex
    except Exception:
        err = "translator exception: " + traceback.format_exc()[-1500:]
    if err is not None:
        text = "(* GENERATED: translation of %s :: Model.run FAILED -- %s *)\nDefinition translation_failed : True := 0.\n" % (
            SRC_MODEL, err.replace("*)", "* )").replace("(*", "( *"))
    old = open(path).read() if os.path.exists(path) else None
    if old != text:                   # keep the mtime (and the compiled cone) when nothing changed
        with open(path, "w") as f:
            f.write(text)
    return ("unit mrun2 (Model.run): " + err) if err else None


if __name__ == "__main__":
    import sys
    print(emit(sys.argv[1] if len(sys.argv) > 1 else "/repo"))
