"""Fail-closed translator for the offline staging of Model.fit: get_offline_subgraphs, _get_required_nodes, _get_links of
reservoirpy/utils/graphflow.py -> Gallina (tie T of C06), emitted into coq/gen/Gen_staging.v.

It REUSES the machinery of tools/vlib/py2coq_graph.py (C03: kinds, ownership tracking, defaultdict reads, loops, set -> sequence
sites) by subclassing its `Fn` / `Translator`; py2coq_graph.py itself is not modified and coq/gen/Gen_graphflow.v is not touched.
The two helpers the staging calls (find_entries_and_exits, find_parents_and_children) are re-emitted into Gen_staging.v so that
the file does not depend on the state of C03's generated file.  Vocabulary: coq/base/PyColl.v + coq/base/PyColl2.v.

Added here (everything else: see the docstring of py2coq_graph.py; anything not listed in either is REJECTED):
  n.is_trained_offline / n.is_trained_online   Section variables (predicates on nodes);   n.name = node_name n (names are ids)
  l.copy()                                     list_copy l
  set() / [] / {}                              empty set / list / dict, kind taken from the table LOCALS (every later use is
                                               kind-checked, so a wrong declaration is a rejection, not a wrong model)
  a, b = set(), set() / [], []                 two bindings (only for empty-collection displays)
  s.add(x)   s |= t   s == t   s != t          set_add, set_union, py_set_eqb
  [e for x in it if c]   all([...])            map / filter, py_all
  for p in d.get(k) / comprehension over it    py_iter (TypeError when the key is absent)
  range(a, b)   l[i]   l[i - 1]   l[-1]        py_range; py_getitem with the index computed in Z (Python's negative indices),
                                               IndexError outside the list;  t[0] / t[1] on a pair = fst / snd
  a or <expr that may raise>                   short circuit kept: the right operand is evaluated only when Python evaluates it
  x = f(...) for a translated f that may raise py_let x := f ... in
  links[k] = v                                 dd_set (insertion-ordered dict)
  list(zip(a, b))                              combine a b
  l.append((a, b)) / links[k] = a  with a, b names of lists this function owns ("move"): accepted only if the stored list can
                                               never be mutated afterwards: every mutation site of the name lies textually before
                                               the move, and every loop containing the move and a mutation site rebinds the name to
                                               a fresh empty collection, at the top level of its body, before the first mutation
  `while c:`                                   as in py2coq_graph, but only ONE name of the condition has to change in the body
"""
import ast
import hashlib
import os

from vlib import py2coq_graph as g
from vlib.py2coq_graph import Reject, NODE, EDGE, NAT, BOOL, DD, L, C, SET, OPT, T, where

VERSION = "py2coq_staging 1"
SOURCE = g.SOURCE
LINKS = ("links",)
SG = T(L(NODE), L(EDGE))
MUT2 = g.MUTABLE + ("links",)

FUNCS = [
    ("find_entries_and_exits", [("nodes", C(NODE)), ("edges", C(EDGE))]),
    ("find_parents_and_children", [("edges", C(EDGE))]),
    ("_get_links", [("previous", SET(NODE)), ("nexts", SET(NODE)), ("children", DD)]),
    ("_get_required_nodes", [("subgraphs", L(SG)), ("children", DD)]),
    ("get_offline_subgraphs", [("nodes", L(NODE)), ("edges", C(EDGE))]),
]
# kinds of the locals that are created as EMPTY collections (`x = []`, `set()`, `{}`)
LOCALS = {
    "_get_links": {"links": LINKS, "next_children": L(NODE)},
    "_get_required_nodes": {"req": L(LINKS), "fitted": SET(NODE)},
    "get_offline_subgraphs": {"included": SET(NODE), "trained": SET(NODE), "subgraphs": L(SG), "required": L(LINKS),
                              "subnodes": L(NODE), "subedges": L(EDGE)},
}
ATTRS = ("is_trained_offline", "is_trained_online")
RESERVED2 = g.RESERVED | set("""is_trained_offline is_trained_online node_name py_let py_iter py_getitem py_range py_all list_copy
set_add py_set_eqb combine filter forallb fst snd Z TypeError""".split())
MUTATORS = ("append", "appendleft", "remove", "pop", "popleft", "add", "discard", "clear", "extend", "update", "insert", "sort",
            "reverse", "setdefault", "popitem", "rotate", "extendleft")


def coqtype(k):
    if k == LINKS or k == DD:
        return "ddict node node"
    if k in (NODE, EDGE, NAT, BOOL):
        return g.coqtype(k)
    if k[0] in ("list", "set", "deque", "coll"):
        return "list _" if k[1] is None else "list (%s)" % coqtype(k[1])
    if k[0] == "opt":
        return "option (%s)" % coqtype(k[1])
    if k[0] == "tuple":
        return "(" + " * ".join(coqtype(x) for x in k[1:]) + ")"
    raise Reject("no Coq type for kind %r" % (k,))


def is_empty_display(v):
    return ((isinstance(v, ast.List) and not v.elts) or (isinstance(v, ast.Dict) and not v.keys)
            or (isinstance(v, ast.Call) and isinstance(v.func, ast.Name) and v.func.id == "set" and not v.args and not v.keywords))


class SFn(g.Fn):
    # ------------------------------------------------------------------ helpers
    def name_ok(self, s, n):
        if s in RESERVED2 or s.startswith("ix__") or s.startswith("it__"):
            raise Reject("%s: variable name %r clashes with the generated vocabulary" % (where(n), s))
        return super().name_ok(s, n)

    def fresh_var(self, prefix):
        self.tr.tmp += 1
        return "%s__%d" % (prefix, self.tr.tmp)

    def pre_lets(self, pre):
        out = ""
        for v, t in pre:
            out += ("py_let %s := %s in\n" % (v[1:], t)) if v.startswith("!") else ("let %s := %s in\n" % (v, t))
        return out

    @staticmethod
    def monadic_pre(pre):
        return any(v.startswith("!") for v, _ in pre)

    def zexpr(self, e, env):
        """an index expression, computed in Z"""
        if isinstance(e, ast.Constant) and isinstance(e.value, int) and not isinstance(e.value, bool):
            return "%d" % e.value
        if isinstance(e, ast.UnaryOp) and isinstance(e.op, ast.USub):
            return "(- %s)" % self.zexpr(e.operand, env)
        if isinstance(e, ast.Name) and env.get(e.id) == NAT:
            return "(Z.of_nat %s)" % e.id
        if isinstance(e, ast.BinOp) and isinstance(e.op, (ast.Add, ast.Sub)):
            return "(%s %s %s)" % (self.zexpr(e.left, env), "+" if isinstance(e.op, ast.Add) else "-", self.zexpr(e.right, env))
        raise Reject("%s: index expression %s" % (where(e), ast.unparse(e)))

    # ------------------------------------------------------------------ expressions
    def expr(self, e, env):
        if isinstance(e, ast.Attribute) and isinstance(e.value, ast.Name) and isinstance(e.ctx, ast.Load):
            if env.get(e.value.id) == NODE:
                if e.attr in ATTRS:
                    return [], "(%s %s)" % (e.attr, e.value.id), BOOL, False
                if e.attr == "name":
                    return [], "(node_name %s)" % e.value.id, NODE, False
            raise Reject("%s: attribute %s" % (where(e), ast.unparse(e)))
        if isinstance(e, ast.Dict):
            if e.keys:
                raise Reject("%s: only the empty dict display is understood" % where(e))
            return [], "([] : ddict node node)", LINKS, True
        if isinstance(e, ast.Subscript) and isinstance(e.ctx, ast.Load):
            pv, v, kv, _ = self.expr(e.value, env)
            if kv == EDGE or kv[0] == "tuple":
                n = 2 if kv == EDGE else len(kv) - 1
                if n != 2 or not (isinstance(e.slice, ast.Constant) and e.slice.value in (0, 1) and not isinstance(e.slice.value, bool)):
                    raise Reject("%s: subscript of a tuple must be [0] or [1] on a pair" % where(e))
                ks = (NODE, NODE) if kv == EDGE else kv[1:]
                i = e.slice.value
                return pv, "(%s %s)" % ("fst" if i == 0 else "snd", v), ks[i], False
            if kv[0] == "list" and kv[1] is not None:
                x = self.fresh_var("ix")
                return pv + [("!" + x, "(py_getitem %s (%s)%%Z)" % (v, self.zexpr(e.slice, env)))], x, kv[1], False
            if kv == DD and not pv:
                return super().expr(e, env)
            raise Reject("%s: subscript of a value of kind %r" % (where(e), kv))
        if isinstance(e, ast.Compare) and len(e.ops) == 1 and isinstance(e.ops[0], (ast.Eq, ast.NotEq)):
            pa, a, ka, _ = self.expr(e.left, env)
            pb, b, kb, _ = self.expr(e.comparators[0], env)
            if ka[0] == "set" and ka == kb and ka[1] is not None:
                if pa or pb:
                    raise Reject("%s: side effect in a set comparison" % where(e))
                t = "(py_set_eqb %s %s)" % (a, b)
                return [], t if isinstance(e.ops[0], ast.Eq) else "(negb %s)" % t, BOOL, False
            return super().expr(e, env)
        if isinstance(e, ast.ListComp):
            return self.listcomp(e, env)
        if isinstance(e, ast.BoolOp):
            return self.boolop2(e, list(e.values), env)
        return super().expr(e, env)

    def listcomp(self, e, env):
        if len(e.generators) != 1 or e.generators[0].is_async:
            raise Reject("%s: comprehension shape" % where(e))
        gen = e.generators[0]
        pi, it, ki, _ = self.expr(gen.iter, env)          # evaluated once, before anything else of the comprehension
        if ki[0] == "opt" and ki[1][0] == "list":
            x = self.fresh_var("it")
            pi = pi + [("!" + x, "(py_iter %s)" % it)]
            it, ki = x, ki[1]
        if ki[0] not in ("list", "coll", "set", "deque") or ki[1] is None:
            raise Reject("%s: comprehension over a value of kind %r" % (where(e), ki))
        seq = self.as_seq(it, ki, e)
        env2 = dict(env)
        p = self.bind_pattern(gen.target, ki[1], env2)
        for c in gen.ifs:
            pc, ct, kc, _ = self.expr(c, env2)
            if pc or kc != BOOL:
                raise Reject("%s: comprehension condition" % where(e))
            seq = "(filter (fun %s => %s) %s)" % (p, ct, seq)
        pe, el, ke, _ = self.expr(e.elt, env2)
        if pe or ke[0] in MUT2:
            raise Reject("%s: comprehension element" % where(e))
        if isinstance(e.elt, ast.Name) and isinstance(gen.target, ast.Name) and e.elt.id == gen.target.id:
            return pi, seq, L(ke), True                      # [x for x in it if c]
        return pi, "(map (fun %s => %s) %s)" % (p, el, seq), L(ke), True

    def boolop2(self, e, vals, env):
        parts = [self.expr(v, env) for v in vals]
        if any(p[2] != BOOL for p in parts):
            raise Reject("%s: boolean operator on a non-boolean" % where(e))
        if not any(self.monadic_pre(p[0]) for p in parts[1:]):
            if any(self.monadic_pre(p[0]) for p in parts):
                # only the first operand may raise: it is evaluated unconditionally
                pb, b, _, _ = self.boolop(e, vals[1:], env) if len(vals) > 1 else ([], None, None, None)
                if pb:
                    raise Reject("%s: boolean operator mixing raising and dict-inserting operands" % where(e))
                return parts[0][0], "(%s %s %s)" % ("orb" if isinstance(e.op, ast.Or) else "andb", parts[0][1], b), BOOL, False
            return self.boolop(e, vals, env)
        # an operand after the first may raise: short circuit, as a computation of type py bool
        is_or = isinstance(e.op, ast.Or)

        def chain(ps):
            pre, t = ps[0][0], ps[0][1]
            if len(ps) == 1:
                return self.pre_lets(pre) + "Val %s" % t
            if any(not v.startswith("!") for v, _ in pre) and ps is not parts:
                raise Reject("%s: dict-inserting read under a short circuit next to a raising operand" % where(e))
            rest = chain(ps[1:])
            body = ("if %s then Val true else (%s)" % (t, rest)) if is_or else ("if %s then (%s) else Val false" % (t, rest))
            return self.pre_lets(pre) + body
        for p in parts[1:]:
            if any(not v.startswith("!") for v, _ in p[0]):
                raise Reject("%s: dict-inserting read under a short circuit next to a raising operand" % where(e))
        c = self.fresh_var("c")
        return [("!" + c, "(%s)" % chain(parts))], c, BOOL, False

    def call(self, e, env):
        f = e.func
        if isinstance(f, ast.Name) and not e.keywords:
            a = e.args
            if f.id == "set" and not a:
                return [], "[]", SET(None), True
            if f.id == "set" and len(a) == 1:
                pa, t, ka, _ = self.expr(a[0], env)
                if ka[0] not in ("list", "set", "deque", "coll") or ka[1] is None:
                    raise Reject("%s: set() of kind %r" % (where(e), ka))
                return pa, t if ka[0] == "set" else "(py_set %s)" % t, SET(ka[1]), True
            if f.id == "all" and len(a) == 1 and isinstance(a[0], ast.ListComp):
                pa, t, ka, _ = self.expr(a[0], env)
                if ka != L(BOOL):
                    raise Reject("%s: all() of kind %r" % (where(e), ka))
                return pa, "(py_all %s)" % t, BOOL, False
            if f.id == "range" and len(a) == 2:
                p1, t1, k1, _ = self.expr(a[0], env)
                p2, t2, k2, _ = self.expr(a[1], env)
                if p1 or p2 or k1 != NAT or k2 != NAT:
                    raise Reject("%s: range() arguments" % where(e))
                return [], "(py_range %s %s)" % (t1, t2), L(NAT), True
            if (f.id == "list" and len(a) == 1 and isinstance(a[0], ast.Call) and isinstance(a[0].func, ast.Name)
                    and a[0].func.id == "zip" and len(a[0].args) == 2 and not a[0].keywords):
                p1, t1, k1, _ = self.expr(a[0].args[0], env)
                p2, t2, k2, _ = self.expr(a[0].args[1], env)
                if p1 or p2 or k1[0] != "list" or k2[0] != "list" or k1[1] is None or k2[1] is None:
                    raise Reject("%s: list(zip(a, b)) needs two lists" % where(e))
                return [], "(combine %s %s)" % (t1, t2), L(T(k1[1], k2[1])), True
        if (isinstance(f, ast.Attribute) and isinstance(f.value, ast.Name) and f.attr == "copy" and not e.args and not e.keywords
                and env.get(f.value.id, ("?",))[0] == "list"):
            return [], "(list_copy %s)" % f.value.id, env[f.value.id], True
        return super().call(e, env)

    # ------------------------------------------------------------------ statements
    def assigned(self, stmts, env=None):
        """as in py2coq_graph, except that a subscript READ counts as a modification only of a defaultdict (when env is given)"""
        out = super().assigned(stmts)
        if env is None:
            return out
        keep = []
        for nme in out:
            only_reads = True
            for s in stmts:
                for n in ast.walk(s):
                    if isinstance(n, ast.Assign):
                        tg = [x for t in n.targets for x in ast.walk(t) if isinstance(x, ast.Name) and x.id == nme]
                        if tg:
                            only_reads = False
                    elif isinstance(n, (ast.AugAssign, ast.AnnAssign)):
                        if any(isinstance(x, ast.Name) and x.id == nme for x in ast.walk(n.target)):
                            only_reads = False
                    elif isinstance(n, ast.For):
                        if any(isinstance(x, ast.Name) and x.id == nme for x in ast.walk(n.target)):
                            only_reads = False
                    elif isinstance(n, ast.Call) and isinstance(n.func, ast.Attribute) and n.func.attr in MUTATORS:
                        v = n.func.value
                        while isinstance(v, (ast.Subscript, ast.Attribute)):
                            v = v.value
                        if isinstance(v, ast.Name) and v.id == nme:
                            only_reads = False
            if only_reads and env.get(nme) != DD:
                continue
            keep.append(nme)
        return keep

    def state_vars(self, body, env, extra=()):
        return [v for v in self.assigned(body, env) if v in env and v not in extra]

    def raises(self, stmts):
        if super().raises(stmts):
            return True
        def walk(n):                                                # the pinned sort key lambda is not executed by the model
            yield n
            for c in ast.iter_child_nodes(n):
                if not isinstance(c, ast.Lambda):
                    yield from walk(c)
        for s in stmts:
            for n in walk(s):
                if isinstance(n, ast.Subscript) and isinstance(n.ctx, ast.Load):
                    return True                                     # conservative: l[i] may raise IndexError
                if isinstance(n, ast.Call) and isinstance(n.func, ast.Name) and self.tr.done.get(n.func.id, {}).get("monadic"):
                    return True
                its = [c.iter for c in n.generators] if isinstance(n, ast.ListComp) else [n.iter] if isinstance(n, ast.For) else []
                for it in its:
                    if isinstance(it, ast.Call) and isinstance(it.func, ast.Attribute) and it.func.attr == "get" and len(it.args) == 1:
                        return True                                 # iteration over d.get(k): TypeError when absent
        return False

    def check_move(self, name, at):
        """the list bound to `name` is stored into another object at statement `at`: it must never be mutated afterwards"""
        fd = self.fdef

        def mutation_sites(root):
            out = []
            for n in ast.walk(root):
                if isinstance(n, ast.Call) and isinstance(n.func, ast.Attribute) and n.func.attr in MUTATORS:
                    v = n.func.value
                    if isinstance(v, ast.Name) and v.id == name:
                        out.append(n)
                elif isinstance(n, ast.AugAssign) and isinstance(n.target, ast.Name) and n.target.id == name:
                    out.append(n)
                elif isinstance(n, (ast.Assign, ast.AugAssign)):
                    for t in (n.targets if isinstance(n, ast.Assign) else [n.target]):
                        if isinstance(t, ast.Subscript) and isinstance(t.value, ast.Name) and t.value.id == name:
                            out.append(n)
            return out
        pos = lambda n: (n.lineno, n.col_offset)
        sites = mutation_sites(fd)
        for m in sites:
            if pos(m) >= pos(at):
                raise Reject("%s: %r is stored into another object and mutated later (%s)" % (where(at), name, where(m)))
        for loop in [n for n in ast.walk(fd) if isinstance(n, (ast.For, ast.While))]:
            inside = lambda n: any(x is n for x in ast.walk(loop))
            if not inside(at):
                continue
            ms = [m for m in mutation_sites(loop)]
            if not ms:
                continue
            first = min(pos(m) for m in ms)
            ok = False
            for s in loop.body:
                if pos(s) >= first:
                    break
                if isinstance(s, ast.Assign) and len(s.targets) == 1:
                    tg, v = s.targets[0], s.value
                    pairs = list(zip(tg.elts, v.elts)) if isinstance(tg, ast.Tuple) and isinstance(v, ast.Tuple) and len(tg.elts) == len(v.elts) else [(tg, v)]
                    if any(isinstance(t, ast.Name) and t.id == name and is_empty_display(x) for t, x in pairs):
                        ok = True
            if not ok:
                raise Reject("%s: %r is stored into another object inside a loop that mutates it without rebinding it first" % (where(at), name))

    def block(self, stmts, env, owned, mon, tail):
        if not stmts:
            return super().block(stmts, env, owned, mon, tail)
        s, rest = stmts[0], stmts[1:]
        env, owned = dict(env), set(owned)
        k = lambda: self.block(rest, env, owned, mon, tail)
        decl = LOCALS.get(self.name, {})

        if isinstance(s, ast.Assign) and len(s.targets) == 1:
            tg, v = s.targets[0], s.value
            # a, b = <empty>, <empty>
            if isinstance(tg, ast.Tuple) and isinstance(v, ast.Tuple):
                if len(tg.elts) != len(v.elts) or not all(is_empty_display(x) for x in v.elts) or not all(isinstance(t, ast.Name) for t in tg.elts):
                    raise Reject("%s: tuple assignment is understood only for empty collection displays" % where(s))
                news = [ast.copy_location(ast.Assign(targets=[t], value=x), s) for t, x in zip(tg.elts, v.elts)]
                return self.block(news + rest, env, owned, mon, tail)
            # x = [] / set() / {}
            if isinstance(tg, ast.Name) and is_empty_display(v):
                _, t, kv, _ = self.expr(v, env)
                kd = decl.get(tg.id)
                if kd is None or kd[0] != kv[0]:
                    raise Reject("%s: the kind of the empty collection bound to %r is not declared (LOCALS)" % (where(s), tg.id))
                env[self.name_ok(tg.id, tg)] = kd
                owned.add(tg.id)
                return "let %s := (%s : %s) in\n%s" % (tg.id, "[]" if kd != LINKS else "[]", coqtype(kd), k())
            # x = f(...) for a translated f that may raise
            if (isinstance(tg, ast.Name) and isinstance(v, ast.Call) and isinstance(v.func, ast.Name)
                    and self.tr.done.get(v.func.id, {}).get("monadic")):
                if not mon:
                    raise Reject("%s: call of a raising function in a function translated as pure" % where(s))
                sig = self.tr.done[v.func.id]
                if sig["fuel"]:
                    raise Reject("%s: call of a function with a while loop" % where(s))
                self.tr.done[v.func.id] = dict(sig, monadic=False)
                try:
                    pre, t, kv, fresh = self.expr(v, env)
                finally:
                    self.tr.done[v.func.id] = sig
                if pre:
                    raise Reject("%s: side effect in an argument" % where(s))
                env[self.name_ok(tg.id, tg)] = kv
                owned.discard(tg.id)
                if kv[0] in MUT2:
                    owned.add(tg.id)
                return "py_let %s := %s in\n%s" % (tg.id, t, k())
            # d[k] = v  on a plain dict
            if isinstance(tg, ast.Subscript) and isinstance(tg.value, ast.Name) and env.get(tg.value.id) == LINKS:
                d = tg.value.id
                self.need_owned(d, owned, s, "[k] =")
                pk, key, kk, _ = self.expr(tg.slice, env)
                if pk or kk != NODE or not isinstance(v, ast.Name) or env.get(v.id) != L(NODE):
                    raise Reject("%s: `d[k] = v` needs a name key and a list of names bound to a variable" % where(s))
                self.need_owned(v.id, owned, s, "store of")
                self.check_move(v.id, s)
                return "let %s := dd_set %s %s %s in\n%s" % (d, d, key, v.id, k())
            if isinstance(tg, ast.Name):
                pre, t, kv, fresh = self.expr(v, env)
                if kv[0] in MUT2 and not fresh:
                    raise Reject("%s: %r becomes a second name of a mutable object (aliasing is not tracked)" % (where(s), tg.id))
                if self.monadic_pre(pre) and not mon:
                    raise Reject("%s: raising expression in a function translated as pure" % where(s))

        if isinstance(s, ast.AugAssign) and isinstance(s.op, ast.BitOr) and isinstance(s.target, ast.Name):
            x = s.target.id
            if env.get(x, ("?",))[0] != "set":
                raise Reject("%s: |= on kind %r" % (where(s), env.get(x)))
            self.need_owned(x, owned, s, "|=")
            pre, t, kv, _ = self.expr(s.value, env)
            if kv != env[x]:
                raise Reject("%s: |= with a value of kind %r" % (where(s), kv))
            if self.monadic_pre(pre) and not mon:
                raise Reject("%s: raising expression in a function translated as pure" % where(s))
            return self.pre_lets(pre) + "let %s := set_union %s %s in\n%s" % (x, x, t, k())

        if (isinstance(s, ast.Expr) and isinstance(s.value, ast.Call) and isinstance(s.value.func, ast.Attribute)
                and isinstance(s.value.func.value, ast.Name) and not s.value.keywords and len(s.value.args) == 1):
            c = s.value
            meth, x, arg = c.func.attr, c.func.value.id, c.args[0]
            kx = env.get(x)
            if meth == "add" and kx is not None and kx[0] == "set":
                self.need_owned(x, owned, s, ".add")
                pa, a, ka, _ = self.expr(arg, env)
                if pa or ka != kx[1]:
                    raise Reject("%s: .add(%s) on a set of kind %r" % (where(s), a, kx))
                return "let %s := set_add %s %s in\n%s" % (x, x, a, k())
            if meth == "append" and kx is not None and kx[0] == "list" and isinstance(arg, ast.Tuple):
                self.need_owned(x, owned, s, ".append")
                if not all(isinstance(el, ast.Name) and el.id in env for el in arg.elts):
                    raise Reject("%s: .append of a tuple of something else than variables" % where(s))
                ks = [env[el.id] for el in arg.elts]
                if kx[1] != T(*ks):
                    raise Reject("%s: .append((%s)) on %r of kind %r" % (where(s), ", ".join(el.id for el in arg.elts), x, kx))
                for el, kk in zip(arg.elts, ks):
                    if kk[0] in MUT2:
                        self.need_owned(el.id, owned, s, "store of")
                        self.check_move(el.id, s)
                return "let %s := list_append %s (%s) in\n%s" % (x, x, ", ".join(el.id for el in arg.elts), k())
            if meth == "append" and kx is not None and kx[0] == "list":
                pa, a, ka, fresh = self.expr(arg, env)
                if ka[0] in MUT2 and not fresh:
                    raise Reject("%s: .append of a mutable object that has a name (aliasing is not tracked)" % where(s))
        return super().block(stmts, env, owned, mon, tail)

    def while_stmt(self, s, rest, env, owned, mon, tail):
        if s.orelse or not mon:
            raise Reject("%s: while shape" % where(s))
        if self.uses_fuel:
            raise Reject("%s: a second while loop (one fuel parameter per function)" % where(s))
        if tail is not None and getattr(tail, "in_loop", False):
            raise Reject("%s: while nested in a loop" % where(s))
        self.uses_fuel = True
        vs = self.state_vars(s.body, env)
        pc, c, kc, _ = self.expr(s.test, env)
        if pc or kc != BOOL:
            raise Reject("%s: while condition" % where(s))
        cvars = [n.id for n in ast.walk(s.test) if isinstance(n, ast.Name) and n.id in env]
        if not any(v in vs for v in cvars):
            raise Reject("%s: the loop never changes a name of its condition" % where(s))
        env2 = dict(env)
        body = self.block(s.body, env2, set(owned), True, self.check_tail(vs, True, env, owned, s))
        restt = self.block(rest, env, owned, mon, tail)
        return "py_bind (py_while fuel (fun %s => %s) (fun %s =>\n%s) %s) (fun %s =>\n%s)" % (
            self.lam(vs), c, self.lam(vs), body, self.pat(vs), self.lam(vs), restt)


class STranslator(g.Translator):
    def function(self, name, params):
        fns = [n for n in self.tree.body if isinstance(n, ast.FunctionDef) and n.name == name]
        if len(fns) != 1:
            raise Reject("function %s: %d definitions found" % (name, len(fns)))
        fd = fns[0]
        a = fd.args
        if a.vararg or a.kwarg or a.kwonlyargs or a.posonlyargs or fd.decorator_list or a.defaults:
            raise Reject("function %s: signature shape" % name)
        if [x.arg for x in a.args] != [p for p, _ in params]:
            raise Reject("function %s: parameters are %r, expected %r" % (name, [x.arg for x in a.args], [p for p, _ in params]))
        seg = ast.get_source_segment(self.src, fd)
        stored = {n.id for n in ast.walk(fd) if isinstance(n, ast.Name) and isinstance(n.ctx, ast.Store)} | {p for p, _ in params}
        allnames = {n.id for n in ast.walk(fd) if isinstance(n, ast.Name)}
        for bad in sorted(x for x in stored if x in RESERVED2 or x.startswith("ord_") or x in self.done):
            if bad in ("list", "set", "deque", "len", "sorted", "defaultdict", "all", "range", "zip") or bad + "_" in allnames:
                raise Reject("function %s: variable name %r cannot be renamed safely" % (name, bad))
            for n in ast.walk(fd):
                if isinstance(n, ast.Name) and n.id == bad:
                    n.id = bad + "_"
        f = SFn(self, name, params)
        f.params, f.ret, f.fdef = params, None, fd
        env = {p: k for p, k in params}
        mon = f.raises(fd.body)
        f.monadic = mon
        body = f.block(fd.body, env, set(), mon, None)
        if f.ret is None:
            raise Reject("function %s: no return" % name)
        sig = " ".join("(%s : %s)" % (p, coqtype(k)) for p, k in params)
        if f.uses_fuel:
            sig = "(fuel : nat) " + sig
        self.done[name] = {"params": params, "ret": f.ret, "ret_fresh": f.ret_fresh, "monadic": mon, "fuel": f.uses_fuel}
        text = "(* %s :: %s   %s *)\nDefinition %s %s :=\n%s." % (SOURCE, name, "may raise: py _" if mon else "pure", name, sig, body)
        return text, seg


def emit(repo):
    """-> text of coq/gen/Gen_staging.v translated from <repo>/reservoirpy/utils/graphflow.py (raises Reject)"""
    src = open(os.path.join(repo, SOURCE)).read()
    tr = STranslator(src)
    defs, segs = [], []
    for name, params in FUNCS:
        t, seg = tr.function(name, params)
        defs.append(t)
        segs.append(seg)
    if tr.sites_e:
        raise Reject("a set of edges is converted to a sequence (no such site is expected)")
    sha = hashlib.sha256("\n".join(segs).encode()).hexdigest()
    out = ["(* GENERATED by tools/vlib/py2coq_staging.py (%s, on top of %s) from the current source of %s -- DO NOT EDIT." % (VERSION, g.VERSION, SOURCE),
           "   functions: %s;  sha256 of their source texts: %s" % (", ".join(n for n, _ in FUNCS), sha),
           "   Regenerated by `./check C06` (pregen) and by setup (tools/regen.py).  Vocabulary: base/PyColl.v + base/PyColl2.v.",
           "   ord_n k : the order in which Python iterates over a set of nodes at conversion site k (%d sites);" % tr.sites_n,
           "   sorted_by_name : `sorted(edges, key=%s)`; is_trained_offline / is_trained_online : the node attributes;" % g.PINNED_KEY,
           "   fuel : bound on the iterations of `while`. *)",
           "From Coq Require Import List Bool Arith ZArith.",
           "From RV Require Import base.PyColl base.PyColl2.",
           "Import ListNotations.", "",
           "Module GenStaging.",
           "Section Gen.",
           "Variable ord_n : nat -> list node -> list node.",
           "Variable sorted_by_name : list edge -> list edge.",
           "Variable is_trained_offline : node -> bool.",
           "Variable is_trained_online : node -> bool.", ""]
    out += [d + "\n" for d in defs]
    out += ["End Gen.", "End GenStaging.", ""]
    return "\n".join(out)


def pregen():
    """(re)write coq/gen/Gen_staging.v from the tree under test.  Returns None, or the error text (tie broken)."""
    import traceback
    from vlib import core
    gdir = os.path.join(core.COQ, "gen")
    os.makedirs(gdir, exist_ok=True)
    path = os.path.join(gdir, "Gen_staging.v")
    err = None
    try:
        text = emit(core.REPO)
    except Reject as ex:
        err = "translation rejected: %s" % ex
    except Exception:
        err = "translator exception: " + traceback.format_exc()[-1500:]
    if err is not None:
        # no model of the current source exists: never leave a stale one behind (the stub does not compile on purpose)
        text = "(* GENERATED: translation of %s (staging) FAILED -- %s *)\nDefinition translation_failed : True := 0.\n" % (
            SOURCE, err.replace("*)", "* )").replace("(*", "( *"))
    old = open(path).read() if os.path.exists(path) else None
    if old != text:                   # keep the mtime (and the compiled cone) when nothing changed
        with open(path, "w") as f:
            f.write(text)
    return ("unit staging: " + err) if err else None


if __name__ == "__main__":
    import sys
    sys.path.insert(0, os.path.dirname(os.path.dirname(os.path.abspath(__file__))))
    print(emit(sys.argv[1] if len(sys.argv) > 1 else "/repo"))
