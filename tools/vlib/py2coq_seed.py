"""Fail-closed translator for the SEED PLUMBING of reservoirpy -> Gallina (tie (T) of property C14, DESIGN §6 / §8 C14).

Targets   reservoirpy/utils/random.py    :: set_seed, rand_generator, noise
          reservoirpy/datasets/_seed.py  :: get_seed, set_seed                                   (as ds_get_seed, ds_set_seed)
          reservoirpy/nodes/reservoirs/reservoir.py :: Reservoir.__init__  +  reservoirs/base.py :: initialize, initialize_feedback
              -> a TABLE: which expression (the `seed` argument | the local `rng = rand_generator(seed)` | None) reaches the initialiser
                 of W / Win / bias / Wfb as `seed=` and `noise` as `rng=`  (an extractor, not a translation of the whole constructor).

The translator parses the CURRENT text with `ast` (paths under core.REPO, which honours VERIF_REPO) and emits coq/gen/Gen_seed.v over
the vocabulary of coq/base/SeedPrelude.v (provenance style of model/Prov.v: the module globals and the heap of Generator objects are an
explicit `world`; `default_rng(int)` is a brand-new stream rooted in that int; `getattr(rng, dist)( **kwargs, size=shape)` is one request
served at the cursor of the object `rng`).  Everything it does not understand raises Reject; it never guesses.

Functions.  A function that writes the world (assigns a declared `global`, calls np.random.seed, draws) has type
`world -> args -> res (world * T)` (`res world` for a procedure); one that only reads has type `world -> args -> res T`.
  statements   docstring | global X, .. | X = e (X a declared global of the file) | x = e (fresh local) | if / elif / else |
               return e | raise TypeError(..) | np.random.seed(e) | the pinned three-statement body of the RandomState branch
  expressions  names | v is None | v is not None | type(v) is int | isinstance(v, Generator | RandomState | int | (int, np.integer)) |
               default_rng(v) | abs(gain) > 0.0 | gain * getattr(rng, dist)( **kwargs, size=shape) | np.zeros(shape) | not b
  `return seed` where a Generator is expected is accepted only on a path on which isinstance(seed, Generator) has been established.
  The names Generator / RandomState / default_rng / MT19937 must come from `from numpy.random import ...` and `np` from `import numpy as
  np`, and must not be rebound at module level; the module globals must be initialised as declared below.
"""
import ast
import hashlib
import os
import warnings

from vlib.py2coq_la import Reject

VERSION = "py2coq_seed 1"

_R = "reservoirpy/utils/random.py"
_S = "reservoirpy/datasets/_seed.py"
_RES = "reservoirpy/nodes/reservoirs/reservoir.py"
_BASE = "reservoirpy/nodes/reservoirs/base.py"

COQTYPE = {"VAL": "pyval", "GEN": "genval", "GID": "gid", "NAT": "nat", "SHAPE": "(nat * nat)", "MAT": "mat", "DRAW": "draw",
           "BOOL": "bool", "UNIT": "unit"}

# module globals: name -> (kind, reader, writer (text of a function world -> value -> ...), writer is partial?, required initialiser)
GLOBALS = {
    _R: {"__SEED": ("VAL", "read_SEED", "assign_SEED", False, "None"),
         "__global_rg": ("GEN", "read_global_rg", "assign_global_rg", True, "default_rng()")},
    _S: {"_DEFAULT_SEED": ("VAL", "read_DEFAULT_SEED", "assign_DEFAULT_SEED", False, "5555")},
}
# names that must be imported exactly like this for the vocabulary to mean what SeedPrelude.v says
IMPORTS = {
    _R: {"numpy.random": ["MT19937", "Generator", "RandomState", "default_rng"], "import": {"np": "numpy"}},
    _S: {},
}
PINNED_LEGACY = ["mt19937 = MT19937()", "mt19937.state = seed.get_state()", "return Generator(mt19937)"]

SPECS = [
    {"file": _R, "name": "set_seed", "coq": "set_seed", "params": [("seed", "VAL")], "defaults": [], "kwarg": None, "ret": "UNIT"},
    {"file": _R, "name": "rand_generator", "coq": "rand_generator", "params": [("seed", "VAL")], "defaults": ["None"], "kwarg": None,
     "ret": "GEN"},
    {"file": _R, "name": "noise", "coq": "noise", "params": [("rng", "GID"), ("dist", "NAT"), ("shape", "SHAPE"), ("gain", "NAT")],
     "defaults": ["'normal'", "1", "1.0"], "kwarg": "kwargs", "ret": "MAT"},
    {"file": _S, "name": "get_seed", "coq": "ds_get_seed", "params": [], "defaults": [], "kwarg": None, "ret": "VAL"},
    {"file": _S, "name": "set_seed", "coq": "ds_set_seed", "params": [("s", "VAL")], "defaults": [], "kwarg": None, "ret": "UNIT"},
]

RESERVED = set("""w fun let in if then else match with end forall exists Some None true false nat list bool option negb andb orb bind Ok Raise
res pyval genval gid world mat draw req TypeError Unmodelled default_rng generator_of legacy_generator read_SEED read_global_rg
read_DEFAULT_SEED assign_SEED assign_global_rg assign_DEFAULT_SEED np_random_seed rng_draw py_scale py_abs_gt0 np_zeros py_is_none
py_type_is_int py_isinstance_int py_isinstance_pyint py_isinstance_Generator py_isinstance_RandomState tt unit fst snd Type Prop Set""".split())


def _where(node):
    return "line %s" % getattr(node, "lineno", "?")


def _strip_doc(body):
    if body and isinstance(body[0], ast.Expr) and isinstance(body[0].value, ast.Constant) and isinstance(body[0].value.value, str):
        return body[1:]
    return body


def _is_name(node, name=None):
    return isinstance(node, ast.Name) and (name is None or node.id == name)


class Val:
    def __init__(self, kind, text):
        self.kind, self.text = kind, text

    def p(self):
        t = self.text
        return t if t.replace("_", "a").replace("'", "a").isalnum() else "(" + t + ")"


class FnTr:
    """one function -> Gallina text"""

    def __init__(self, spec, fn):
        self.spec, self.fn = spec, fn
        self.globals = GLOBALS[spec["file"]]
        self.declared = set()         # names under a `global` statement
        self.writes = False           # the function changes the world
        self.nw = 0
        self.nt = 0

    # ------------------------------------------------------------------ helpers
    def ident(self, n, node):
        if not n.replace("_", "a").isalnum() or n in RESERVED:
            raise Reject("%s: name %r cannot be used as a Gallina identifier" % (_where(node), n))
        return n

    def fresh_w(self):
        self.nw += 1
        return "w%d" % self.nw

    def fresh_t(self):
        self.nt += 1
        return "t%d" % self.nt

    # ------------------------------------------------------------------ expressions
    # -> (wrappers, Val, world variable after the evaluation); a wrapper is (opening text, closing text) around what follows
    def ex(self, node, env, w, facts):
        if isinstance(node, ast.Name):
            if node.id in env:
                return [], env[node.id], w
            if node.id in self.globals:
                kind, reader = self.globals[node.id][0], self.globals[node.id][1]
                return [], Val(kind, "%s %s" % (reader, w)), w
            raise Reject("%s: unknown name %r" % (_where(node), node.id))
        if isinstance(node, ast.UnaryOp) and isinstance(node.op, ast.Not):
            pre, v, w2 = self.ex(node.operand, env, w, facts)
            if v.kind != "BOOL":
                raise Reject("%s: `not` on a %s" % (_where(node), v.kind))
            return pre, Val("BOOL", "negb %s" % v.p()), w2
        if isinstance(node, ast.Compare) and len(node.ops) == 1:
            return self.compare(node, env, w, facts)
        if isinstance(node, ast.Call):
            return self.call(node, env, w, facts)
        if isinstance(node, ast.BinOp) and isinstance(node.op, ast.Mult):
            pl, a, w1 = self.ex(node.left, env, w, facts)
            pr, b, w2 = self.ex(node.right, env, w1, facts)
            if a.kind == "NAT" and b.kind == "DRAW" and _is_name(node.left, "gain"):
                return pl + pr, Val("MAT", "py_scale %s %s" % (a.p(), b.p())), w2
            raise Reject("%s: product %s * %s outside the vocabulary (only gain * <draw>)" % (_where(node), a.kind, b.kind))
        raise Reject("%s: expression outside the vocabulary: %s" % (_where(node), ast.unparse(node)))

    def compare(self, node, env, w, facts):
        op, left, right = node.ops[0], node.left, node.comparators[0]
        # v is None / v is not None
        if isinstance(op, (ast.Is, ast.IsNot)) and isinstance(right, ast.Constant) and right.value is None:
            pre, v, w2 = self.ex(left, env, w, facts)
            if v.kind != "VAL":
                raise Reject("%s: `is None` on a %s" % (_where(node), v.kind))
            t = "py_is_none %s" % v.p()
            return pre, Val("BOOL", t if isinstance(op, ast.Is) else "negb (%s)" % t), w2
        # type(v) is int
        if (isinstance(op, ast.Is) and isinstance(left, ast.Call) and _is_name(left.func, "type") and len(left.args) == 1
                and not left.keywords and _is_name(right, "int")):
            pre, v, w2 = self.ex(left.args[0], env, w, facts)
            if v.kind != "VAL":
                raise Reject("%s: type(.) of a %s" % (_where(node), v.kind))
            return pre, Val("BOOL", "py_type_is_int %s" % v.p()), w2
        # abs(gain) > 0.0
        if (isinstance(op, ast.Gt) and isinstance(left, ast.Call) and _is_name(left.func, "abs") and len(left.args) == 1
                and not left.keywords and isinstance(right, ast.Constant) and type(right.value) in (int, float) and right.value == 0):
            pre, v, w2 = self.ex(left.args[0], env, w, facts)
            if v.kind != "NAT" or not _is_name(left.args[0], "gain"):
                raise Reject("%s: abs(.) > 0 is only understood on the gain" % _where(node))
            return pre, Val("BOOL", "py_abs_gt0 %s" % v.p()), w2
        raise Reject("%s: comparison outside the vocabulary: %s" % (_where(node), ast.unparse(node)))

    def call(self, node, env, w, facts):
        f = node.func
        # isinstance(v, C)
        if _is_name(f, "isinstance") and len(node.args) == 2 and not node.keywords:
            pre, v, w2 = self.ex(node.args[0], env, w, facts)
            if v.kind != "VAL":
                raise Reject("%s: isinstance of a %s" % (_where(node), v.kind))
            c = ast.unparse(node.args[1])
            test = {"Generator": "py_isinstance_Generator", "RandomState": "py_isinstance_RandomState", "int": "py_isinstance_pyint",
                    "(int, np.integer)": "py_isinstance_int", "(np.integer, int)": "py_isinstance_int"}.get(c)
            if test is None:
                raise Reject("%s: isinstance against %s is outside the vocabulary" % (_where(node), c))
            return pre, Val("BOOL", "%s %s" % (test, v.p())), w2
        # default_rng(v)
        if _is_name(f, "default_rng"):
            if len(node.args) != 1 or node.keywords:
                raise Reject("%s: default_rng takes exactly one positional argument here (default_rng() is OS entropy)" % _where(node))
            pre, v, w2 = self.ex(node.args[0], env, w, facts)
            if v.kind != "VAL":
                raise Reject("%s: default_rng of a %s" % (_where(node), v.kind))
            t = self.fresh_t()
            return pre + [("bind (default_rng %s) (fun %s =>" % (v.p(), t), ")")], Val("GEN", t), w2
        # getattr(rng, dist)( **kwargs, size=shape)
        if (isinstance(f, ast.Call) and _is_name(f.func, "getattr") and len(f.args) == 2 and not f.keywords):
            if node.args:
                raise Reject("%s: positional argument in the draw" % _where(node))
            kws = [(k.arg, k.value) for k in node.keywords]
            if len(kws) != 2 or kws[0][0] is not None or kws[1][0] != "size":
                raise Reject("%s: the draw must be getattr(rng, dist)( **kwargs, size=shape), found %s" % (_where(node), ast.unparse(node)))
            kw = self.spec["kwarg"]
            if kw is None or not _is_name(kws[0][1], kw):
                raise Reject("%s: ** of something else than the function's **%s" % (_where(node), kw))
            pre0, g, w0 = self.ex(f.args[0], env, w, facts)
            pre1, d, w1 = self.ex(f.args[1], env, w0, facts)
            pre2, sh, w2 = self.ex(kws[1][1], env, w1, facts)
            if (g.kind, d.kind, sh.kind) != ("GID", "NAT", "SHAPE") or not _is_name(f.args[1], "dist"):
                raise Reject("%s: draw on (%s, %s) with size %s" % (_where(node), g.kind, d.kind, sh.kind))
            self.writes = True
            w3, t = self.fresh_w(), self.fresh_t()
            return (pre0 + pre1 + pre2 + [("let '(%s, %s) := rng_draw %s %s %s %s %s in" % (w3, t, w2, g.p(), d.p(), env["**"].p(), sh.p()), "")],
                    Val("DRAW", t), w3)
        # np.zeros(shape)
        if isinstance(f, ast.Attribute) and _is_name(f.value, "np") and f.attr == "zeros" and len(node.args) == 1 and not node.keywords:
            pre, sh, w2 = self.ex(node.args[0], env, w, facts)
            if sh.kind != "SHAPE":
                raise Reject("%s: np.zeros of a %s" % (_where(node), sh.kind))
            return pre, Val("MAT", "np_zeros %s" % sh.p()), w2
        raise Reject("%s: call outside the vocabulary: %s" % (_where(node), ast.unparse(node)))

    @staticmethod
    def wrap(pre, inner):
        out = inner
        for o, c in reversed(pre):
            out = "%s %s%s" % (o, out, c)
        return out

    # ------------------------------------------------------------------ statements
    def result(self, w, val):
        """Ok of the function's result"""
        if self.spec["ret"] == "UNIT":
            return "Ok %s" % w if self.writes_decl else "Ok tt"
        return "Ok (%s, %s)" % (w, val.text) if self.writes_decl else "Ok %s" % val.p()

    def block(self, stmts, env, w, facts, cont):
        if not stmts:
            if cont:
                return self.block(cont[0], env, w, facts, cont[1])
            if self.spec["ret"] != "UNIT":
                raise Reject("the function can fall off its end without a return")
            return self.result(w, None)
        s, rest = stmts[0], stmts[1:]
        if isinstance(s, ast.Global):
            for n in s.names:
                if n not in self.globals:
                    raise Reject("%s: `global %s`: not a declared module global of %s" % (_where(s), n, self.spec["file"]))
                self.declared.add(n)
            return self.block(rest, env, w, facts, cont)
        if isinstance(s, ast.Return):
            if rest:
                raise Reject("%s: statements after a return" % _where(s))
            if s.value is None:
                if self.spec["ret"] != "UNIT":
                    raise Reject("%s: bare return" % _where(s))
                return self.result(w, None)
            if self.spec["ret"] == "UNIT":
                raise Reject("%s: a procedure returns a value" % _where(s))
            pre, v, w2 = self.ex(s.value, env, w, facts)
            want = self.spec["ret"]
            if v.kind == "VAL" and want == "GEN":
                # `return seed` as a Generator: only where isinstance(seed, Generator) is known to hold
                if facts.get(("Generator", ast.unparse(s.value))) is not True:
                    raise Reject("%s: `return %s` where a Generator is expected, without an established isinstance(.., Generator)" % (
                        _where(s), ast.unparse(s.value)))
                t = self.fresh_t()
                pre = pre + [("bind (generator_of %s) (fun %s =>" % (v.p(), t), ")")]
                v = Val("GEN", t)
            if v.kind != want:
                raise Reject("%s: returns a %s, declared %s" % (_where(s), v.kind, want))
            return self.wrap(pre, self.result(w2, v))
        if isinstance(s, ast.Raise):
            if rest:
                raise Reject("%s: statements after a raise" % _where(s))
            e = s.exc
            if not (isinstance(e, ast.Call) and _is_name(e.func, "TypeError")) or s.cause is not None:
                raise Reject("%s: raise of something else than TypeError(..)" % _where(s))
            return "Raise TypeError"
        if isinstance(s, ast.If):
            # the pinned legacy branch
            if ast.unparse(s.test) == "isinstance(seed, RandomState)" and not s.orelse and self.spec["ret"] == "GEN":
                body = [ast.unparse(b) for b in s.body]
                if body != PINNED_LEGACY:
                    raise Reject("%s: the RandomState branch is pinned to %s, found %s" % (_where(s), PINNED_LEGACY, body))
                pre, c, w2 = self.ex(s.test, env, w, facts)
                t = self.fresh_t()
                then = "bind (legacy_generator %s) (fun %s => %s)" % (env["seed"].p(), t, self.result(w2, Val("GEN", t)))
                els = self.block(rest, env, w2, facts, cont)
                return self.wrap(pre, "if %s then %s\n  else %s" % (c.text, then, els))
            pre, c, w2 = self.ex(s.test, env, w, facts)
            if c.kind != "BOOL":
                raise Reject("%s: condition of kind %s" % (_where(s), c.kind))
            ft, ff = dict(facts), dict(facts)
            key = self.fact_key(s.test)
            if key is not None:
                ft[key], ff[key] = True, False
            k2 = (rest, cont)
            then = self.block(s.body, env, w2, ft, k2)
            els = self.block(s.orelse, env, w2, ff, k2)
            return self.wrap(pre, "if %s then %s\n  else %s" % (c.text, then, els))
        if isinstance(s, ast.Assign):
            if len(s.targets) != 1 or not isinstance(s.targets[0], ast.Name):
                raise Reject("%s: assignment target outside the vocabulary: %s" % (_where(s), ast.unparse(s)))
            x = s.targets[0].id
            pre, v, w2 = self.ex(s.value, env, w, facts)
            if x in self.globals:
                if x not in self.declared:
                    raise Reject("%s: assignment to %s without `global %s` (it would be a local)" % (_where(s), x, x))
                kind, _, writer, partial, _ = self.globals[x]
                if v.kind != kind:
                    raise Reject("%s: %s is a %s, assigned a %s" % (_where(s), x, kind, v.kind))
                self.writes = True
                w3 = self.fresh_w()
                if partial:
                    pre = pre + [("bind (%s %s %s) (fun %s =>" % (writer, w2, v.p(), w3), ")")]
                else:
                    pre = pre + [("let %s := %s %s %s in" % (w3, writer, w2, v.p()), "")]
                # every isinstance fact about an expression that reads the global is void now
                facts = {k: b for k, b in facts.items() if x not in k[1]}
                return self.wrap(pre, self.block(rest, env, w3, facts, cont))
            if x in env or x in self.declared:
                raise Reject("%s: re-assignment of %s" % (_where(s), x))
            c = self.ident(x, s)
            env2 = dict(env)
            env2[x] = Val(v.kind, c)
            return self.wrap(pre + [("let %s := %s in" % (c, v.text), "")], self.block(rest, env2, w2, facts, cont))
        if isinstance(s, ast.Expr):
            e = s.value
            # np.random.seed(v)
            if (isinstance(e, ast.Call) and ast.unparse(e.func) == "np.random.seed" and len(e.args) == 1 and not e.keywords):
                pre, v, w2 = self.ex(e.args[0], env, w, facts)
                if v.kind != "VAL":
                    raise Reject("%s: np.random.seed of a %s" % (_where(s), v.kind))
                self.writes = True
                w3 = self.fresh_w()
                pre = pre + [("bind (np_random_seed %s %s) (fun %s =>" % (w2, v.p(), w3), ")")]
                return self.wrap(pre, self.block(rest, env, w3, facts, cont))
            raise Reject("%s: expression statement outside the vocabulary: %s" % (_where(s), ast.unparse(s)))
        raise Reject("%s: statement outside the vocabulary: %s" % (_where(s), ast.unparse(s).splitlines()[0]))

    @staticmethod
    def fact_key(test):
        """isinstance(x, Generator) -> ('Generator', 'x')"""
        if (isinstance(test, ast.Call) and _is_name(test.func, "isinstance") and len(test.args) == 2 and not test.keywords
                and _is_name(test.args[1], "Generator")):
            return ("Generator", ast.unparse(test.args[0]))
        return None

    # ------------------------------------------------------------------ whole function
    def translate(self):
        a = self.fn.args
        if a.vararg or a.kwonlyargs or a.posonlyargs:
            raise Reject("unsupported parameter list")
        if (a.kwarg.arg if a.kwarg else None) != self.spec["kwarg"]:
            raise Reject("**-parameter %s, declared %s" % (a.kwarg.arg if a.kwarg else None, self.spec["kwarg"]))
        got = [x.arg for x in a.args]
        if got != [n for n, _ in self.spec["params"]]:
            raise Reject("parameters %s, declared %s" % (got, [n for n, _ in self.spec["params"]]))
        dflt = [ast.unparse(d) for d in a.defaults]
        if dflt != self.spec["defaults"]:
            raise Reject("default values %s, declared %s" % (dflt, self.spec["defaults"]))
        env, params = {}, []
        for n, k in self.spec["params"]:
            c = self.ident(n, self.fn)
            env[n] = Val(k, c)
            params.append("(%s : %s)" % (c, COQTYPE[k]))
        if self.spec["kwarg"]:
            c = self.ident(self.spec["kwarg"], self.fn)
            env["**"] = Val("NAT", c)                      # the interned keyword dictionary; only usable as **kwargs
            params.append("(%s : nat)" % c)
        body = _strip_doc(self.fn.body)
        # two passes: the first finds out whether the function writes the world (that decides its type), the second emits
        self.writes_decl = True
        self.block(body, env, "w", {}, ())
        self.writes_decl = self.writes
        self.declared, self.nw, self.nt = set(), 0, 0
        text = self.block(body, env, "w", {}, ())
        rk = self.spec["ret"]
        if self.writes_decl:
            ty = "res world" if rk == "UNIT" else "res (world * %s)" % COQTYPE[rk]
        else:
            ty = "res %s" % COQTYPE[rk]
        return params, text, ty


# ---------------------------------------------------------------------------------------------------- module-level checks
def find_function(tree, name):
    hits = [n for n in tree.body if isinstance(n, ast.FunctionDef) and n.name == name]
    if len(hits) != 1:
        raise Reject("function %s: %d top-level definitions" % (name, len(hits)))
    if hits[0].decorator_list:
        raise Reject("function %s is decorated" % name)
    return hits[0]


def parse(repo, rel):
    try:
        src = open(os.path.join(repo, rel)).read()
        with warnings.catch_warnings():
            warnings.simplefilter("ignore")
            return src, ast.parse(src)
    except (OSError, SyntaxError) as ex:
        raise Reject("%s: cannot read/parse: %s" % (rel, ex))


def check_module(rel, tree):
    """imports and module globals are what the vocabulary assumes; nothing rebinds them at module level"""
    want = IMPORTS[rel]
    bound = {}          # name -> how it is bound at module level
    for n in tree.body:
        if isinstance(n, ast.ImportFrom):
            for al in n.names:
                bound.setdefault(al.asname or al.name, []).append("from %s%s import %s" % ("." * n.level, n.module or "", al.name))
        elif isinstance(n, ast.Import):
            for al in n.names:
                bound.setdefault(al.asname or al.name.split(".")[0], []).append("import %s" % al.name)
        elif isinstance(n, (ast.FunctionDef, ast.ClassDef)):
            bound.setdefault(n.name, []).append("def")
        elif isinstance(n, ast.Assign):
            for t in n.targets:
                for m in ast.walk(t):
                    if isinstance(m, ast.Name):
                        bound.setdefault(m.id, []).append("= " + ast.unparse(n.value))
        elif isinstance(n, ast.Expr) and isinstance(n.value, ast.Constant):
            pass
        else:
            raise Reject("%s: module-level statement outside the vocabulary: %s" % (rel, ast.unparse(n).splitlines()[0]))
    for name in want.get("numpy.random", []):
        if bound.get(name) != ["from numpy.random import %s" % name]:
            raise Reject("%s: %s must be bound exactly by `from numpy.random import %s`, found %s" % (rel, name, name, bound.get(name)))
    for al, mod in want.get("import", {}).items():
        if bound.get(al) != ["import %s" % mod]:
            raise Reject("%s: %s must be bound exactly by `import %s as %s`, found %s" % (rel, al, mod, al, bound.get(al)))
    for g, (_, _, _, _, init) in GLOBALS[rel].items():
        if bound.get(g) != ["= " + init]:
            raise Reject("%s: module global %s must be initialised exactly once by `%s = %s`, found %s" % (rel, g, g, init, bound.get(g)))
    for name in ("isinstance", "type", "abs", "getattr", "int", "TypeError"):
        if name in bound:
            raise Reject("%s: builtin %s is rebound at module level" % (rel, name))


# ---------------------------------------------------------------------------------------------------- the Reservoir seed table
def _classify(expr, where, allow_rng):
    if _is_name(expr, "seed"):
        return "ESeed"
    if allow_rng and _is_name(expr, "rng"):
        return "ERng"
    if isinstance(expr, ast.Constant) and expr.value is None:
        return "ENone"
    raise Reject("%s: seed expression outside the vocabulary: %s" % (where, ast.unparse(expr)))


def _assigned_names(fn):
    out = []
    for n in ast.walk(fn):
        if isinstance(n, (ast.Assign, ast.AugAssign, ast.AnnAssign)):
            tg = n.targets if isinstance(n, ast.Assign) else [n.target]
            for t in tg:
                out += [m.id for m in ast.walk(t) if isinstance(m, ast.Name)]
        elif isinstance(n, ast.NamedExpr):
            out.append(n.target.id)
        elif isinstance(n, (ast.For, ast.comprehension)):
            out += [m.id for m in ast.walk(n.target) if isinstance(m, ast.Name)]
        elif isinstance(n, (ast.With,)):
            for it in n.items:
                if it.optional_vars is not None:
                    out += [m.id for m in ast.walk(it.optional_vars) if isinstance(m, ast.Name)]
        elif isinstance(n, (ast.FunctionDef, ast.Lambda, ast.Global, ast.Nonlocal)) and n is not fn:
            raise Reject("%s: nested function / global statement in %s" % (_where(n), fn.name))
    return out


def _seed_param_is_none(fn, where):
    a = fn.args
    names = [x.arg for x in a.args]
    if "seed" not in names:
        raise Reject("%s: no `seed` parameter" % where)
    i = names.index("seed") - (len(names) - len(a.defaults))
    if i < 0 or ast.unparse(a.defaults[i]) != "None":
        raise Reject("%s: the default of `seed` is not None" % where)


def _seed_keywords(fn):
    """every keyword named seed / rng / random_state / generator in any call of fn: [(call, keyword)]"""
    out = []
    for n in ast.walk(fn):
        if isinstance(n, ast.Call):
            for k in n.keywords:
                if k.arg in ("seed", "rng", "random_state", "generator"):
                    out.append((n, k))
    return out


def _callee_table(tree, rel, fname, callees):
    """in base.initialize / initialize_feedback: the initialiser calls <X>_init(..., seed=<expr>) -> {component: class}"""
    fn = find_function(tree, fname)
    where = "%s::%s" % (rel, fname)
    _seed_param_is_none(fn, where)
    if "seed" in _assigned_names(fn):
        raise Reject("%s: `seed` is re-assigned" % where)
    found = {}
    for call, kw in _seed_keywords(fn):
        if not (isinstance(call.func, ast.Name) and call.func.id in callees) or kw.arg != "seed":
            raise Reject("%s, %s: unexpected `%s=` keyword in %s" % (where, _where(call), kw.arg, ast.unparse(call.func)))
        comp = callees[call.func.id]
        if comp in found:
            raise Reject("%s: two calls of %s" % (where, call.func.id))
        found[comp] = _classify(kw.value, "%s, %s" % (where, _where(call)), False)
    for n in ast.walk(fn):
        if isinstance(n, ast.Call) and isinstance(n.func, ast.Name) and n.func.id in callees:
            if not any(k.arg == "seed" for k in n.keywords):
                raise Reject("%s, %s: %s is called without `seed=`" % (where, _where(n), n.func.id))
            if any(k.arg is None for k in n.keywords) or any(isinstance(x, ast.Starred) for x in n.args):
                raise Reject("%s, %s: */** argument in the call of %s" % (where, _where(n), n.func.id))
    for f, comp in callees.items():
        if comp not in found:
            raise Reject("%s: no call of %s" % (where, f))
    return found


def _partial_of(node, target, where):
    """node = partial(<target>, k=v, ...) -> {k: v}; `**name` entries are returned under the key None"""
    if not (isinstance(node, ast.Call) and _is_name(node.func, "partial") and len(node.args) == 1 and _is_name(node.args[0], target)):
        raise Reject("%s: expected partial(%s, ...), found %s" % (where, target, ast.unparse(node)[:80]))
    kws = {}
    for k in node.keywords:
        if k.arg in kws:
            raise Reject("%s: duplicate keyword %s" % (where, k.arg))
        kws[k.arg] = k.value
    return kws


def extract_table(repo):
    """-> (table [(component, class)], class of the argument of rng = rand_generator(..), header lines)"""
    src_r, tree_r = parse(repo, _RES)
    src_b, tree_b = parse(repo, _BASE)
    # imports of reservoir.py
    imp = {}
    for n in tree_r.body:
        if isinstance(n, ast.ImportFrom):
            for al in n.names:
                imp.setdefault(al.asname or al.name, []).append(("." * n.level + (n.module or ""), al.name))
    need = {"partial": ("functools", "partial"), "noise": ("...utils.random", "noise"), "rand_generator": ("...utils.random", "rand_generator"),
            "initialize": (".base", "initialize"), "initialize_feedback": (".base", "initialize_feedback")}
    for nm, how in need.items():
        if imp.get(nm) != [how]:
            raise Reject("%s: %s must be imported exactly as `from %s import %s`, found %s" % (_RES, nm, how[0], how[1], imp.get(nm)))
    for n in tree_r.body:
        rebound = []
        if isinstance(n, (ast.FunctionDef, ast.ClassDef)):
            rebound = [n.name]
        elif isinstance(n, (ast.Assign, ast.AugAssign, ast.AnnAssign)):
            for t in (n.targets if isinstance(n, ast.Assign) else [n.target]):
                rebound += [m.id for m in ast.walk(t) if isinstance(m, ast.Name)]
        elif isinstance(n, ast.Import):
            rebound = [(al.asname or al.name.split(".")[0]) for al in n.names]
        if any(r in need for r in rebound):
            raise Reject("%s: %s is rebound at module level" % (_RES, ast.unparse(n).splitlines()[0]))
    cls = [n for n in tree_r.body if isinstance(n, ast.ClassDef) and n.name == "Reservoir"]
    if len(cls) != 1:
        raise Reject("%s: %d classes Reservoir" % (_RES, len(cls)))
    inits = [n for n in cls[0].body if isinstance(n, ast.FunctionDef) and n.name == "__init__"]
    if len(inits) != 1 or inits[0].decorator_list:
        raise Reject("%s: Reservoir.__init__ not found / decorated" % _RES)
    init = inits[0]
    where = "%s::Reservoir.__init__" % _RES
    _seed_param_is_none(init, where)
    assigned = _assigned_names(init)
    if "seed" in assigned:
        raise Reject("%s: `seed` is re-assigned" % where)
    if assigned.count("rng") != 1:
        raise Reject("%s: `rng` must be assigned exactly once" % where)
    rng_stmt = [s for s in init.body if isinstance(s, ast.Assign) and len(s.targets) == 1 and _is_name(s.targets[0], "rng")]
    if len(rng_stmt) != 1:
        raise Reject("%s: `rng = rand_generator(..)` must be a top-level statement of the constructor" % where)
    rv = rng_stmt[0].value
    if not (isinstance(rv, ast.Call) and _is_name(rv.func, "rand_generator") and len(rv.args) == 1 and not rv.keywords):
        raise Reject("%s, %s: expected rng = rand_generator(<expr>), found %s" % (where, _where(rv), ast.unparse(rng_stmt[0])))
    rng_arg = _classify(rv.args[0], "%s, %s" % (where, _where(rv)), False)
    # the super().__init__ call
    sup = [n for n in ast.walk(init) if isinstance(n, ast.Call) and isinstance(n.func, ast.Attribute) and n.func.attr == "__init__"
           and isinstance(n.func.value, ast.Call) and _is_name(n.func.value.func, "super")]
    if len(sup) != 1:
        raise Reject("%s: %d super().__init__ calls" % (where, len(sup)))
    sup = sup[0]
    if init.body.index(rng_stmt[0]) > [i for i, s in enumerate(init.body) if any(m is sup for m in ast.walk(s))][0]:
        raise Reject("%s: rng is assigned after the super().__init__ call" % where)
    kw = {}
    for k in sup.keywords:
        if k.arg in kw:
            raise Reject("%s: duplicate keyword %s" % (where, k.arg))
        kw[k.arg] = k.value
    for nm in ("fb_initializer", "initializer", "hypers"):
        if nm not in kw:
            raise Reject("%s: no `%s=` in the super().__init__ call" % (where, nm))
    fb = _partial_of(kw["fb_initializer"], "initialize_feedback", where + ", fb_initializer")
    ini = _partial_of(kw["initializer"], "initialize", where + ", initializer")
    if None in fb or None in ini:
        raise Reject("%s: ** in an initializer partial" % where)
    if "seed" not in fb or "seed" not in ini:
        raise Reject("%s: an initializer partial has no `seed=` (the callee's default None = the global generator would be used)" % where)
    hy = kw["hypers"]
    if not isinstance(hy, ast.Dict) or any(k is None for k in hy.keys):
        raise Reject("%s: hypers is not a plain dict display" % where)
    ng = [v for k, v in zip(hy.keys, hy.values) if isinstance(k, ast.Constant) and k.value == "noise_generator"]
    if len(ng) != 1:
        raise Reject("%s: %d entries hypers['noise_generator']" % (where, len(ng)))
    nz = _partial_of(ng[0], "noise", where + ", noise_generator")
    if "rng" not in nz or not (set(nz) <= {"rng", None}) or (None in nz and not _is_name(nz[None], "noise_kwargs")):
        raise Reject("%s: noise_generator must be partial(noise, rng=<expr>, **noise_kwargs), found %s" % (where, ast.unparse(ng[0])))
    # no other seed-like keyword anywhere in the constructor
    expected = {id(fb["seed"]), id(ini["seed"]), id(nz["rng"])}
    for call, k in _seed_keywords(init):
        if id(k.value) not in expected:
            raise Reject("%s, %s: unexpected `%s=` keyword" % (where, _where(call), k.arg))
    top = {"fb": _classify(fb["seed"], where + ", fb_initializer", True), "init": _classify(ini["seed"], where + ", initializer", True),
           "noise": _classify(nz["rng"], where + ", noise_generator", True)}
    # the callees hand their own `seed` on
    c_init = _callee_table(tree_b, _BASE, "initialize", {"W_init": "CW", "Win_init": "CWin", "bias_init": "CBias"})
    c_fb = _callee_table(tree_b, _BASE, "initialize_feedback", {"Wfb_init": "CWfb"})

    def through(outer, inner):      # the callee passes its own parameter (ESeed = what it was given) or a literal None
        return outer if inner == "ESeed" else inner
    table = [("CW", through(top["init"], c_init["CW"])), ("CWin", through(top["init"], c_init["CWin"])),
             ("CBias", through(top["init"], c_init["CBias"])), ("CWfb", through(top["fb"], c_fb["CWfb"])), ("CNoise", top["noise"])]
    heads = []
    for rel, src, tree, names in ((_RES, src_r, tree_r, None), (_BASE, src_b, tree_b, ("initialize", "initialize_feedback"))):
        if names is None:
            heads.append("     %s :: Reservoir.__init__  sha256(source segment) = %s" % (
                rel, hashlib.sha256((ast.get_source_segment(src, init) or "").encode()).hexdigest()))
        else:
            for nm in names:
                heads.append("     %s :: %s  sha256(source segment) = %s" % (
                    rel, nm, hashlib.sha256((ast.get_source_segment(src, find_function(tree, nm)) or "").encode()).hexdigest()))
    return table, rng_arg, heads


# ---------------------------------------------------------------------------------------------------- output
def emit(repo):
    """-> Coq source text of coq/gen/Gen_seed.v (raises Reject)"""
    heads, defs = [], []
    trees = {}
    for sp in SPECS:
        rel = sp["file"]
        if rel not in trees:
            trees[rel] = parse(repo, rel)
            check_module(rel, trees[rel][1])
        src, tree = trees[rel]
        try:
            fn = find_function(tree, sp["name"])
            params, body, ty = FnTr(sp, fn).translate()
        except Reject as ex:
            raise Reject("%s, function %s (as %s): %s" % (rel, sp["name"], sp["coq"], ex))
        sha = hashlib.sha256((ast.get_source_segment(src, fn) or "").encode()).hexdigest()
        heads.append("     %s :: %s  (as %s)  sha256(source segment) = %s" % (rel, sp["name"], sp["coq"], sha))
        defs.append("(* %s :: %s *)\nDefinition %s (w : world)%s : %s :=\n  %s." % (
            rel, sp["name"], sp["coq"], "".join(" " + p for p in params), ty, body))
    table, rng_arg, theads = extract_table(repo)
    out = ["(* GENERATED by tools/vlib/py2coq_seed.py (%s) from the current source text of" % VERSION] + heads + theads + [
        "   -- DO NOT EDIT.  Regenerated by `./check C14` (pregen) and by tools/regen.py.  Vocabulary: base/SeedPrelude.v (the module globals",
        "   and the heap of Generator objects are the explicit `world`; a function that may raise returns a `res`). *)",
        "From Coq Require Import List Bool Arith.",
        "From RV Require Import model.Prov base.SeedPrelude.",
        "Import ListNotations.", "",
        "Module GenSeed.", ""]
    for d in defs:
        out += [d, ""]
    out += ["(* %s :: Reservoir.__init__ : rng = rand_generator(<this>) *)" % _RES,
            "Definition reservoir_rng_arg : seed_expr := %s." % rng_arg, "",
            "(* which expression of Reservoir.__init__ reaches the initialiser of each matrix as `seed=` (through the partial(initialize, ..) /",
            "   partial(initialize_feedback, ..) of %s and the <X>_init(.., seed=seed) calls of %s) and `noise` as `rng=` *)" % (_RES, _BASE),
            "Definition reservoir_seed_table : list (component * seed_expr) :=",
            "  [%s]." % "; ".join("(%s, %s)" % ce for ce in table), "",
            "End GenSeed.", ""]
    return "\n".join(out)


if __name__ == "__main__":
    import sys
    from vlib import core
    try:
        sys.stdout.write(emit(core.REPO))
    except Reject as ex:
        sys.stderr.write("REJECT: %s\n" % ex)
        sys.exit(1)
