"""Fail-closed translator for the RUN LOOPS of reservoirpy -> Gallina (tie (T) of property C07, DESIGN §8 C07).

Targets   reservoirpy/node.py :: Node.run

It SUBCLASSES the C08 translator (vlib/py2coq_state.py, unmodified) and emits coq/gen/Gen_run.v over base/CtxPrelude.v +
base/RunPrelude.v.  The callees that are already translated elsewhere are NOT re-emitted: `Node.with_state` and `_base.call` are
`Section` functions of Gen_run.v (`Node_with_state`, `call`), instantiated in proofs/Gen_run_eq.v with the GENERATED
`GenState.Node_with_state` / `GenState.call` of coq/gen/Gen_state.v and used through their PROVED specifications of
proofs/Gen_state_eq.v; this translator reads their signatures (parameter names, defaults) from the current source and rejects any change.
`check_xy` (validation, C12), `Node.initialize` and the step extractions from the checked input are `Section` functions too.

Added to the C08 vocabulary
  statements   X_, _ = check_xy(self, X, allow_n_sequences=False) | self.initialize(<step>) |
               for i in progress(range(T), <message>): BODY   where BODY updates exactly one array local of the enclosing block
               by `a[i, :] = s` (a fold threading `a`; other locals assigned in BODY are loop-local; no local of the enclosing
               block may be rebound in BODY) | a[i, :] = s  (only there, only with the loop variable as the index)
  expressions  isinstance(X_, np.ndarray) | isinstance(X_, (list, tuple)) | X_.shape[0] | X_[0].shape[0] |
               np.atleast_2d(X_[k]) | [np.atleast_2d(v[k]) for v in X_]   (k the literal 0 or the loop variable) |
               np.zeros((T, self.output_dim)) | call(self, x)  (defaults of _base.call read from the source)
  `progress` (reservoirpy/utils/__init__.py) is pinned textually (identity on the iteration unless VERBOSITY > 0, then tqdm).
Everything else raises Reject; it never guesses.
"""
import ast
import hashlib

from vlib import py2coq_state as S
from vlib.py2coq_la import Reject

VERSION = "py2coq_run 1"

_N, _B, _M = S._N, S._B, S._M
_U = "reservoirpy/utils/__init__.py"
VEC = S.VEC
Val, _where, _is_name, _is_none, wrap = S.Val, S._where, S._is_name, S._is_none, S.wrap

COQTYPE = dict(S.COQTYPE)
COQTYPE.update({"XRAW": "IRAW", "XD": "IDATA", "NATK": "nat", "MAT": "(list %s)" % VEC, "IX": "IX"})

SPECS = [
    {"file": _N, "cls": "Node", "name": "run", "coq": "Node_run",
     "params": [("self", "NODE"), ("X", "XRAW"), ("from_state", "OARR"), ("stateful", "BOOL"), ("reset", "BOOL")], "ret": "MAT", "gen": False},
]
# callees taken as Section functions: their signature is read from the source and must be exactly this
CALLEES = [
    {"file": _N, "cls": "Node", "name": "with_state", "coq": "Node_with_state", "deco": ["contextmanager"],
     "params": [("self", "NODE"), ("state", "OARR"), ("stateful", "BOOL"), ("reset", "BOOL")], "ret": None, "gen": True},
    {"file": _B, "cls": None, "name": "call", "coq": "call", "deco": [],
     "params": [("node", "NODE"), ("x", "IX"), ("from_state", "OARR"), ("stateful", "BOOL"), ("reset", "BOOL")], "ret": "ARR", "gen": False},
]
PINNED_FN = {(_U, "progress"): ["if VERBOSITY > 0:\n    return tqdm(it, *args, **kwargs)\nelse:\n    return it"]}
IMPORTS = {_N: {"contextmanager": "from contextlib import contextmanager", "np": "import numpy", "call": "from ._base import call",
                "check_xy": "from ._base import check_xy", "progress": "from .utils import progress"}}

RESERVED = set(S.RESERVED) - {"X"} | set("""IX IRAW IDATA check_xy initialize xd_is_ndarray xd_is_list xd_len_arr xd_len_multi xd_step_arr
xd_step_multi Node_with_state call py_for_acc py_range np_zeros_2d mat_set_row seq repeat""".split())


class RunTr(S.FnTr):
    def __init__(self, spec, fn, done):
        super().__init__(spec, fn, done)
        self.loop = None          # inside a for: dict(var=loop variable, carried=array local, outer=names bound before the loop)

    def ident(self, n, node):
        if not n.replace("_", "a").isalnum() or n in RESERVED or n[0].isdigit() or n == "_":
            raise Reject("%s: name %r cannot be used as a Gallina identifier" % (_where(node), n))
        return n

    # ------------------------------------------------------------------ expressions
    def index(self, node, env):
        """the literal 0 or a NATK local -> text"""
        if isinstance(node, ast.Constant) and type(node.value) is int and node.value == 0:
            return "0"
        if isinstance(node, ast.Name) and node.id in env and env[node.id].kind == "NATK":
            return env[node.id].text
        raise Reject("%s: index outside the vocabulary (0 or the loop variable): %s" % (_where(node), ast.unparse(node)))

    def xd_name(self, node, env):
        if isinstance(node, ast.Name) and node.id in env and env[node.id].kind == "XD":
            return env[node.id]
        return None

    def ex(self, node, env):
        # X_.shape[0]  /  X_[0].shape[0]
        if (isinstance(node, ast.Subscript) and isinstance(node.value, ast.Attribute) and node.value.attr == "shape"
                and isinstance(node.slice, ast.Constant) and type(node.slice.value) is int and node.slice.value == 0):
            base = node.value.value
            d = self.xd_name(base, env)
            if d is not None:
                return [], Val("NATK", "xd_len_arr %s" % d.p())
            if (isinstance(base, ast.Subscript) and self.xd_name(base.value, env) is not None and isinstance(base.slice, ast.Constant)
                    and type(base.slice.value) is int and base.slice.value == 0):
                return [], Val("NATK", "xd_len_multi %s" % self.xd_name(base.value, env).p())
            raise Reject("%s: .shape[0] outside the vocabulary: %s" % (_where(node), ast.unparse(node)))
        # [np.atleast_2d(v[k]) for v in X_]
        if isinstance(node, ast.ListComp):
            if len(node.generators) != 1:
                raise Reject("%s: list comprehension with several generators" % _where(node))
            g = node.generators[0]
            d = self.xd_name(g.iter, env)
            e = node.elt
            if (g.ifs or g.is_async or not isinstance(g.target, ast.Name) or d is None or g.target.id in env
                    or not (isinstance(e, ast.Call) and ast.unparse(e.func) == "np.atleast_2d" and len(e.args) == 1 and not e.keywords
                            and isinstance(e.args[0], ast.Subscript) and _is_name(e.args[0].value, g.target.id))):
                raise Reject("%s: list comprehension outside the vocabulary: %s" % (_where(node), ast.unparse(node)))
            return [], Val("IX", "xd_step_multi %s %s" % (d.p(), self.index(e.args[0].slice, env)))
        return super().ex(node, env)

    def call(self, node, env):
        f = node.func
        if _is_name(f, "isinstance") and len(node.args) == 2 and not node.keywords and self.xd_name(node.args[0], env) is not None:
            d = self.xd_name(node.args[0], env)
            what = ast.unparse(node.args[1])
            if what == "np.ndarray":
                return [], Val("BOOL", "xd_is_ndarray %s" % d.p())
            if what == "(list, tuple)":
                return [], Val("BOOL", "xd_is_list %s" % d.p())
            raise Reject("%s: isinstance(%s, %s) is outside the vocabulary" % (_where(node), ast.unparse(node.args[0]), what))
        # np.atleast_2d(X_[k])
        if ast.unparse(f) == "np.atleast_2d":
            if (len(node.args) == 1 and not node.keywords and isinstance(node.args[0], ast.Subscript)
                    and self.xd_name(node.args[0].value, env) is not None):
                return [], Val("IX", "xd_step_arr %s %s" % (self.xd_name(node.args[0].value, env).p(), self.index(node.args[0].slice, env)))
            raise Reject("%s: np.atleast_2d outside the vocabulary: %s" % (_where(node), ast.unparse(node)))
        # np.zeros((T, self.output_dim))
        if ast.unparse(f) == "np.zeros" and len(node.args) == 1 and isinstance(node.args[0], ast.Tuple) and len(node.args[0].elts) == 2 \
                and not (isinstance(node.args[0].elts[0], ast.Constant)):
            if node.keywords:
                raise Reject("%s: np.zeros((T, n)) with keywords" % _where(node))
            pt, t = self.ex(node.args[0].elts[0], env)
            pd, d = self.ex(node.args[0].elts[1], env)
            if t.kind != "NATK" or d.kind != "ODIM" or pt:
                raise Reject("%s: np.zeros((%s, %s))" % (_where(node), t.kind, d.kind))
            r = self.fresh()
            return pd + [("bind (match %s with Some n => ret (np_zeros_2d %s n) | None => raise TypeError end) (fun %s =>" % (d.text, t.p(), r), ")")], \
                Val("MAT", r)
        # call(self, x)
        if _is_name(f, "call"):
            sp = self.done.get((None, "call"))
            if sp is None or not node.args:
                raise Reject("%s: call(..) outside the vocabulary" % _where(node))
            p0, n = self.ex(node.args[0], env)
            if n.kind != "NODE" or p0:
                raise Reject("%s: call(<%s>, ..)" % (_where(node), n.kind))
            rest = ast.Call(func=f, args=node.args[1:], keywords=node.keywords)
            ast.copy_location(rest, node)
            pa, args = self.bind_args(sp, rest, env)
            t = self.fresh()
            return pa + [("bind (call %s) (fun %s =>" % (" ".join([n.p()] + args), t), ")")], Val("ARR", t)
        # self.initialize(x)
        if isinstance(f, ast.Attribute) and f.attr == "initialize":
            po, o = self.ex(f.value, env)
            if o.kind != "NODE" or po or len(node.args) != 1 or node.keywords:
                raise Reject("%s: initialize outside the vocabulary: %s" % (_where(node), ast.unparse(node)))
            pa, a = self.ex(node.args[0], env)
            if a.kind != "IX" or pa:
                raise Reject("%s: initialize(<%s>)" % (_where(node), a.kind))
            return [("bind (initialize %s %s) (fun _ =>" % (o.p(), a.p()), ")")], Val("UNIT", "tt")
        return super().call(node, env)

    # ------------------------------------------------------------------ statements
    def block(self, stmts, env, mode, k):
        if not stmts:
            return k(env)
        s, rest = stmts[0], stmts[1:]

        def go(env2):
            return self.block(rest, env2, mode, k)

        if isinstance(s, ast.Assign) and len(s.targets) == 1:
            tg = s.targets[0]
            # X_, _ = check_xy(self, X, allow_n_sequences=False)
            if isinstance(tg, ast.Tuple):
                v = s.value
                if not (len(tg.elts) == 2 and all(isinstance(e, ast.Name) for e in tg.elts) and tg.elts[1].id == "_" and tg.elts[0].id != "_"
                        and isinstance(v, ast.Call) and _is_name(v.func, "check_xy") and len(v.args) == 2 and len(v.keywords) == 1
                        and v.keywords[0].arg == "allow_n_sequences" and isinstance(v.keywords[0].value, ast.Constant)
                        and v.keywords[0].value.value is False and mode["assign"] and self.loop is None):
                    raise Reject("%s: tuple assignment outside the vocabulary (X_, _ = check_xy(self, X, allow_n_sequences=False)): %s" % (
                        _where(s), ast.unparse(s)))
                p0, n = self.ex(v.args[0], env)
                p1, x = self.ex(v.args[1], env)
                if n.kind != "NODE" or x.kind != "XRAW" or p0 or p1:
                    raise Reject("%s: check_xy(<%s>, <%s>, ..)" % (_where(s), n.kind, x.kind))
                c = self.ident(tg.elts[0].id, s)
                env2 = dict(env)
                env2[tg.elts[0].id] = Val("XD", c)
                if "%assigned" in env:
                    env2["%assigned"] = env["%assigned"] + [tg.elts[0].id]
                return "bind (check_xy %s %s) (fun %s =>\n  %s)" % (n.p(), x.p(), c, go(env2))
            # a[i, :] = s
            if isinstance(tg, ast.Subscript):
                lp = self.loop
                sl = tg.slice
                if not (lp is not None and _is_name(tg.value, lp["carried"]) and isinstance(sl, ast.Tuple) and len(sl.elts) == 2
                        and _is_name(sl.elts[0], lp["var"]) and isinstance(sl.elts[1], ast.Slice)
                        and sl.elts[1].lower is None and sl.elts[1].upper is None and sl.elts[1].step is None):
                    raise Reject("%s: subscript assignment outside the vocabulary (a[i, :] = s with the loop variable i): %s" % (
                        _where(s), ast.unparse(s)))
                a = env.get(lp["carried"])
                pv, v = self.ex(s.value, env)
                if a is None or a.kind != "MAT" or v.kind != "ARR" or pv:
                    raise Reject("%s: %s[.., :] = <%s>" % (_where(s), lp["carried"], v.kind))
                return "let %s := mat_set_row %s %s %s in\n  %s" % (a.text, a.p(), env[lp["var"]].text, v.p(), go(env))
            if isinstance(tg, ast.Name) and self.loop is not None and tg.id in self.loop["outer"]:
                raise Reject("%s: the loop body rebinds %r, a local of the enclosing block" % (_where(s), tg.id))
        return super().block(stmts, env, mode, k)

    def for_(self, s, env, mode, go):
        it = s.iter
        if not (isinstance(it, ast.Call) and _is_name(it.func, "progress")):
            return super().for_(s, env, mode, go)
        if s.orelse or self.loop is not None or not isinstance(s.target, ast.Name):
            raise Reject("%s: for/else, nested or tuple-target loop" % _where(s))
        if not (len(it.args) == 2 and not it.keywords and isinstance(it.args[0], ast.Call) and _is_name(it.args[0].func, "range")
                and len(it.args[0].args) == 1 and not it.args[0].keywords and self.harmless_message(it.args[1], env)):
            raise Reject("%s: loop header outside the vocabulary (for i in progress(range(T), <message>)): %s" % (_where(s), ast.unparse(it)))
        pt, t = self.ex(it.args[0].args[0], env)
        if t.kind != "NATK" or pt:
            raise Reject("%s: range(<%s>)" % (_where(s), t.kind))
        carried = []
        for m in ast.walk(s):
            if isinstance(m, (ast.Assign, ast.AugAssign, ast.AnnAssign)):
                for tg in (m.targets if isinstance(m, ast.Assign) else [m.target]):
                    if isinstance(tg, ast.Subscript) and isinstance(tg.value, ast.Name) and tg.value.id not in carried:
                        carried.append(tg.value.id)
        if len(carried) != 1 or carried[0] not in env or env[carried[0]].kind != "MAT":
            raise Reject("%s: the loop must update exactly one array local of the enclosing block, found %s" % (_where(s), carried))
        a = env[carried[0]]
        i = self.ident(s.target.id, s)
        if s.target.id in env:
            raise Reject("%s: the loop variable shadows %r" % (_where(s), s.target.id))
        env2 = {kk: vv for kk, vv in env.items() if kk != "%assigned"}
        env2[s.target.id] = Val("NATK", i)
        self.loop = {"var": s.target.id, "carried": carried[0], "outer": set(kk for kk in env if not kk.startswith("%"))}
        try:
            body = self.block(s.body, env2, {"ret": False, "gen": False, "assign": True}, lambda e2: "ret %s" % e2[carried[0]].text)
        finally:
            self.loop = None
        return "bind (py_for_acc (py_range %s) (fun %s %s =>\n  %s) %s) (fun %s =>\n  %s)" % (t.p(), i, a.text, body, a.p(), a.text, go(env))

    # ------------------------------------------------------------------ whole function
    def translate(self):
        a = self.fn.args
        if a.vararg or a.kwonlyargs or a.posonlyargs or a.kwarg:
            raise Reject("unsupported parameter list")
        got = [x.arg for x in a.args]
        if got != [n for n, _ in self.spec["params"]]:
            raise Reject("parameters %s, declared %s" % (got, [n for n, _ in self.spec["params"]]))
        self.spec["defaults"] = read_defaults(self.fn)
        env, params = {"%facts": {}}, []
        for n, kd in self.spec["params"]:
            c = self.ident(n, self.fn)
            env[n] = Val(kd, c)
            params.append("(%s : %s)" % (c, COQTYPE[kd]))

        def end(e2):
            raise Reject("the function can fall off its end without a return")
        text = self.block(S._strip_doc(self.fn.body), env, {"ret": True, "gen": False, "assign": True}, end)
        return " ".join(params), text, "M hp %s" % COQTYPE[self.spec["ret"]]


def read_defaults(fn):
    a = fn.args
    got = [x.arg for x in a.args]
    nd = len(a.defaults)
    out = {n: d for n, d in zip(got[len(got) - nd:], a.defaults)} if nd else {}
    for n, d in out.items():
        if not (isinstance(d, ast.Constant) and (d.value is None or d.value is True or d.value is False)):
            raise Reject("default value of %s is not None / True / False" % n)
    return out


def check_module(rel, tree):
    bound = S.module_bindings(tree)
    for name, how in IMPORTS.get(rel, {}).items():
        if bound.get(name) != [how]:
            raise Reject("%s: %s must be bound exactly by `%s`, found %s" % (rel, name, how, bound.get(name)))
    for name in ("isinstance", "range", "list", "tuple", "RuntimeError", "TypeError"):
        if name in bound:
            raise Reject("%s: builtin %s is rebound at module level" % (rel, name))


def emit(repo):
    """-> Coq source text of coq/gen/Gen_run.v (raises Reject)"""
    trees = {}
    for rel in (_N, _B, _M, _U):
        trees[rel] = S.parse(repo, rel)
    for rel in (_N, _B, _M):
        S.check_module(rel, trees[rel][1])
    check_module(_N, trees[_N][1])
    S.check_pinned(trees)
    pins = []
    for (rel, name), want in PINNED_FN.items():
        fn = S.find_def(trees[rel][1], rel, None, name)
        got = [ast.unparse(b) for b in S._strip_doc(fn.body)]
        if got != want or fn.decorator_list or ast.unparse(fn.args) != "it, *args, **kwargs":
            raise Reject("%s: %s is pinned to %s, found %s" % (rel, name, want, got))
        pins.append("%s = identity on the iteration unless VERBOSITY > 0 (then tqdm)" % name)
    heads, done = [], {}
    for sp in CALLEES:
        rel = sp["file"]
        src, tree = trees[rel]
        label = "%s%s" % ((sp["cls"] + ".") if sp["cls"] else "", sp["name"])
        fn = S.find_def(tree, rel, sp["cls"], sp["name"])
        a = fn.args
        if (a.vararg or a.kwonlyargs or a.posonlyargs or a.kwarg or [x.arg for x in a.args] != [n for n, _ in sp["params"]]
                or [ast.unparse(d) for d in fn.decorator_list] != sp["deco"]):
            raise Reject("%s: the signature of %s is not (%s) / decorators %s" % (rel, label, ", ".join(n for n, _ in sp["params"]), sp["deco"]))
        sp = dict(sp)
        sp["defaults"] = read_defaults(fn)
        done[(sp["cls"], sp["name"])] = sp
        sha = hashlib.sha256((ast.get_source_segment(src, fn) or "").encode()).hexdigest()
        heads.append("     %s :: %s  (Section function %s; defaults %s)  sha256(source segment) = %s" % (
            rel, label, sp["coq"], ", ".join("%s=%s" % (n, ast.unparse(d)) for n, d in sp["defaults"].items()) or "none", sha))
    defs = []
    for sp in SPECS:
        rel = sp["file"]
        src, tree = trees[rel]
        label = "%s.%s" % (sp["cls"], sp["name"])
        try:
            fn = S.find_def(tree, rel, sp["cls"], sp["name"])
            if fn.decorator_list:
                raise Reject("decorators %s" % [ast.unparse(d) for d in fn.decorator_list])
            sp = dict(sp)
            params, body, ty = RunTr(sp, fn, done).translate()
        except Reject as ex:
            raise Reject("%s, function %s (as %s): %s" % (rel, label, sp["coq"], ex))
        sha = hashlib.sha256((ast.get_source_segment(src, fn) or "").encode()).hexdigest()
        heads.insert(len(defs), "     %s :: %s  (as %s)  sha256(source segment) = %s" % (rel, label, sp["coq"], sha))
        defs.append("(* %s :: %s *)\nDefinition %s %s : %s :=\n  %s." % (rel, label, sp["coq"], params, ty, body))
    out = ["(* GENERATED by tools/vlib/py2coq_run.py (%s, on %s) from the current source text of" % (VERSION, S.VERSION)] + heads + [
        "   -- DO NOT EDIT.  Regenerated by `./check C07` (pregen).  Vocabulary: base/CtxPrelude.v (a computation is heap -> heap * outcome A)",
        "   and base/RunPrelude.v (a `for` loop that updates one local array is a fold threading it).  Node.with_state and _base.call are",
        "   Section functions: proofs/Gen_run_eq.v instantiates them with the GENERATED GenState.Node_with_state / GenState.call of",
        "   gen/Gen_state.v.  Pinned: %s. *)" % "; ".join(
            ["%s.%s = `%s`" % (c, n, " ".join(w)) for (_, c, n), w in S.PINNED.items()] + pins),
        "From Coq Require Import List Bool Arith.",
        "From RV Require Import base.Num base.LA base.CtxPrelude base.RunPrelude.",
        "Import ListNotations.", "",
        "Module GenRun.",
        "Section GenRun.",
        "Context {F : Type} `{Num F} {P IX IRAW IDATA : Type}.",
        "Notation hp := (@heap F P).",
        "Variable check_xy : nat -> IRAW -> M hp IDATA.            (* check_xy(self, X, allow_n_sequences=False)[0] *)",
        "Variable initialize : nat -> IX -> M hp unit.             (* self.initialize(x) *)",
        "Variable xd_is_ndarray xd_is_list : IDATA -> bool.        (* isinstance(X_, np.ndarray) / isinstance(X_, (list, tuple)) *)",
        "Variable xd_len_arr xd_len_multi : IDATA -> nat.          (* X_.shape[0] / X_[0].shape[0] *)",
        "Variable xd_step_arr xd_step_multi : IDATA -> nat -> IX.  (* np.atleast_2d(X_[i]) / [np.atleast_2d(Xi[i]) for Xi in X_] *)",
        "Variable Node_with_state : forall {A : Type}, nat -> option (list F) -> bool -> bool -> M hp A -> M hp A.   (* Node.with_state *)",
        "Variable call : nat -> IX -> option (list F) -> bool -> bool -> M hp (list F).                              (* _base.call *)", ""]
    for d in defs:
        out += [d, ""]
    out += ["End GenRun.", "End GenRun.", ""]
    return "\n".join(out)


if __name__ == "__main__":
    import sys
    from vlib import core
    try:
        sys.stdout.write(emit(core.REPO))
    except Reject as ex:
        sys.stderr.write("REJECT: %s\n" % ex)
        sys.exit(1)
