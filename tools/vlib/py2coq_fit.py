"""Fail-closed translator for the OFFLINE-TRAINING SKELETON of reservoirpy -> Gallina (tie (T) of property C11, DESIGN §8 C11).

Targets   reservoirpy/node.py :: Node.is_trainable (getter and setter), Node.is_trained_offline, Node.is_trained_online, Node.initialize_buffers, Node.clean_buffers,
                                 Node.get_buffer, _partial_backward_default, Node.partial_fit, Node.fit

The translator parses the CURRENT text with `ast` (paths under core.REPO, which honours VERIF_REPO) and emits coq/gen/Gen_fit.v over the
vocabulary of coq/base/FitPrelude.v (a computation is `world -> world * outcome A`; the world -- node objects, Python list objects with
identity, the next free reference -- survives an exception).  Everything it does not understand raises Reject; it never guesses.

It is a SUBCLASS of the C08 translator (vlib/py2coq_state.FnTr), which is not edited: the statement / expression walker (blocks in
continuation style, `x is None` on an optional local as a refining match, if / elif / else, return, calls of already translated
methods with defaults and keywords, module-level binding checks, pinned texts) is inherited; py2coq_state is loaded a second time under a
private module name so that the kind tables of this vocabulary do not leak into the C08 translator.  Added here:
  statements   try: B except Exception: H; raise   ->  try_except_reraise B H      (exactly this shape: one handler, class Exception, no
               name, last statement a bare `raise`, no else / finally; B and H bind no local)
               a = b = []  on attributes (ONE evaluation of `[]`, the targets written left to right) | X, Y = check_xy(self, X, Y,
               allow_n_inputs=False) | X, Y = _init_with_sequences(self, X, Y) | n._fitted / n._buffers / n._X / n._Y = e |
               for i in range(len(L)) | raise ValueError / AttributeError / TypeError / RuntimeError (message: literals and reads only) |
               `if x is None` where x is literally None on this path: only the live branch is translated
  expressions  int literals | len(e) | dict() | [] | a <= b, a < b, a > b, a == b on naturals | L[i] (IndexError) | a.shape[0] | a[w:] |
               d.get(k) | d[k] | l.append(x) | clean_tempfile(n) (pinned) | `n._backward is [not] None` (same for _partial_backward,
               _buffers_initializer) | the calls n._partial_backward(n, x[, y], **kwargs), n._backward(n, n._X, n._Y),
               n._buffers_initializer(n): section parameters, arbitrary computations over the world, TypeError when the attribute is None |
               the properties n.is_trainable, n.is_trained_offline (translated) | `a and b`, `a or b` where b only READS attributes |
               `type(v) is bool` on the argument of the setter (a match that refines v)
"""
import ast
import hashlib
import importlib.util
import os

from vlib.py2coq_la import Reject

VERSION = "py2coq_fit 1"


def _private_copy():
    path = os.path.join(os.path.dirname(os.path.abspath(__file__)), "py2coq_state.py")
    spec = importlib.util.spec_from_file_location("vlib._py2coq_state_for_fit", path)
    mod = importlib.util.module_from_spec(spec)
    spec.loader.exec_module(mod)
    return mod


base = _private_copy()
Val, wrap, _where, _is_name, _is_none, _strip_doc = base.Val, base.wrap, base._where, base._is_name, base._is_none, base._strip_doc

_N = "reservoirpy/node.py"
_B = "reservoirpy/_base.py"
_P = "reservoirpy/utils/parallel.py"

SEQ = "(list Row)"
COQTYPE = {"NODE": "nat", "BOOL": "bool", "NAT": "nat", "DAT": "Dat", "ODAT": "(option Dat)", "SEQ": SEQ, "OSEQ": "(option %s)" % SEQ,
           "SEQS": "(list %s)" % SEQ, "SEQSO": "(list (option %s))" % SEQ, "OSEQSO": "(option (list (option %s)))" % SEQ, "KW": "KW",
           "PYVAL": "pyval", "REF": "nat", "DICT": "(list (nat * Buf))", "BUF": "Buf", "OBUF": "(option Buf)", "NAME": "nat", "UNIT": "unit"}
INNER = {"ODAT": "DAT", "OSEQ": "SEQ", "OSEQSO": "SEQSO", "OBUF": "BUF"}
NODE_ATTR = {"_trainable": ("BOOL", "a_trainable"), "_is_initialized": ("BOOL", "a_is_initialized"), "_fitted": ("BOOL", "a_fitted"),
             "_buffers": ("DICT", "a_buffers"), "_X": ("REF", "a_X"), "_Y": ("REF", "a_Y")}
# attributes holding a callback or None: attribute -> (projection `is not None`, section parameter)
CALLBACK = {"_backward": ("a_has_backward", "cb_backward"), "_partial_backward": ("a_has_partial_backward", "cb_partial_backward"),
            "_buffers_initializer": ("a_has_buffers_initializer", "cb_buffers_initializer"),
            "_train": ("a_has_train", None)}          # only tested against None here
WRITE = {"_trainable": ("BOOL", "wr_trainable"), "_fitted": ("BOOL", "wr_fitted"), "_buffers": ("DICT", "wr_buffers"), "_X": ("REF", "wr_X"), "_Y": ("REF", "wr_Y")}
EXC = ("RuntimeError", "TypeError", "ValueError", "AttributeError")

SPECS = [
    {"file": _N, "cls": "Node", "name": "is_trainable", "coq": "Node_is_trainable", "params": [("self", "NODE")], "ret": "BOOL", "prop": True},
    {"file": _N, "cls": "Node", "name": "is_trained_offline", "coq": "Node_is_trained_offline", "params": [("self", "NODE")], "ret": "BOOL",
     "prop": True},
    {"file": _N, "cls": "Node", "name": "is_trained_online", "coq": "Node_is_trained_online", "params": [("self", "NODE")], "ret": "BOOL",
     "prop": True},
    {"file": _N, "cls": "Node", "name": "is_trainable", "coq": "Node_set_is_trainable", "params": [("self", "NODE"), ("value", "PYVAL")],
     "ret": "UNIT", "setter": True},
    {"file": _N, "cls": "Node", "name": "initialize_buffers", "coq": "Node_initialize_buffers", "params": [("self", "NODE")], "ret": "SELF"},
    {"file": _N, "cls": "Node", "name": "clean_buffers", "coq": "Node_clean_buffers", "params": [("self", "NODE")], "ret": "UNIT"},
    {"file": _N, "cls": "Node", "name": "get_buffer", "coq": "Node_get_buffer", "params": [("self", "NODE"), ("name", "NAME")], "ret": "BUF"},
    {"file": _N, "cls": None, "name": "_partial_backward_default", "coq": "partial_backward_default",
     "params": [("node", "NODE"), ("X_batch", "SEQ"), ("Y_batch", "OSEQ")], "ret": "UNIT"},
    {"file": _N, "cls": "Node", "name": "partial_fit", "coq": "Node_partial_fit",
     "params": [("self", "NODE"), ("X_batch", "DAT"), ("Y_batch", "ODAT"), ("warmup", "NAT")], "kwarg": "kwargs", "ret": "SELF"},
    {"file": _N, "cls": "Node", "name": "fit", "coq": "Node_fit",
     "params": [("self", "NODE"), ("X", "ODAT"), ("Y", "ODAT"), ("warmup", "NAT")], "ret": "SELF"},
]

# texts this translation relies on without translating them: (file, class, name) -> unparsed statements (docstring stripped)
PINNED = {
    (_P, None, "clean_tempfile"): ["global temp_registry", "gc.collect()",
                                   "for file in temp_registry[caller]:\n    try:\n        os.remove(file)\n    except OSError:\n        pass"],
    (_B, "_Node", "__repr__"): ["klas = type(self).__name__", "hypers = [(str(k), str(v)) for k, v in self._hypers.items()]",
                                "all_params = ['='.join((k, v)) for k, v in hypers]",
                                "all_params += [f'in={self.input_dim}', f'out={self.output_dim}']",
                                "return f\"'{self.name}': {klas}(\" + ', '.join(all_params) + ')'"],
}
# names that must be bound at module level exactly like this
IMPORTS = {_N: {"check_xy": ["from ._base import check_xy"], "clean_tempfile": ["from .utils.parallel import clean_tempfile"],
                "_init_with_sequences": ["def"], "_partial_backward_default": ["def"]},
           _P: {"temp_registry": ["="], "gc": ["import gc"], "os": ["import os"]}}
BUILTINS = ("len", "range", "dict", "type", "bool", "Exception") + EXC

RESERVED = set("""fun let in if then else match with end forall exists Some None true false nat list bool option negb andb orb bind ret raise Ok
Exc M world obj oupd wupd rd pyval orb wr_trainable wr_fitted wr_buffers wr_X wr_Y try_except_reraise py_for body r tt unit fst snd Type Prop Set P Row Buf Dat KW map
seq length new_list list_append py_index py_shape0 py_slice_from dict_len dict_empty dict_get dict_item py_clean_tempfile py_call_attr
cb_check_xy cb_init_with_sequences cb_buffers_initializer cb_partial_backward cb_backward kw_empty wd
RuntimeError TypeError ValueError IndexError AttributeError KeyError Raised""".split())


def coerce(v, want, where):
    if v.kind == want:
        return v.p()
    if want in INNER and v.kind == INNER[want]:
        return "(Some %s)" % v.p()
    if v.kind == "NONE" and want in INNER:
        return "None"
    raise Reject("%s: a %s where a %s is expected" % (where, v.kind, want))


# the kind tables of this vocabulary, installed in the PRIVATE copy of py2coq_state only
base.COQTYPE, base.INNER, base.NODE_ATTR, base.RESERVED, base.coerce = COQTYPE, INNER, NODE_ATTR, RESERVED, coerce

INERT = {"ret": False, "gen": False, "assign": False}


def _reads_only(pre):
    return all(o.startswith("bind (rd ") or o.startswith("bind (Node_is_") for o, _ in pre)      # attribute reads, translated read-only properties


class FitTr(base.FnTr):
    # ------------------------------------------------------------------ expressions
    def ex(self, node, env):
        if isinstance(node, ast.Constant) and type(node.value) is int and node.value >= 0:
            return [], Val("NAT", str(node.value))
        if isinstance(node, ast.Dict):
            if node.keys:
                raise Reject("%s: dict display outside the vocabulary" % _where(node))
            return [], Val("KW", "kw_empty")
        if isinstance(node, ast.List):
            if node.elts:
                raise Reject("%s: list display outside the vocabulary (only `[]`)" % _where(node))
            t = self.fresh()
            return [("bind (new_list) (fun %s =>" % t, ")")], Val("REF", t)
        if isinstance(node, ast.BoolOp):
            if len(node.values) != 2:
                raise Reject("%s: boolean operator outside the vocabulary: %s" % (_where(node), ast.unparse(node)))
            pl, a = self.ex(node.values[0], env)
            pr, b = self.ex(node.values[1], env)
            if not _reads_only(pr):
                raise Reject("%s: the right operand of `and` / `or` does more than read attributes" % _where(node))
            if a.kind != "BOOL" or b.kind != "BOOL":
                raise Reject("%s: `and` / `or` on %s, %s" % (_where(node), a.kind, b.kind))
            return pl + pr, Val("BOOL", "%s %s %s" % ("andb" if isinstance(node.op, ast.And) else "orb", a.p(), b.p()))
        if isinstance(node, ast.Compare):
            if len(node.ops) != 1:
                raise Reject("%s: chained comparison" % _where(node))
            op, rhs = node.ops[0], node.comparators[0]
            if isinstance(op, (ast.Is, ast.IsNot)):
                if not _is_none(rhs):
                    raise Reject("%s: `is` against something else than None" % _where(node))
                lhs = node.left
                if isinstance(lhs, ast.Attribute) and lhs.attr in CALLBACK:
                    po, o = self.ex(lhs.value, env)
                    if o.kind != "NODE" or po:
                        raise Reject("%s: .%s of a %s" % (_where(node), lhs.attr, o.kind))
                    t = self.fresh()
                    pre = [("bind (rd %s %s) (fun %s =>" % (CALLBACK[lhs.attr][0], o.p(), t), ")")]
                    return pre, Val("BOOL", t if isinstance(op, ast.IsNot) else "negb %s" % t)
                pre, v = self.ex(lhs, env)
                if v.kind in INNER:
                    t = "match %s with None => true | Some _ => false end" % v.text
                elif v.kind == "NONE":
                    t = "true"
                else:
                    raise Reject("%s: `is None` on a %s" % (_where(node), v.kind))
                return pre, Val("BOOL", t if isinstance(op, ast.Is) else "negb (%s)" % t)
            fn = {ast.LtE: "Nat.leb %s %s", ast.Lt: "Nat.ltb %s %s", ast.Gt: "Nat.ltb %s %s", ast.Eq: "Nat.eqb %s %s"}.get(type(op))
            if fn is None:
                raise Reject("%s: comparison outside the vocabulary: %s" % (_where(node), ast.unparse(node)))
            pl, a = self.ex(node.left, env)
            pr, b = self.ex(rhs, env)
            if a.kind != "NAT" or b.kind != "NAT":
                raise Reject("%s: comparison of %s and %s" % (_where(node), a.kind, b.kind))
            x, y = (b, a) if isinstance(op, ast.Gt) else (a, b)
            return pl + pr, Val("BOOL", fn % (x.p(), y.p()))
        if isinstance(node, ast.Subscript):
            return self.subscript(node, env)
        return super().ex(node, env)

    def subscript(self, node, env):
        sl = node.slice
        # a.shape[0]
        if isinstance(node.value, ast.Attribute) and node.value.attr == "shape":
            pre, a = self.ex(node.value.value, env)
            if a.kind != "SEQ" or not (isinstance(sl, ast.Constant) and type(sl.value) is int and sl.value == 0):
                raise Reject("%s: only <sequence>.shape[0] is in the vocabulary: %s" % (_where(node), ast.unparse(node)))
            return pre, Val("NAT", "py_shape0 %s" % a.p())
        pre, a = self.ex(node.value, env)
        # a[w:]
        if isinstance(sl, ast.Slice):
            if sl.upper is not None or sl.step is not None or sl.lower is None or a.kind != "SEQ":
                raise Reject("%s: only <sequence>[w:] is in the vocabulary: %s" % (_where(node), ast.unparse(node)))
            pw, w = self.ex(sl.lower, env)
            if w.kind != "NAT" or pw:
                raise Reject("%s: slice bound of kind %s" % (_where(node), w.kind))
            return pre, Val("SEQ", "py_slice_from %s %s" % (w.p(), a.p()))
        pi, i = self.ex(sl, env)
        # L[i]  (i a loop index)
        if a.kind in ("SEQS", "SEQSO"):
            if i.kind != "NAT" or pi or not (isinstance(sl, ast.Name) and env.get("%loopvars", {}).get(sl.id)):
                raise Reject("%s: a list may only be indexed by the variable of an enclosing `for .. in range(len(..))`" % _where(node))
            t = self.fresh()
            return pre + [("bind (py_index %s %s) (fun %s =>" % (a.p(), i.p(), t), ")")], Val("SEQ" if a.kind == "SEQS" else "OSEQ", t)
        # d[k]
        if a.kind == "DICT":
            if i.kind != "NAME" or pi:
                raise Reject("%s: dict key of kind %s" % (_where(node), i.kind))
            t = self.fresh()
            return pre + [("bind (dict_item %s %s) (fun %s =>" % (a.p(), i.p(), t), ")")], Val("BUF", t)
        raise Reject("%s: subscript outside the vocabulary: %s" % (_where(node), ast.unparse(node)))

    def attribute(self, node, env):
        if node.attr in CALLBACK:
            raise Reject("%s: the callback attribute .%s may only be tested against None or called" % (_where(node), node.attr))
        sp = self.done.get(("Node", node.attr))
        if sp is not None and sp.get("prop"):
            pre, o = self.ex(node.value, env)
            if o.kind != "NODE":
                raise Reject("%s: property .%s of a %s" % (_where(node), node.attr, o.kind))
            t = self.fresh()
            return pre + [("bind (%s %s) (fun %s =>" % (sp["coq"], o.p(), t), ")")], Val(sp["ret"], t)
        if node.attr in ("name", "dtype"):
            raise Reject("%s: attribute .%s is outside the vocabulary" % (_where(node), node.attr))
        return super().attribute(node, env)

    def same_node(self, node, env, other):
        p, v = self.ex(node, env)
        return not p and v.kind == "NODE" and v.text == other.text

    def call(self, node, env):
        f = node.func
        if any(isinstance(a, ast.Starred) for a in node.args):
            raise Reject("%s: * argument" % _where(node))
        if isinstance(f, ast.Name) and f.id in env:
            raise Reject("%s: call of the local %r" % (_where(node), f.id))
        if _is_name(f, "len"):
            if len(node.args) != 1 or node.keywords:
                raise Reject("%s: len" % _where(node))
            pre, v = self.ex(node.args[0], env)
            if v.kind == "DICT":
                return pre, Val("NAT", "dict_len %s" % v.p())
            if v.kind in ("SEQS", "SEQSO"):
                return pre, Val("NAT", "length %s" % v.p())
            raise Reject("%s: len of a %s" % (_where(node), v.kind))
        if _is_name(f, "dict"):
            if node.args or node.keywords:
                raise Reject("%s: dict(..) with arguments" % _where(node))
            return [], Val("DICT", "dict_empty")
        if _is_name(f, "clean_tempfile"):
            if len(node.args) != 1 or node.keywords:
                raise Reject("%s: clean_tempfile" % _where(node))
            pre, v = self.ex(node.args[0], env)
            if v.kind != "NODE" or pre:
                raise Reject("%s: clean_tempfile(%s)" % (_where(node), v.kind))
            return [("bind (py_clean_tempfile %s) (fun _ =>" % v.p(), ")")], Val("UNIT", "tt")
        if isinstance(f, ast.Name):
            sp = self.done.get((None, f.id))
            if sp is not None:                    # a translated module-level function
                pre0, first = self.ex(node.args[0], env) if node.args else ([], None)
                if first is None or first.kind != "NODE" or pre0:
                    raise Reject("%s: first argument of %s" % (_where(node), f.id))
                shifted = ast.Call(func=f, args=node.args[1:], keywords=node.keywords)
                ast.copy_location(shifted, node)
                pa, args = self.bind_args(sp, shifted, env)
                return pa + [("bind (%s %s) (fun _ =>" % (sp["coq"], " ".join([first.p()] + args)), ")")], Val("UNIT", "tt")
            raise Reject("%s: call outside the vocabulary: %s" % (_where(node), ast.unparse(node)))
        if isinstance(f, ast.Attribute):
            if f.attr in CALLBACK:
                return self.callback(node, env)
            if f.attr == "append":
                po, o = self.ex(f.value, env)
                if o.kind != "REF" or len(node.args) != 1 or node.keywords:
                    raise Reject("%s: .append outside the vocabulary: %s" % (_where(node), ast.unparse(node)))
                px, x = self.ex(node.args[0], env)
                if x.kind != "SEQ" or px:
                    raise Reject("%s: .append(%s)" % (_where(node), x.kind))
                return po + [("bind (list_append %s %s) (fun _ =>" % (o.p(), x.p()), ")")], Val("UNIT", "tt")
            if f.attr == "get":
                po, o = self.ex(f.value, env)
                if o.kind != "DICT" or len(node.args) != 1 or node.keywords:
                    raise Reject("%s: .get outside the vocabulary: %s" % (_where(node), ast.unparse(node)))
                pk, k = self.ex(node.args[0], env)
                if k.kind != "NAME" or pk:
                    raise Reject("%s: .get(%s)" % (_where(node), k.kind))
                return po, Val("OBUF", "dict_get %s %s" % (o.p(), k.p()))
            if any(k.arg is None for k in node.keywords):
                raise Reject("%s: ** argument" % _where(node))
            if f.attr in ("astype", "_forward"):
                raise Reject("%s: call outside the vocabulary: %s" % (_where(node), ast.unparse(node)))
            return super().call(node, env)
        raise Reject("%s: call outside the vocabulary: %s" % (_where(node), ast.unparse(node)))

    def callback(self, node, env):
        """n._partial_backward(n, x[, y], **kwargs) | n._backward(n, n._X, n._Y) | n._buffers_initializer(n)"""
        f = node.func
        po, o = self.ex(f.value, env)
        if o.kind != "NODE" or po or not node.args or not self.same_node(node.args[0], env, o):
            raise Reject("%s: a callback must be called as n.%s(n, ..)" % (_where(node), f.attr))
        proj, fn = CALLBACK[f.attr]
        if fn is None:
            raise Reject("%s: a call of .%s is outside the vocabulary" % (_where(node), f.attr))
        pre, args = [], []
        if f.attr == "_partial_backward":
            if len(node.args) not in (2, 3) or len(node.keywords) != 1 or node.keywords[0].arg is not None:
                raise Reject("%s: _partial_backward must be called as (n, x[, y], **kwargs)" % _where(node))
            pk, kw = self.ex(node.keywords[0].value, env)
            px, x = self.ex(node.args[1], env)
            if kw.kind != "KW" or pk or x.kind != "SEQ":
                raise Reject("%s: _partial_backward(n, %s, .., **%s)" % (_where(node), x.kind, kw.kind))
            pre += px
            if len(node.args) == 3:
                py, y = self.ex(node.args[2], env)
                pre += py
                ytxt = coerce(y, "OSEQ", _where(node))
            else:
                ytxt = "None"
            args = [x.p(), ytxt, kw.p()]
        elif f.attr == "_backward":
            if len(node.args) != 3 or node.keywords:
                raise Reject("%s: _backward must be called as (n, n._X, n._Y)" % _where(node))
            for a in node.args[1:]:
                pa, v = self.ex(a, env)
                if v.kind != "REF":
                    raise Reject("%s: _backward(n, .., %s)" % (_where(node), v.kind))
                pre += pa
                args.append(v.p())
        else:
            if len(node.args) != 1 or node.keywords:
                raise Reject("%s: _buffers_initializer must be called as (n)" % _where(node))
        if not _reads_only(pre):
            raise Reject("%s: the arguments of a callback do more than read" % _where(node))
        t = self.fresh()
        pre = [("bind (rd %s %s) (fun %s =>" % (proj, o.p(), t), ")")] + pre
        return pre + [("bind (py_call_attr %s (%s)) (fun _ =>" % (t, " ".join([fn, o.p()] + args)), ")")], Val("UNIT", "tt")

    # ------------------------------------------------------------------ statements
    def block(self, stmts, env, mode, k):
        if not stmts:
            return k(env)
        s, rest = stmts[0], stmts[1:]

        def go(env2):
            return self.block(rest, env2, mode, k)

        if isinstance(s, ast.Raise):
            e = s.exc
            if rest or s.cause is not None or not (isinstance(e, ast.Call) and _is_name(e.func) and e.func.id in EXC and e.func.id not in env):
                raise Reject("%s: raise outside the vocabulary" % _where(s))
            if e.keywords or len(e.args) != 1 or not self.harmless_message(e.args[0], env):
                raise Reject("%s: exception message outside the vocabulary" % _where(s))
            return "raise %s" % e.func.id
        if isinstance(s, ast.Assign):
            tg = s.targets
            # X, Y = check_xy(self, X_batch, Y_batch, allow_n_inputs=False)  |  X, Y = _init_with_sequences(self, X, Y)
            if len(tg) == 1 and isinstance(tg[0], ast.Tuple):
                return self.pair_assign(s, env, mode, go)
            if all(isinstance(t, ast.Attribute) for t in tg):
                pre, v = self.ex(s.value, env)
                for t in tg:                      # one evaluation of the value, the targets written left to right
                    po, o = self.ex(t.value, env)
                    if o.kind != "NODE" or po or t.attr not in WRITE:
                        raise Reject("%s: assignment to .%s of a %s is outside the vocabulary" % (_where(s), t.attr, o.kind))
                    kind, wr = WRITE[t.attr]
                    pre = pre + [("bind (%s %s %s) (fun _ =>" % (wr, o.p(), coerce(v, kind, _where(s))), ")")]
                return wrap(pre, go(env))
            if len(tg) != 1:
                raise Reject("%s: chained assignment outside the vocabulary" % _where(s))
        if isinstance(s, ast.Try):
            if len(s.handlers) != 1 or s.orelse or s.finalbody:
                raise Reject("%s: only `try: .. except Exception: ..; raise` is in the vocabulary" % _where(s))
            h = s.handlers[0]
            if not (_is_name(h.type, "Exception") and "Exception" not in env and h.name is None and h.body
                    and isinstance(h.body[-1], ast.Raise) and h.body[-1].exc is None and h.body[-1].cause is None):
                raise Reject("%s: the handler must be `except Exception:` ending with a bare `raise`" % _where(h))
            body = self.block(s.body, env, INERT, lambda e2: "ret tt")
            hand = self.block(h.body[:-1], env, INERT, lambda e2: "ret tt")
            return "bind (try_except_reraise\n  (%s)\n  (%s)) (fun _ =>\n  %s)" % (body, hand, go(env))
        return super().block(stmts, env, mode, k)

    def pair_assign(self, s, env, mode, go):
        tg, v = s.targets[0], s.value
        if not mode["assign"]:
            raise Reject("%s: assignment to locals here" % _where(s))
        if not (len(tg.elts) == 2 and all(isinstance(e, ast.Name) for e in tg.elts) and tg.elts[0].id != tg.elts[1].id
                and isinstance(v, ast.Call) and isinstance(v.func, ast.Name) and v.func.id not in env and len(v.args) == 3):
            raise Reject("%s: tuple assignment outside the vocabulary" % _where(s))
        kw = {k.arg: k.value for k in v.keywords}
        if v.func.id == "check_xy":
            ok = set(kw) == {"allow_n_inputs"} and isinstance(kw["allow_n_inputs"], ast.Constant) and kw["allow_n_inputs"].value is False
            fn, kinds = "cb_check_xy", ("DAT", "ODAT")
        elif v.func.id == "_init_with_sequences":
            ok = not kw
            fn, kinds = "cb_init_with_sequences", ("SEQS", "OSEQSO")
        else:
            ok = False
        if not ok:
            raise Reject("%s: only check_xy(self, X, Y, allow_n_inputs=False) and _init_with_sequences(self, X, Y) return pairs" % _where(s))
        p0, n = self.ex(v.args[0], env)
        p1, x = self.ex(v.args[1], env)
        p2, y = self.ex(v.args[2], env)
        if n.kind != "NODE" or p0 or p1 or p2:
            raise Reject("%s: arguments of %s" % (_where(s), v.func.id))
        call = "%s %s %s %s" % (fn, n.p(), coerce(x, "DAT", _where(s)), coerce(y, "ODAT", _where(s)))
        env2 = dict(env)
        names = []
        for e, kd in zip(tg.elts, kinds):
            c = self.ident(e.id, s)
            env2[e.id] = Val(kd, c)
            names.append(c)
        if "%assigned" in env:
            env2["%assigned"] = env["%assigned"] + [e.id for e in tg.elts if e.id not in env["%assigned"]]
        return "bind (%s) (fun '(%s, %s) =>\n  %s)" % (call, names[0], names[1], go(env2))

    def harmless_message(self, node, env):
        """literals, and f-string fields that only read: self (-> _Node.__repr__, pinned), n.name, a local, a.shape[0]"""
        if isinstance(node, ast.Constant) and isinstance(node.value, str):
            return True
        if not isinstance(node, ast.JoinedStr):
            return False
        for v in node.values:
            if isinstance(v, ast.Constant):
                continue
            if not (isinstance(v, ast.FormattedValue) and v.format_spec is None and v.conversion == -1):
                return False
            e = v.value
            if isinstance(e, ast.Name) and e.id in env and not e.id.startswith("%"):
                continue
            if isinstance(e, ast.Attribute) and e.attr == "name" and isinstance(e.value, ast.Name) and env.get(e.value.id, Val("", "")).kind == "NODE":
                continue
            if (isinstance(e, ast.Subscript) and isinstance(e.value, ast.Attribute) and e.value.attr == "shape"
                    and isinstance(e.value.value, ast.Name) and env.get(e.value.value.id, Val("", "")).kind == "SEQ"
                    and isinstance(e.slice, ast.Constant) and e.slice.value == 0):
                continue
            return False
        return True

    def if_(self, s, env, mode, go):
        t = s.test
        # `x is None` / `x is not None` where x is literally None on this path: the dead branch is not translated
        if (isinstance(t, ast.Compare) and len(t.ops) == 1 and isinstance(t.ops[0], (ast.Is, ast.IsNot)) and _is_none(t.comparators[0])
                and isinstance(t.left, ast.Name) and t.left.id in env and env[t.left.id].kind == "NONE"):
            live = s.body if isinstance(t.ops[0], ast.Is) else s.orelse
            return self.block(live, env, mode, go)
        # `type(x) is bool` on a Python object handed in from outside: a match that refines x to the bool it is
        if (isinstance(t, ast.Compare) and len(t.ops) == 1 and isinstance(t.ops[0], ast.Is) and _is_name(t.comparators[0], "bool")
                and "bool" not in env and "type" not in env and isinstance(t.left, ast.Call) and _is_name(t.left.func, "type")
                and len(t.left.args) == 1 and not t.left.keywords and isinstance(t.left.args[0], ast.Name)
                and env.get(t.left.args[0].id, Val("", "")).kind == "PYVAL"):
            x = t.left.args[0].id
            v = env[x]
            es = dict(env)
            es[x] = Val("BOOL", v.text)
            return "match %s with\n  | Some %s => %s\n  | None => %s\n  end" % (
                v.text, v.text, self.block(s.body, es, mode, go), self.block(s.orelse, env, mode, go))
        return super().if_(s, env, mode, go)

    def for_(self, s, env, mode, go):
        it = s.iter
        if not (not s.orelse and isinstance(s.target, ast.Name) and isinstance(it, ast.Call) and _is_name(it.func, "range") and "range" not in env
                and len(it.args) == 1 and not it.keywords):
            raise Reject("%s: only `for i in range(len(L))` is in the vocabulary" % _where(s))
        pre, n = self.ex(it.args[0], env)
        if n.kind != "NAT" or pre or not n.text.startswith("length "):
            raise Reject("%s: only `for i in range(len(L))` is in the vocabulary" % _where(s))
        v = self.ident(s.target.id, s)
        env2 = dict(env)
        env2.pop("%assigned", None)
        env2[s.target.id] = Val("NAT", v)
        lv = dict(env.get("%loopvars", {}))
        lv[s.target.id] = True
        env2["%loopvars"] = lv
        body = self.block(s.body, env2, {"ret": False, "gen": False, "assign": True}, lambda e2: "ret tt")
        for st in ast.walk(ast.Module(body=s.body, type_ignores=[])):
            if isinstance(st, (ast.Assign, ast.AugAssign)) and any(_is_name(t, s.target.id) for t in getattr(st, "targets", [getattr(st, "target", None)])):
                raise Reject("%s: the loop variable is assigned in the loop" % _where(st))
            if isinstance(st, (ast.Break, ast.Continue)):
                raise Reject("%s: break / continue" % _where(st))
        # locals assigned in the loop body do not survive it in the translation: none may be read afterwards -> env unchanged
        return "bind (py_for (seq 0 (%s)) (fun %s =>\n  %s)) (fun _ =>\n  %s)" % (n.text, v, body, go(env))

    # ------------------------------------------------------------------ whole function
    def translate(self):
        a = self.fn.args
        if a.vararg or a.kwonlyargs or a.posonlyargs:
            raise Reject("unsupported parameter list")
        if (a.kwarg.arg if a.kwarg else None) != self.spec.get("kwarg"):
            raise Reject("** parameter %s, declared %s" % (a.kwarg.arg if a.kwarg else None, self.spec.get("kwarg")))
        got = [x.arg for x in a.args]
        if got != [n for n, _ in self.spec["params"]]:
            raise Reject("parameters %s, declared %s" % (got, [n for n, _ in self.spec["params"]]))
        nd = len(a.defaults)
        kinds = dict(self.spec["params"])
        self.spec["defaults"] = {n: d for n, d in zip(got[len(got) - nd:], a.defaults)} if nd else {}
        for n, d in self.spec["defaults"].items():
            if kinds[n] in INNER:
                ok = isinstance(d, ast.Constant) and d.value is None
            elif kinds[n] == "NAT":
                ok = isinstance(d, ast.Constant) and type(d.value) is int and d.value >= 0
            else:
                ok = False
            if not ok:
                raise Reject("default value of %s (%s) is outside the vocabulary" % (n, kinds[n]))
        env, params = {"%facts": {}}, []
        plist = list(self.spec["params"])
        if a.kwarg:
            plist.append((a.kwarg.arg, "KW"))
            self.spec["params"] = plist
            self.spec["defaults"][a.kwarg.arg] = ast.Dict(keys=[], values=[])       # no ** argument given: {}
        for n, kd in plist:
            c = self.ident(n, self.fn)
            env[n] = Val(kd, c)
            params.append("(%s : %s)" % (c, COQTYPE[kd]))
        body = _strip_doc(self.fn.body)
        rk = self.spec["ret"]

        def end(e2):
            if rk == "UNIT":
                return "ret tt"
            raise Reject("the function can fall off its end without a return")
        text = self.block(body, env, {"ret": True, "gen": False, "assign": True}, end)
        return " ".join(params), text, "M wd %s" % ("unit" if rk in ("SELF", "UNIT") else COQTYPE[rk])


# ---------------------------------------------------------------------------------------------------- module-level checks
def find_fn(tree, rel, sp):
    scope = tree.body if sp["cls"] is None else base.find_class(tree, rel, sp["cls"]).body
    hits = [n for n in scope if isinstance(n, ast.FunctionDef) and n.name == sp["name"]]
    if sp.get("setter"):
        hits = [n for n in hits if [ast.unparse(d) for d in n.decorator_list] == [sp["name"] + ".setter"]]
    elif sp.get("prop"):       # a property: the getter is the definition decorated with @property (a setter may follow)
        others = [ast.unparse(d) for n in hits for d in n.decorator_list if ast.unparse(d) not in ("property", sp["name"] + ".setter")]
        hits = [n for n in hits if [ast.unparse(d) for d in n.decorator_list] == ["property"]]
        if others:
            raise Reject("decorators %s on %s" % (others, sp["name"]))
    elif any(n.decorator_list for n in hits):
        raise Reject("%s is decorated" % sp["name"])
    if len(hits) != 1:
        raise Reject("%d definitions of %s" % (len(hits), sp["name"]))
    return hits[0]


def check_module(rel, tree):
    bound = base.module_bindings(tree)
    for name, how in IMPORTS.get(rel, {}).items():
        if bound.get(name) != how:
            raise Reject("%s: %s must be bound exactly by %s, found %s" % (rel, name, how, bound.get(name)))
    for name in BUILTINS:
        if name in bound:
            raise Reject("%s: builtin %s is rebound at module level" % (rel, name))


def check_pinned(trees):
    for (rel, cls, name), want in PINNED.items():
        fn = base.find_def(trees[rel][1], rel, cls, name)
        got = [ast.unparse(b) for b in _strip_doc(fn.body)]
        if got != want or fn.decorator_list:
            raise Reject("%s: %s%s is pinned to %s, found %s" % (rel, (cls + ".") if cls else "", name, want, got))
    # temp_registry = defaultdict(list): the lookup in clean_tempfile cannot raise
    hits = [n for n in trees[_P][1].body if isinstance(n, ast.Assign) and any(_is_name(t, "temp_registry") for t in n.targets)]
    if [ast.unparse(n) for n in hits] != ["temp_registry = defaultdict(list)"]:
        raise Reject("%s: temp_registry is pinned to `defaultdict(list)`" % _P)
    # `{self}` in a message is _Node.__repr__ (pinned above): Node must not define __str__ / __format__ / __repr__ of its own
    node_cls = base.find_class(trees[_N][1], _N, "Node")
    for n in node_cls.body:
        if isinstance(n, ast.FunctionDef) and n.name in ("__str__", "__format__", "__repr__"):
            raise Reject("%s: Node defines %s" % (_N, n.name))
    if [ast.unparse(b) for b in node_cls.bases] != ["_Node"]:
        raise Reject("%s: bases of Node: %s" % (_N, [ast.unparse(b) for b in node_cls.bases]))


# ---------------------------------------------------------------------------------------------------- output
def emit(repo):
    """-> Coq source text of coq/gen/Gen_fit.v (raises Reject)"""
    trees = {}
    for rel in (_N, _B, _P):
        trees[rel] = base.parse(repo, rel)
        check_module(rel, trees[rel][1])
    check_pinned(trees)
    heads, defs, done = [], [], {}
    for sp in SPECS:
        rel = sp["file"]
        src, tree = trees[rel]
        label = "%s%s%s" % ((sp["cls"] + ".") if sp["cls"] else "", sp["name"], " (setter)" if sp.get("setter") else "")
        sp = dict(sp)
        sp["gen"] = False
        try:
            fn = find_fn(tree, rel, sp)
            params, body, ty = FitTr(sp, fn, done).translate()
        except Reject as ex:
            raise Reject("%s, function %s (as %s): %s" % (rel, label, sp["coq"], ex))
        done[(sp["cls"], sp["name"] + (".setter" if sp.get("setter") else ""))] = sp
        sha = hashlib.sha256((ast.get_source_segment(src, fn) or "").encode()).hexdigest()
        heads.append("     %s :: %s  (as %s)  sha256(source segment) = %s" % (rel, label, sp["coq"], sha))
        defs.append("(* %s :: %s *)\nDefinition %s %s : %s :=\n  %s." % (rel, label, sp["coq"], params, ty, body))
    out = ["(* GENERATED by tools/vlib/py2coq_fit.py (%s) from the current source text of" % VERSION] + heads + [
        "   -- DO NOT EDIT.  Regenerated by `./check C11` (pregen) and by tools/regen.py.  Vocabulary: base/FitPrelude.v (a computation is",
        "   world -> world * outcome A; list objects have identity; `try: B except Exception: H; raise` is try_except_reraise B H).",
        "   Section parameters: check_xy and _init_with_sequences (not translated: C12's subject) and the three callbacks stored on a node",
        "   are arbitrary computations over the world.  Exception messages are not modelled (their fields only read).",
        "   Pinned: %s; temp_registry = defaultdict(list). *)" % "; ".join(
            "%s%s (%d statements)" % ((c + ".") if c else "", n, len(w)) for (_, c, n), w in PINNED.items()),
        "From Coq Require Import List Bool Arith.",
        "From RV Require Import base.FitPrelude.",
        "Import ListNotations.", "",
        "Module GenFit.",
        "Section GenFit.",
        "Context {P Row Buf Dat KW : Type}.",
        "Notation wd := (@world P Row Buf).",
        "Variable cb_check_xy : nat -> Dat -> option Dat -> M wd (Dat * option Dat).      (* check_xy(node, X, Y, allow_n_inputs=False) *)",
        "Variable cb_init_with_sequences : nat -> Dat -> option Dat -> M wd (list (list Row) * option (list (option (list Row)))).",
        "Variable cb_buffers_initializer : nat -> M wd unit.                               (* node._buffers_initializer(node) *)",
        "Variable cb_partial_backward : nat -> list Row -> option (list Row) -> KW -> M wd unit.   (* node._partial_backward(node, x[, y], **kw) *)",
        "Variable cb_backward : nat -> nat -> nat -> M wd unit.                            (* node._backward(node, <list object>, <list object>) *)",
        "Variable kw_empty : KW.                                                           (* no keyword argument *)", ""]
    for d in defs:
        out += [d, ""]
    out += ["End GenFit.", "End GenFit.", ""]
    return "\n".join(out)


if __name__ == "__main__":
    import sys
    from vlib import core
    try:
        sys.stdout.write(emit(core.REPO))
    except Reject as ex:
        sys.stderr.write("REJECT: %s\n" % ex)
        sys.exit(1)
