"""Shared machinery of the /verif checks: Coq build + case evaluation, findings protocol, evidence, replays.

Run under /venv/bin/python with PYTHONPATH=/repo:/verif/tools (the ./check wrapper does that).
"""
import fractions
import hashlib
import json
import os
import random
import re
import shutil
import subprocess
import sys
import time

VERIF = os.path.dirname(os.path.dirname(os.path.dirname(os.path.abspath(__file__))))
COQ = os.path.join(VERIF, "coq")
BUILD = os.path.join(VERIF, "build")
REPO = os.environ.get("VERIF_REPO", "/repo")
FORBIDDEN = re.compile(
    r"\b(Admitted|admit|Axiom|Axioms|Parameter|Parameters|Conjecture|Abort All|Unset Guard Checking|bypass_check|"
    r"Unset Positivity Checking|Unset Universe Checking|type-in-type|impredicative-set|Admit Obligations)\b")
STMT = re.compile(r"^\s*(?:#\[[^\]]*\]\s*)?(?:Local\s+|Global\s+)?(Theorem|Lemma|Corollary|Example|Fact|Proposition|Remark)\s+([A-Za-z0-9_']+)",
                  re.M)


# --------------------------------------------------------------------------------------------- literals
def frac(x):
    """Exact rational value of an int / float / Fraction / 'a/b' string."""
    if isinstance(x, fractions.Fraction):
        return x
    if isinstance(x, bool):
        return fractions.Fraction(int(x))
    if isinstance(x, int):
        return fractions.Fraction(x)
    if isinstance(x, str):
        return fractions.Fraction(x)
    try:
        import numpy as np
        if isinstance(x, np.generic):
            x = x.item()
    except Exception:
        pass
    if isinstance(x, int):
        return fractions.Fraction(x)
    if x != x or x in (float("inf"), float("-inf")):
        raise ValueError("non-finite float cannot be a Q literal: %r" % (x,))
    n, d = float(x).as_integer_ratio()
    return fractions.Fraction(n, d)


def q(x):
    f = frac(x)
    if f.denominator == 1:
        return "(%d)" % f.numerator if f.numerator < 0 else "%d" % f.numerator
    return "(%d#%d)" % (f.numerator, f.denominator)


def qvec(v):
    return "[" + ";".join(q(x) for x in v) + "]"


def qmat(m):
    return "[" + ";".join(qvec(r) for r in m) + "]"


def qopt(x, f=q):
    return "None" if x is None else "(Some %s)" % f(x)


def nat(n):
    return "%d%%nat" % int(n)


def coqbool(b):
    return "true" if b else "false"


def coqstr(s):
    return '"%s"%%string' % s.replace('"', '""')


def coqlist(items):
    return "[" + ";".join(items) + "]"


def dyadic(rng, lim=16, maxpow=3):
    """Small dyadic rational k/2^j as a Fraction (exact in float64)."""
    return fractions.Fraction(rng.randint(-lim, lim), 2 ** rng.randint(0, maxpow))


def tolist(a):
    import numpy as np
    return np.asarray(a, dtype=float).tolist()


# --------------------------------------------------------------------------------------------- coq
def sh(cmd, timeout=600, cwd=None, env=None):
    t0 = time.time()
    try:
        p = subprocess.run(cmd, shell=isinstance(cmd, str), cwd=cwd, env=env, capture_output=True, text=True,
                           timeout=timeout)
        return p.returncode, p.stdout, p.stderr, time.time() - t0
    except subprocess.TimeoutExpired as e:
        return 124, (e.stdout or b"").decode() if isinstance(e.stdout, bytes) else (e.stdout or ""), "TIMEOUT", time.time() - t0


def ensure_makefile():
    mk = os.path.join(COQ, "Makefile")
    proj = os.path.join(COQ, "_CoqProject")
    vs = []
    for d in ("base", "gen", "model", "proofs", "props", "run", "history"):
        dd = os.path.join(COQ, d)
        if os.path.isdir(dd):
            vs += sorted(os.path.join(d, f) for f in os.listdir(dd) if f.endswith(".v"))
    want = "-Q . RV\n" + "\n".join(vs) + "\n"
    if not os.path.exists(proj) or open(proj).read() != want:
        with open(proj, "w") as f:
            f.write(want)
    if not os.path.exists(mk) or os.path.getmtime(mk) < os.path.getmtime(proj):
        rc, out, err, _ = sh("coq_makefile -f _CoqProject -o Makefile", cwd=COQ)
        if rc != 0:
            raise RuntimeError("coq_makefile failed: " + err)


def coq_deps(vfile):
    src = open(os.path.join(COQ, vfile)).read()
    src = re.sub(r"\(\*.*?\*\)", "", src, flags=re.S)
    deps = []
    for m in re.finditer(r"From\s+RV\s+Require\s+(?:Import\s+|Export\s+)?((?:[A-Za-z_][A-Za-z0-9_']*(?:\.[A-Za-z_][A-Za-z0-9_']*)*\s*)+)\.", src):
        for mod in m.group(1).split():
            p = mod.replace(".", "/") + ".v"
            if os.path.exists(os.path.join(COQ, p)) and p not in deps:
                deps.append(p)
    return deps


def coq_cone(vfile):
    """Dependency cone of a .v file (paths relative to coq/), in compilation order (dependencies first)."""
    order, seen = [], set()

    def visit(f):
        if f in seen:
            return
        seen.add(f)
        for d in coq_deps(f):
            visit(d)
        order.append(f)
    visit(vfile)
    return order


def compile_cone(cone, force=(), timeout=900):
    """coqc every out-of-date file of the cone, in order (full .vo, never -vos).  Returns (ok, log, failed_file)."""
    log = ""
    rebuilt = set()
    for f in cone:
        v, vo = os.path.join(COQ, f), os.path.join(COQ, f + "o")
        stale = (f in force) or (not os.path.exists(vo)) or os.path.getmtime(vo) < os.path.getmtime(v) \
            or any(d in rebuilt or os.path.getmtime(os.path.join(COQ, d + "o")) > os.path.getmtime(vo) for d in coq_deps(f))
        if not stale:
            continue
        rc, out, err, _ = sh("timeout %d coqc -Q . RV %s" % (timeout, f), cwd=COQ, timeout=timeout + 30)
        log += "COQC %s\n%s%s" % (f, out, err)
        if rc != 0:
            if os.path.exists(vo):
                os.remove(vo)
            return False, log, f
        rebuilt.add(f)
    return True, log, None


def forbidden_scan(files):
    bad = []
    for f in files:
        src = open(os.path.join(COQ, f)).read()
        src_nc = re.sub(r"\(\*.*?\*\)", "", src, flags=re.S)
        for m in FORBIDDEN.finditer(src_nc):
            bad.append("%s: %s" % (f, m.group(0)))
        # Variable / Hypothesis / Context outside any Section would declare an axiom
        open_sections = []
        for m in re.finditer(r"(?m)^\s*(Section|End|Module(?:\s+Type)?|Variables?|Hypothes[ie]s|Context|Let)\s+([A-Za-z_][A-Za-z0-9_']*)?", src_nc):
            kw, name = m.group(1), m.group(2)
            if kw == "Section" or kw.startswith("Module"):
                open_sections.append((kw, name))
            elif kw == "End":
                if open_sections:
                    open_sections.pop()
            elif kw in ("Variable", "Variables", "Hypothesis", "Hypotheses", "Context"):
                if not any(k == "Section" for k, _ in open_sections):
                    bad.append("%s: %s outside a Section" % (f, kw))
    return bad


def build_props(pid, timeout=900):
    """Full .vo build of the dependency cone of props/<pid>.v, re-checking the statement file itself so that its
    Print Assumptions output is this run's.  Returns dict(ok, log, assumptions, obligations, discharged, files)."""
    target = "props/%s.v" % pid
    cone = coq_cone(target)
    res = {"files": cone, "ok": False, "assumptions": "", "obligations": 0, "discharged": 0, "log": "", "failed": None}
    bad = forbidden_scan(cone)
    if bad:
        res["log"] = "forbidden vernacular: " + "; ".join(bad)
        res["failed"] = "forbidden-vernacular"
        return res
    ok, out, failed = compile_cone(cone, force=(target,), timeout=timeout)
    res["log"] = out[-6000:]
    n = 0
    for f in cone:
        n += len(STMT.findall(re.sub(r"\(\*.*?\*\)", "", open(os.path.join(COQ, f)).read(), flags=re.S)))
    res["obligations"] = n
    if not ok:
        m = re.search(r'File "\./([^"]+)", line (\d+)', out)
        res["failed"] = "%s:%s" % (m.group(1), m.group(2)) if m else failed
        d = 0
        for f in cone:
            if os.path.exists(os.path.join(COQ, f + "o")):
                d += len(STMT.findall(re.sub(r"\(\*.*?\*\)", "", open(os.path.join(COQ, f)).read(), flags=re.S)))
        res["discharged"] = d
        return res
    res["ok"] = True
    res["discharged"] = n
    # Print Assumptions output: everything make printed for the props file
    res["assumptions"] = extract_assumptions(out)
    return res


def extract_assumptions(out):
    lines = out.splitlines()
    keep, on = [], False
    for ln in lines:
        if ln.startswith("Axioms:") or ln.startswith("Closed under the global context"):
            on = True
            keep.append(ln.strip())
            continue
        if on:
            if ln.startswith(" ") or ln.startswith("\t") or re.match(r"^[A-Za-z_.0-9]+\s*:", ln) or re.match(r"^[A-Za-z_.0-9']+$", ln.strip()):
                if ln.startswith("make") or ln.startswith("COQC"):
                    on = False
                    continue
                keep.append(ln.rstrip())
            else:
                on = False
    return "\n".join(keep)


def axioms_named(assump_text):
    names = set()
    for ln in assump_text.splitlines():
        m = re.match(r"^([A-Za-z_][A-Za-z0-9_.']*)\s*:", ln.strip())
        if m and m.group(1) != "Axioms":
            names.add(m.group(1))
        m = re.match(r"^([A-Za-z_][A-Za-z0-9_.']*)$", ln.strip())
        if m and "." in m.group(1):
            names.add(m.group(1))
    return sorted(names)


def run_cases(pid, imports, cases, chunk=250, timeout=600, defs=""):
    """Evaluate boolean Gallina terms (one per case) inside Coq with vm_compute.

    Returns (failing_indices, error_text_or_None).  Each chunk becomes build/<pid>/cases_k.v:
        <imports>  Definition cs : list bool := [c0; c1; ...].  Eval vm_compute in (failing cs).
    """
    d = os.path.join(BUILD, pid)
    shutil.rmtree(d, ignore_errors=True)
    os.makedirs(d)
    # the runner modules (and whatever they depend on: hand-written models, definitions generated on this run) must be up to date
    for m in re.findall(r"\b(?:run|gen)\.[A-Za-z0-9_]+", imports):
        ok, log, failed = compile_cone(coq_cone(m.replace(".", "/") + ".v"))
        if not ok:
            return [], "build of runner module %s failed at %s:\n%s" % (m, failed, log[-1500:])
    files = []
    for k in range(0, len(cases), chunk):
        fn = os.path.join(d, "cases_%d.v" % (k // chunk))
        with open(fn, "w") as f:
            f.write(imports + "\n" + defs + "\n")
            f.write("Definition cs : list bool := [\n  " + ";\n  ".join(cases[k:k + chunk]) + "\n].\n")
            f.write("Eval vm_compute in (failing cs).\n")
        files.append((k, fn))
    if not files:
        return [], None
    procs = []
    for k, fn in files:
        procs.append((k, fn, subprocess.Popen(
            "ulimit -s unlimited 2>/dev/null; timeout %d coqc -Q %s RV %s" % (timeout, COQ, fn), shell=True, cwd=d,
            stdout=subprocess.PIPE, stderr=subprocess.STDOUT, text=True)))
        while sum(1 for _, _, p in procs if p.poll() is None) >= 14:
            time.sleep(0.05)
    failing, err = [], None
    for k, fn, p in procs:
        out, _ = p.communicate()
        if p.returncode != 0:
            err = (err or "") + "coqc failed on %s (rc=%s): %s\n" % (fn, p.returncode, out[-1500:])
            continue
        m = re.search(r"=\s*\[(.*?)\]\s*:\s*list nat", out, re.S)
        if not m:
            err = (err or "") + "unparsable coqc output for %s: %s\n" % (fn, out[-500:])
            continue
        body = m.group(1).strip()
        if body:
            failing += [k + int(x.replace("%nat", "")) for x in re.split(r"[;\s]+", body) if x.strip()]
    return sorted(failing), err


def eval_terms(pid, imports, terms, timeout=300, tag="dbg"):
    """Debug helper: evaluate arbitrary terms, return raw coqc output."""
    d = os.path.join(BUILD, pid)
    os.makedirs(d, exist_ok=True)
    fn = os.path.join(d, "%s.v" % tag)
    with open(fn, "w") as f:
        f.write(imports + "\n")
        for t in terms:
            f.write("Eval vm_compute in (%s).\n" % t)
    rc, out, err, _ = sh("timeout %d coqc -Q %s RV %s" % (timeout, COQ, fn), cwd=d, timeout=timeout + 10)
    return out + err


# --------------------------------------------------------------------------------------------- findings / replay
def load_findings():
    p = os.path.join(VERIF, "known_findings.json")
    if not os.path.exists(p):
        return []
    return json.load(open(p)).get("findings", [])


def write_replay(pid, payload):
    d = os.path.join(VERIF, "replays", pid)
    os.makedirs(d, exist_ok=True)
    blob = json.dumps(payload, sort_keys=True, default=str, indent=1)
    h = hashlib.sha256(blob.encode()).hexdigest()[:12]
    p = os.path.join(d, "%s.json" % h)
    with open(p, "w") as f:
        f.write(blob)
    return p


class Ctx:
    def __init__(self, pid, tier, seed):
        self.pid, self.tier, self.seed = pid, tier, seed
        self.thorough = tier == "thorough"

    def rng(self, stream):
        return random.Random("%s/%s/%d" % (self.pid, stream, self.seed))

    def n(self, quick, thorough):
        return thorough if self.thorough else quick
