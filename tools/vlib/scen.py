"""Scenario language shared by the framework properties: build real reservoirpy nodes/models from a JSON-able
description, run a history of operations on them, and print the same scenario + observations as a Gallina term
for coq/run/RunModel.v (chk_hist_both: the tidy model ModelSem and the low-level proxy/clamp model ProxySem)."""
import itertools
from fractions import Fraction

import numpy as np

from vlib import core
from vlib.core import q, qvec, qmat, nat, coqbool, coqlist

IMPORTS = ("From Coq Require Import List QArith.\nFrom RV Require Import base.Num model.ModelSem model.Kinds run.RunModel.\n"
           "Import ListNotations.\nOpen Scope Q_scope.")
_uid = itertools.count()


def fr(x):
    return Fraction(x)


def fl(rows):
    return np.array([[float(Fraction(v)) for v in r] for r in rows], dtype=float)


def rpy():
    import reservoirpy
    reservoirpy.verbosity(0)
    return reservoirpy


ACTS = {
    "id": lambda x: x,
    "relu": lambda x: np.maximum(x, 0.0),
    "hardtanh": lambda x: np.clip(x, -1.0, 1.0),
    "half": lambda x: x / 2.0,
}
ACTK = {"id": "AId", "relu": "ARelu", "hardtanh": "AHardTanh", "half": "AHalf"}


class Boom(Exception):
    pass


# ------------------------------------------------------------------------------------------ building real objects
def build_node(nd, prefix):
    """One real reservoirpy node for a scenario node description."""
    from reservoirpy.node import Node
    from reservoirpy.nodes import NVAR, Delay, Input, Output, Reservoir, Ridge
    k = nd["kind"]
    name = "%s_%s" % (prefix, nd["name"])

    def same_dim_init(node, x=None, **kw):
        node.set_input_dim(x.shape[1])
        node.set_output_dim(x.shape[1])

    if k == "fun":
        a, b = float(fr(nd["a"])), float(fr(nd["b"]))
        return Node(forward=lambda node, x: a * x + b, initializer=same_dim_init, name=name)
    if k == "acc":
        return Node(forward=lambda node, x: x + node.state(), initializer=same_dim_init, name=name)
    if k == "boom":
        cnt = {"c": 0}
        kk = nd["k"]

        def fwd(node, x):
            if cnt["c"] + 1 == kk:
                raise Boom("boom at call %d" % kk)
            cnt["c"] += 1
            return x + node.state()
        n = Node(forward=fwd, initializer=same_dim_init, name=name)
        n._verif_counter = cnt
        return n
    if k == "fbadd":
        c = float(fr(nd["c"]))

        def fwd(node, x):
            return x + c * np.asarray(node.feedback()).reshape(1, -1)
        return Node(forward=fwd, initializer=same_dim_init, name=name)
    if k in ("res", "resext", "resfb"):
        kw = dict(units=len(nd["W"]), lr=np.array([float(fr(v)) for v in nd["lr"]]), W=fl(nd["W"]), Win=fl(nd["Win"]),
                  bias=fl([[v] for v in nd["bias"]]), activation=ACTS[nd["act"]],
                  equation="external" if k == "resext" else "internal", name=name)
        if k == "resfb":
            kw["Wfb"] = fl(nd["Wfb"])
            kw["fb_activation"] = ACTS[nd["fbact"]]
        return Reservoir(**kw)
    if k == "lin":
        return Ridge(output_dim=len(nd["bias"]), Wout=fl(nd["Wout"]), bias=fl([nd["bias"]]), name=name)
    if k == "delay":
        return Delay(delay=nd["delay"], name=name)
    if k == "nvar":
        return NVAR(delay=nd["delay"], order=nd["order"], strides=nd["strides"], name=name)
    if k == "input":
        return Input(name=name)
    if k == "output":
        return Output(name=name)
    raise ValueError(k)


class Built:
    """Real objects of a scenario + the id <-> name tables (inserted Concat nodes get ids >= 1000)."""

    def __init__(self, sc):
        from reservoirpy.model import Model
        rpy()
        self.sc = sc
        self.prefix = "v%d" % next(_uid)
        self.nodes = {nd["id"]: build_node(nd, self.prefix) for nd in sc["nodes"]}
        self.desc = {nd["id"]: nd for nd in sc["nodes"]}
        self.models = []
        self._fb_done = set()
        self.extra = {}      # id -> real Concat node
        self.extra_dim = {}
        for md in sc["models"]:
            if len(md["nodes"]) == 1 and not md["edges"]:
                self.models.append(self.nodes[md["nodes"][0]])
            elif md.get("build") == "esn":
                # the ESN convenience node over (reservoir, readout); feedback readout -> reservoir either made by the constructor
                # (feedback=True) or wired by hand before the nodes are handed over
                from reservoirpy.nodes import ESN
                r, o = md["nodes"]
                fb = self.desc[r].get("fb")
                if fb is not None and md.get("wire") == "hand":
                    self.nodes[r] <<= self.nodes[o]
                self.models.append(ESN(reservoir=self.nodes[r], readout=self.nodes[o], feedback=fb is not None and md.get("wire") != "hand",
                                       name="%s_m%d" % (self.prefix, len(self.models))))
                self._fb_done.add(r)
            elif md.get("build") == "iand":
                # built in place: the sub-model over the first nodes, then  model &= <the rest>  (Model.update_graph)
                cut = md["cut"]
                A = [i for i in md["nodes"] if i < cut]
                eA = [(a, b) for a, b in md["edges"] if a < cut and b < cut]
                eB = [(a, b) for a, b in md["edges"] if not (a < cut and b < cut)]
                nB = sorted(set([i for i in md["nodes"] if i >= cut] + [x for e in eB for x in e]))
                m = Model([self.nodes[i] for i in A], [(self.nodes[a], self.nodes[b]) for a, b in eA],
                          name="%s_m%d" % (self.prefix, len(self.models)))
                other = Model([self.nodes[i] for i in nB], [(self.nodes[a], self.nodes[b]) for a, b in eB],
                              name="%s_m%db" % (self.prefix, len(self.models)))
                m &= other
                self.models.append(m)
            else:
                self.models.append(Model([self.nodes[i] for i in md["nodes"]],
                                         [(self.nodes[a], self.nodes[b]) for a, b in md["edges"]],
                                         name="%s_m%d" % (self.prefix, len(self.models))))
        # feedback connections (after the models exist: a sender may be a model)
        for nd in sc["nodes"]:
            fb = nd.get("fb")
            if fb is None or nd["id"] in self._fb_done:
                continue
            if "node" in fb:
                sender = self.nodes[fb["node"]]
            else:
                sender = Model([self.nodes[i] for i in fb["model"]["nodes"]],
                               [(self.nodes[a], self.nodes[b]) for a, b in fb["model"]["edges"]],
                               name="%s_fbm%d" % (self.prefix, nd["id"]))
            self.nodes[nd["id"]] <<= sender
        self.ids = {n.name: i for i, n in self.nodes.items()}

    def nid(self, node):
        if node.name in self.ids:
            return self.ids[node.name]
        i = 1000 + len(self.extra)
        self.extra[i] = node
        self.ids[node.name] = i
        return i

    def all_nodes(self):
        d = dict(self.nodes)
        d.update(self.extra)
        return d

    def model_struct(self, mi):
        """(order ids, parents {id: [ids]}, output ids) as reservoirpy built them."""
        from reservoirpy.utils.graphflow import find_parents_and_children
        m = self.models[mi]
        if not hasattr(m, "nodes"):
            i = self.nid(m)
            return [i], {}, [i]
        order = [self.nid(n) for n in m.nodes]
        par, _ = find_parents_and_children(m.edges)
        parents = {self.nid(c): [self.nid(p) for p in ps] for c, ps in par.items() if len(ps) > 0}
        md = self.sc["models"][mi]
        senders = set(a for a, b in md["edges"])
        outs = sorted(i for i in md["nodes"] if i not in senders)     # exits by definition: nodes without successors
        return order, parents, outs


def _x_arg(b, mi, X, as_int=False, rev_keys=False):
    """X is either a list of rows (array input) or {id: rows} (mapping input); as_int: integer-typed arrays (values must be integers).
    rev_keys: the mapping is written with its keys in reverse order (a name-keyed mapping means the same whatever order it is written in)."""
    conv = (lambda rows: fl(rows).astype(np.int64)) if as_int else fl
    if isinstance(X, dict):
        items = list(X.items())
        if rev_keys:
            items = sorted(items, key=lambda kv: b.all_nodes()[int(kv[0])].name, reverse=True)
        return {b.all_nodes()[int(i)].name: conv(rows) for i, rows in items}
    return conv(X)


def at_rest(b):
    """Mechanism state between operations: every node's `_state_proxy` is None and no receiver's DistantFeedback is clamped."""
    for n in b.all_nodes().values():
        if getattr(n, "_state_proxy", None) is not None:
            return False
        fbk = getattr(n, "_feedback", None)
        if fbk is not None and getattr(fbk, "_clamped", False):
            return False
    return True


def run_history(sc):
    """Execute the scenario's ops on the real library.  Returns (Built, [observation per op])."""
    b = Built(sc)
    obs = []
    for o in sc["ops"]:
        m = b.models[o["model"]]
        is_model = hasattr(m, "nodes")
        ok, outs = True, []
        try:
            if o["op"] == "reset":
                m.reset()
            else:
                kw = dict(stateful=o.get("stateful", True), reset=o.get("reset", False))
                if o.get("from_state"):
                    if is_model:
                        kw["from_state"] = {b.all_nodes()[int(i)].name: fl([v]) for i, v in o["from_state"].items()}
                    else:
                        kw["from_state"] = fl([list(o["from_state"].values())[0]])
                if o["op"] == "runs":
                    # one run over a LIST of sequences (array inputs; forced feedbacks as {id: [rows per sequence]})
                    if o.get("fbs"):
                        kw["forced_feedbacks"] = {b.all_nodes()[int(i)].name: [fl(r) for r in seqs] for i, seqs in o["fbs"].items()}
                        kw["shift_fb"] = o.get("shift_fb", True)
                    res = m.run([fl(x) for x in o["Xs"]], **kw)
                    _, _, mouts = b.model_struct(o["model"])
                    if isinstance(res, dict) and sc["models"][o["model"]].get("build") == "esn":
                        per_out = [res["readout"]]
                    elif isinstance(res, dict):
                        per_out = [res[b.all_nodes()[i].name] for i in mouts]
                    else:
                        per_out = [res]
                    per_out = [[np.asarray(a) for a in (po if isinstance(po, (list, tuple)) else [po])] for po in per_out]
                    outs_seq = []
                    for k in range(len(o["Xs"])):
                        arrs = [po[k].reshape(len(o["Xs"][k]), -1) for po in per_out]
                        outs_seq.append([[a[t].tolist() for a in arrs] for t in range(len(o["Xs"][k]))])
                    outs = [st for sq in outs_seq for st in sq]
                elif o["op"] == "run":
                    if is_model:
                        if o.get("fb"):
                            kw["forced_feedbacks"] = {b.all_nodes()[int(i)].name: fl(rows) for i, rows in o["fb"].items()}
                            kw["shift_fb"] = o.get("shift_fb", True)
                        if o.get("return_states") is not None:
                            kw["return_states"] = o["return_states"]
                    res = m.run(_x_arg(b, o["model"], o["X"], o.get("int_input", False), o.get("rev_keys", False)), **kw)
                else:
                    if is_model and o.get("fb"):
                        kw["forced_feedback"] = {b.all_nodes()[int(i)].name: fl([v]) for i, v in o["fb"].items()}
                    x = o["x"]
                    res = m.call({b.all_nodes()[int(i)].name: fl([v]) for i, v in x.items()} if isinstance(x, dict) else fl([x]), **kw)
                _, _, mouts = b.model_struct(o["model"])
                if o["op"] == "runs":
                    arrs = None
                elif isinstance(res, dict) and sc["models"][o["model"]].get("build") == "esn":
                    arrs = [np.asarray(res["readout"])]      # ESN.run keys its returned states by role
                elif isinstance(res, dict):
                    arrs = [np.asarray(res[b.all_nodes()[i].name]) for i in mouts]
                else:
                    arrs = [np.asarray(res)]
                if arrs is not None:
                    T = arrs[0].reshape(-1, arrs[0].shape[-1]).shape[0]
                    arrs = [a.reshape(T, -1) for a in arrs]
                    outs = [[a[t].tolist() for a in arrs] for t in range(T)]
        except Exception as e:  # noqa: BLE001 - every exception class is an observable outcome here
            ok = False
            err = type(e).__name__
        else:
            err = None
        states = {}
        for i, n in b.all_nodes().items():
            s = n.state() if getattr(n, "is_initialized", False) else None
            if s is not None:
                states[i] = np.asarray(s, dtype=float).ravel().tolist()
        # make sure inserted Concat nodes are registered before states are collected next time
        for mi in range(len(b.models)):
            b.model_struct(mi)
        obs.append({"ok": ok, "err": err, "outs": outs, "outs_seq": (outs_seq if (o["op"] == "runs" and ok) else None), "states": states, "rest": at_rest(b),
                    "shapes": {i: list(np.shape(n.state())) for i, n in b.all_nodes().items()
                               if getattr(n, "is_initialized", False) and n.state() is not None}})
    return b, obs


# ------------------------------------------------------------------------------------------ printing Gallina
def kind_term(nd):
    k = nd["kind"]
    if k == "fun":
        return "(KFun %s %s)" % (q(nd["a"]), q(nd["b"]))
    if k == "acc":
        return "KAcc"
    if k in ("input", "output", "concat"):
        return "KId"
    if k in ("res", "resext"):
        return "(%s %s %s %s %s %s)" % ("KRes" if k == "res" else "KResExt", qmat(nd["W"]), qmat(nd["Win"]), qvec(nd["bias"]),
                                        qvec(nd["lr"]), ACTK[nd["act"]])
    if k == "resfb":
        return "(KResFb %s %s %s %s %s %s %s)" % (qmat(nd["W"]), qmat(nd["Win"]), qvec(nd["bias"]), qvec(nd["lr"]), ACTK[nd["act"]],
                                                  qmat(nd["Wfb"]), ACTK[nd["fbact"]])
    if k == "lin":
        return "(KLin %s %s)" % (qmat(nd["Wout"]), qvec(nd["bias"]))
    if k == "fbadd":
        return "(KFbAdd %s)" % q(nd["c"])
    if k == "delay":
        return "KDelay"
    if k == "nvar":
        return "(KNvar %s %s)" % (nat(nd["order"]), nat(nd["strides"]))
    if k == "boom":
        return "(KBoom %s)" % nat(nd["k"])
    raise ValueError(k)


def hid_term(nd):
    k = nd["kind"]
    if k == "resext":
        return qmat([[0] * len(nd["W"])])
    if k == "delay":
        return qmat([[0] * nd["idim"]] * nd["delay"])
    if k == "nvar":
        return qmat([[0] * nd["idim"]] * (nd["delay"] * nd["strides"]))
    if k == "boom":
        return "[[0]]"
    return "[]"


def fb_term(nd, b):
    fb = nd.get("fb")
    if fb is None:
        return "None"
    if "node" in fb:
        return "(Some (FbNode %s))" % nat(fb["node"])
    return "(Some (FbModel %s))" % coqlist([nat(i) for i in fb["model"]["outs"]])


def pairs(d, f):
    return coqlist(["(%s, %s)" % (nat(int(i)), f(v)) for i, v in sorted(d.items(), key=lambda p: int(p[0]))])


def to_coq(sc, b, obs):
    nodes = []
    for nd in sc["nodes"]:
        nodes.append("mkSN %s %s %s %s %s" % (nat(nd["id"]), kind_term(nd), fb_term(nd, b), nat(nd["odim"]), hid_term(nd)))
    models = []
    for mi in range(len(b.models)):
        order, parents, outs = b.model_struct(mi)
        models.append("mkSM %s %s %s" % (coqlist([nat(i) for i in order]),
                                         coqlist(["(%s, %s)" % (nat(c), coqlist([nat(p) for p in ps])) for c, ps in sorted(parents.items())]),
                                         coqlist([nat(i) for i in outs])))
    # inserted Concat nodes: identity on the gathered input; output dim = sum of the parents' dims
    odim = {nd["id"]: nd["odim"] for nd in sc["nodes"]}
    for mi in range(len(b.models)):
        order, parents, outs = b.model_struct(mi)
        for i in order:
            if i >= 1000 and i not in odim:
                odim[i] = sum(odim.get(p, 0) for p in parents.get(i, []))
                nodes.append("mkSN %s KId None %s []" % (nat(i), nat(odim[i])))
    ops = []
    zero_states = {nd["id"]: [0] * nd["odim"] for nd in sc["nodes"]}
    prev_states = dict(zero_states)
    for o, ob in zip(sc["ops"], obs):
        if o["op"] == "runs":
            # a run over a list of sequences is, for a Model, the same operation applied to every sequence in turn (same flags);
            # for the ESN node every sequence starts from the state found at the start and the last one's final state is kept
            if not ob["ok"] or ob.get("outs_seq") is None:
                ops.append("(OpReset 0%nat, mkObs false [] [] None)")     # a valid multi-sequence run failed: disagreement
                continue
            order, parents, outs_ids = b.model_struct(o["model"])
            entries = [i for i in order if not parents.get(i)]
            is_esn = sc["models"][o["model"]].get("build") == "esn"
            K = len(o["Xs"])
            for k in range(K):
                steps = [pairs({i: row for i in entries}, qvec) for row in o["Xs"][k]]
                fbk = {i: seqs[k] for i, seqs in (o.get("fbs") or {}).items()}
                given = dict(o.get("from_state") or {})
                stateful_k, reset_k = o.get("stateful", True), o.get("reset", False)
                if is_esn:
                    if not reset_k:
                        full = {str(i): prev_states[i] for i in order}
                        full.update(given)
                        given = full
                    if k < K - 1:
                        stateful_k = False
                t = "OpRun %s %s %s %s %s %s %s" % (nat(o["model"]), coqbool(stateful_k), coqbool(reset_k), pairs(given, qvec), coqlist(steps),
                                                    coqbool(o.get("shift_fb", True)), pairs(fbk, qmat))
                last = k == K - 1
                obt = "mkObs true %s %s %s" % (coqlist([qmat(step) for step in ob["outs_seq"][k]]), pairs(ob["states"], qvec) if last else "[]",
                                                "None" if (not last or ob.get("rest") is None) else "(Some %s)" % coqbool(ob["rest"]))
                ops.append("(%s, %s)" % (t, obt))
            prev_states = dict(zero_states); prev_states.update({int(i): v for i, v in ob["states"].items()})
            continue
        prev_states = dict(zero_states); prev_states.update({int(i): v for i, v in ob["states"].items()})
        if o["op"] == "reset":
            t = "OpReset %s" % nat(o["model"])
        else:
            order, parents, outs = b.model_struct(o["model"])
            entries = [i for i in order if not parents.get(i)]
            fs = pairs(o.get("from_state") or {}, qvec) if hasattr(b.models[o["model"]], "nodes") else \
                pairs({order[0]: list((o.get("from_state") or {}).values())[0]} if o.get("from_state") else {}, qvec)
            if o["op"] == "run":
                X = o["X"]
                if isinstance(X, dict):
                    T = len(next(iter(X.values())))
                    steps = [pairs({i: rows[t] for i, rows in X.items()}, qvec) for t in range(T)]
                else:
                    steps = [pairs({i: row for i in entries}, qvec) for row in X]
                t = "OpRun %s %s %s %s %s %s %s" % (nat(o["model"]), coqbool(o.get("stateful", True)), coqbool(o.get("reset", False)), fs,
                                                    coqlist(steps), coqbool(o.get("shift_fb", True)), pairs(o.get("fb") or {}, qmat))
            else:
                x = o["x"]
                xs = pairs(x if isinstance(x, dict) else {i: x for i in entries}, qvec)
                t = "OpCall %s %s %s %s %s %s" % (nat(o["model"]), coqbool(o.get("stateful", True)), coqbool(o.get("reset", False)), fs, xs,
                                                  pairs(o.get("fb") or {}, qvec))
        rest = ob.get("rest")      # None: not observed by this harness (the model's at-rest prediction is then not compared)
        obt = "mkObs %s %s %s %s" % (coqbool(ob["ok"]), coqlist([qmat(step) for step in ob["outs"]]), pairs(ob["states"], qvec),
                                     "None" if rest is None else "(Some %s)" % coqbool(rest))
        ops.append("(%s, %s)" % (t, obt))
    return "chk_hist_both %s %s %s" % (coqlist(nodes), coqlist(models), coqlist(ops))


def jsonable(x):
    import json
    return json.loads(json.dumps(x, default=str))
