"""Tie (T) for the legacy (v0.2) ESN kernels of C16: reservoirpy/compat/_base.py  _ESNBase._get_next_state  and
_ESNBase.compute_outputs  ->  coq/gen/Gen_legacy.v.

The unit is translated by vlib/py2coq_la.py (imported, untouched).  What the legacy code needs beyond the v0.3 kernels is added
here, in a subclass of its function translator, each item fail-closed:

  * the functions are METHODS of a class (`_ESNBase._get_next_state`): they are looked up inside the class body, the node object is
    the parameter `self`;
  * `self.W`, `self.Win`, `self.Wfb`, `self.Wout` are PROPERTIES: the unit declares them as fields and `check_properties` verifies that
    each getter is exactly `return self._<name>`, and that `__init__` stores the checked constructor argument there;
  * `self.activation(v)` / `self.fbfunc(v)`: a field of kind FN applied to one vector;
  * `np.asarray(v, dtype=self.typefloat)`: the dtype keyword is accepted when it is one of the unit's float dtypes;
  * `noise_generator.uniform(-1, 1, size=<array>.shape)`: one oracle draw per call site, of the shape (orientation) of <array>; the
    call text must be one of the function's declared draws and is used at most once (bounds other than -1, 1 are rejected);
  * `outputs = [None] * len(seqs)` ... `for i, s in enumerate(seqs): <straight-line body>; outputs[i] = y`: the list of the bodies'
    values, `map (fun s => ...) seqs`  (compute_outputs; `i` may not be used for anything else).

`pregen()` writes coq/gen/Gen_legacy.v (a stub that does not compile when the translation is rejected: no stale model survives).
"""
import ast
import os
import traceback

from vlib import core, py2coq_la
from vlib.py2coq_la import S, B, N, M, FN, OPQ, NONE, V, T, Reject, Val, _where
from vlib.la_specs import ADD_BIAS_PINNED

_BASE = "reservoirpy/compat/_base.py"
LISTM = ("LISTM",)          # a Python list of (T, d) arrays

LEGACY = {
    "module": "GenLegacy", "out": "Gen_legacy.v",
    "class": "_ESNBase",
    "fields": {"W": M, "Win": M, "Wfb": M, "Wout": M, "_input_bias": B, "lr": S, "activation": FN, "fbfunc": FN,
               "noise_in": S, "noise_rc": S, "noise_out": S, "typefloat": OPQ, "has_fb": B, "has_wout": B, "N": OPQ},
    # `self.Wfb is not None` / `self.Wout is not None`: the optional matrices are a boolean ("is given") plus the matrix
    "bool_exprs": {"self.Wfb is not None": "has_fb", "self.Wout is not None": "has_wout"},
    "properties": {"W": "_W", "Win": "_Win", "Wfb": "_Wfb", "Wout": "_Wout"},
    "float_dtypes": ["self.typefloat", "np.float64", "float", "global_dtype"],
    "oracles": [("xi_in", "list F"), ("xi_rc", "list F"), ("xi_fb", "list F")],
    "functions": [
        {"name": "add_bias", "file": "reservoirpy/utils/validation.py", "pinned": ADD_BIAS_PINNED, "prim": "add_bias_row",
         "params": {"X": V("row")}, "ret": V("row")},
        {"name": "_get_next_state", "file": _BASE, "coqname": "get_next_state", "objects": ["self"],
         "params": {"self": "OBJ", "single_input": V("flat"), "feedback": V("row"), "last_state": V("row"), "noise_generator": ("DRAWFN",)},
         "draws": {"noise_generator.uniform(-1, 1, size=u.shape)": "xi_in",
                   "noise_generator.uniform(-1, 1, size=x.shape)": "xi_rc",
                   "noise_generator.uniform(-1, 1, size=feedback.shape)": "xi_fb"}},
    ],
}

# compute_outputs works on (T, N) arrays: add_bias is the matrix primitive there, hence a second unit (same output file)
LEGACY_OUT = {
    "module": "GenLegacyOut", "out": "Gen_legacy.v",
    "class": "_ESNBase",
    "fields": LEGACY["fields"], "bool_exprs": LEGACY["bool_exprs"], "properties": LEGACY["properties"],
    "float_dtypes": LEGACY["float_dtypes"],
    "functions": [
        {"name": "add_bias", "file": "reservoirpy/utils/validation.py", "pinned": ADD_BIAS_PINNED, "prim": "add_bias_mat",
         "params": {"X": M}, "ret": M},
        {"name": "compute_outputs", "file": _BASE, "objects": ["self"], "raises": True,
         "params": {"self": "OBJ", "states": LISTM, "verbose": B},
         # validation of the argument (a single array is wrapped in a list; dimensions compared with N) and the verbose trace
         "skip": ["states, _ = check_input_lists(states, self.N)",
                  "if verbose:\n    print('Computing outputs...')\n    tic = time.time()",
                  "if verbose:\n    toc = time.time()\n    print(f'Outputs computed! (in {toc - tic}sec)')"]},
    ],
}


class LegacyFnTr(py2coq_la.FnTr):
    """py2coq_la.FnTr + the legacy vocabulary listed in the module docstring."""

    def __init__(self, unit, fspec, fndef, summaries):
        super().__init__(unit, fspec, fndef, summaries)
        self.used_sites = set()

    # ---- calls
    def e_Call(self, e):
        f = e.func
        # noise_generator.uniform(-1, 1, size=<array>.shape)
        if isinstance(f, ast.Attribute) and isinstance(f.value, ast.Name) and f.value.id in self.env \
                and self.env[f.value.id].kind == ("DRAWFN",):
            txt = ast.unparse(e)
            draws = self.fs.get("draws", {})
            if f.attr != "uniform" or [ast.unparse(a) for a in e.args] != ["-1", "1"] or len(e.keywords) != 1 or e.keywords[0].arg != "size":
                raise Reject("%s: the generator must be called as <rng>.uniform(-1, 1, size=<array>.shape), got %s" % (_where(e), txt))
            sh = e.keywords[0].value
            if not (isinstance(sh, ast.Attribute) and sh.attr == "shape"):
                raise Reject("%s: size= must be <array>.shape" % _where(e))
            arr = self.expr(sh.value)
            if arr.kind[0] != "V":
                raise Reject("%s: a draw of the shape of a value of kind %s" % (_where(e), arr.kind))
            if txt not in draws:
                raise Reject("%s: %s is not a declared draw of this function" % (_where(e), txt))
            if txt in self.used_sites:
                raise Reject("%s: a second draw %s" % (_where(e), txt))
            self.used_sites.add(txt)
            return Val(arr.kind, draws[txt], True)
        # self.activation(v) / self.fbfunc(v)
        if isinstance(f, ast.Attribute) and self.obj_name(f.value) and self.u["fields"].get(f.attr) == FN:
            if len(e.args) != 1 or e.keywords:
                raise Reject("%s: %s must be applied to one vector" % (_where(e), ast.unparse(f)))
            fv = self.field(f.attr, e)
            v = self.expr(e.args[0])
            if v.kind[0] != "V":
                raise Reject("%s: %s applied to kind %s" % (_where(e), ast.unparse(f), v.kind))
            return Val(v.kind, "%s %s" % (fv.text, v.p()), True)
        return super().e_Call(e)

    def np_call(self, mod, a, e):
        if mod == "np" and a == "asarray" and len(e.args) == 1 and e.keywords:
            self.kw(e, {"dtype"})                      # rejects a dtype that is not one of the unit's float dtypes
            e2 = ast.copy_location(ast.Call(func=e.func, args=e.args, keywords=[]), e)
            return super().np_call(mod, a, e2)
        return super().np_call(mod, a, e)

    # ---- statements: the list-building loop of compute_outputs
    def block(self, stmts, k):
        if len(stmts) >= 2 and self._is_list_alloc(stmts[0]) and isinstance(stmts[1], ast.For):
            return self.map_loop(stmts[0], stmts[1], stmts[2:], k)
        return super().block(stmts, k)

    def _is_list_alloc(self, s):
        """outputs = [None] * len(<list>)"""
        if not (isinstance(s, ast.Assign) and len(s.targets) == 1 and isinstance(s.targets[0], ast.Name)):
            return False
        v = s.value
        return isinstance(v, ast.BinOp) and isinstance(v.op, ast.Mult) and ast.unparse(v.left) == "[None]" \
            and isinstance(v.right, ast.Call) and isinstance(v.right.func, ast.Name) and v.right.func.id == "len" \
            and len(v.right.args) == 1 and not v.right.keywords and isinstance(v.right.args[0], ast.Name)

    def map_loop(self, alloc, loop, rest, k):
        out = alloc.targets[0].id
        src = alloc.value.right.args[0].id
        sv = self.expr(alloc.value.right.args[0])
        if sv.kind != LISTM:
            raise Reject("%s: [None] * len(%s) where %s has kind %s" % (_where(alloc), src, src, sv.kind))
        it, tg = loop.iter, loop.target
        if loop.orelse or not (isinstance(it, ast.Call) and isinstance(it.func, ast.Name) and it.func.id == "enumerate" and not it.keywords
                               and len(it.args) == 1 and isinstance(it.args[0], ast.Name) and it.args[0].id == src):
            raise Reject("%s: the loop after `%s = [None] * len(%s)` must be `for i, s in enumerate(%s):`" % (_where(loop), out, src, src))
        if not (isinstance(tg, ast.Tuple) and len(tg.elts) == 2 and all(isinstance(t, ast.Name) for t in tg.elts)):
            raise Reject("%s: loop target %s" % (_where(loop), ast.unparse(tg)))
        i, s = tg.elts[0].id, tg.elts[1].id
        if i in self.env or s in self.env or out in self.env or i in py2coq_la.RESERVED or s in py2coq_la.RESERVED:
            raise Reject("%s: loop variables shadow another name" % _where(loop))
        body = list(loop.body)
        last = body[-1] if body else None
        if not (isinstance(last, ast.Assign) and len(last.targets) == 1 and ast.unparse(last.targets[0]) == "%s[%s]" % (out, i)
                and isinstance(last.value, ast.Name)):
            raise Reject("%s: the loop body must end with `%s[%s] = <name>`" % (_where(loop), out, i))
        for st in body:
            for n in ast.walk(st):
                if isinstance(n, ast.Name) and n.id == i and n is not last.targets[0].slice:
                    raise Reject("%s: the loop index %r is used for something else than the slot written" % (_where(n), i))
                if isinstance(n, ast.Name) and n.id == out and n is not last.targets[0].value:
                    raise Reject("%s: the list being built is read inside the loop" % _where(n))
        saved = dict(self.env)
        self.env[s] = Val(M, s, False)
        res = {}

        def tail():
            v = self.expr(last.value)
            res["kind"] = v.kind
            return v.text
        btxt = super().block(body[:-1], tail)
        if res.get("kind") != M:
            raise Reject("%s: the loop stores values of kind %s" % (_where(last), res.get("kind")))
        self.env = saved
        self.env[out] = Val(LISTM, out, True)
        return "let %s := map (fun %s =>\n  %s) %s in\n  %s" % (out, s, btxt, sv.p(), self.block(rest, k))


def coqtype(k):
    if k == LISTM:
        return "list (list (list F))"
    return _coqtype0(k)


_coqtype0 = py2coq_la.coqtype


def find_method(cls):
    def find(tree, name):
        top = py2coq_la_find(tree, name)
        if top is not None:
            return top
        for n in tree.body:
            if isinstance(n, ast.ClassDef) and n.name == cls:
                hits = [m for m in n.body if isinstance(m, ast.FunctionDef) and m.name == name]
                if len(hits) == 1:
                    return hits[0]
        return None
    return find


py2coq_la_find = py2coq_la.find_function


def check_properties(repo, unit):
    """`self.W` ... are properties of the class: each getter must be exactly `return self._W`, and __init__ must store the checked
    constructor arguments there, nothing else (`self._W = W`)."""
    tree = ast.parse(open(os.path.join(repo, _BASE)).read())
    cls = [n for n in tree.body if isinstance(n, ast.ClassDef) and n.name == unit["class"]]
    if len(cls) != 1:
        raise Reject("%s: class %s not found" % (_BASE, unit["class"]))
    cls = cls[0]
    for prop, attr in unit["properties"].items():
        getters = [m for m in cls.body if isinstance(m, ast.FunctionDef) and m.name == prop
                   and [ast.unparse(d) for d in m.decorator_list] == ["property"]]
        if len(getters) != 1:
            raise Reject("%s: %s.%s is not a single @property" % (_BASE, unit["class"], prop))
        body = py2coq_la._strip_doc(getters[0].body)
        if [ast.unparse(b) for b in body] != ["return self.%s" % attr]:
            raise Reject("%s: property %s.%s is no longer `return self.%s`" % (_BASE, unit["class"], prop, attr))
    init = [m for m in cls.body if isinstance(m, ast.FunctionDef) and m.name == "__init__"]
    if len(init) != 1:
        raise Reject("%s: %s.__init__ not found" % (_BASE, unit["class"]))
    stores = {}
    for n in ast.walk(init[0]):
        if isinstance(n, ast.Assign) and len(n.targets) == 1 and isinstance(n.targets[0], ast.Attribute) \
                and isinstance(n.targets[0].value, ast.Name) and n.targets[0].value.id == "self":
            stores.setdefault(n.targets[0].attr, []).append(ast.unparse(n.value))
    want = {"_W": ["W"], "_Win": ["Win"], "_Wfb": ["Wfb"], "_Wout": ["Wout"], "lr": ["lr"], "activation": ["activation"],
            "fbfunc": ["fbfunc"], "_input_bias": ["input_bias"], "noise_in": ["noise_in"], "noise_rc": ["noise_rc"],
            "noise_out": ["noise_out"]}
    for a, v in want.items():
        if stores.get(a) != v:
            raise Reject("%s: %s.__init__ stores %s into self.%s, expected %s" % (_BASE, unit["class"], stores.get(a), a, v))


def emit(repo):
    """-> text of coq/gen/Gen_legacy.v (both units)"""
    saved = (py2coq_la.FnTr, py2coq_la.find_function, py2coq_la.coqtype)
    py2coq_la.FnTr, py2coq_la.find_function, py2coq_la.coqtype = LegacyFnTr, find_method(LEGACY["class"]), coqtype
    try:
        check_properties(repo, LEGACY)
        a = py2coq_la.emit_unit(repo, LEGACY)
        b = py2coq_la.emit_unit(repo, LEGACY_OUT)
    finally:
        py2coq_la.FnTr, py2coq_la.find_function, py2coq_la.coqtype = saved
    # the second unit: drop its header (comment + imports), keep the module
    b = b[b.index("Module GenLegacyOut."):]
    head = ("(* Legacy (v0.2) ESN kernels: unit declarations and the extra vocabulary are in tools/vlib/la_specs_legacy.py.  `self.W`, `self.Win`,\n"
            "   `self.Wfb`, `self.Wout` are properties checked to return the arrays stored by __init__; o_has_fb / o_has_wout stand for\n"
            "   `self.Wfb is not None` / `self.Wout is not None`; xi_in / xi_rc / xi_fb are the three uniform(-1, 1) draws of one step. *)\n")
    return head + a + b


def pregen():
    """Regenerate coq/gen/Gen_legacy.v from the tree under test.  Returns None, or the error text (the tie is broken)."""
    path = os.path.join(core.COQ, "gen", LEGACY["out"])
    os.makedirs(os.path.dirname(path), exist_ok=True)
    err = None
    try:
        text = emit(core.REPO)
    except Reject as ex:
        err = "translation rejected: %s" % ex
    except Exception:
        err = "translator exception: " + traceback.format_exc()[-1500:]
    if err is not None:
        text = "(* GENERATED: translation of unit legacy FAILED -- %s *)\nDefinition translation_failed : True := 0.\n" % (
            err.replace("*)", "* )").replace("(*", "( *"))
    old = open(path).read() if os.path.exists(path) else None
    if old != text:               # keep the mtime (and the compiled cone) when nothing changed
        with open(path, "w") as f:
            f.write(text)
    return None if err is None else "unit legacy (compat/_base.py _get_next_state, compute_outputs): %s" % err


if __name__ == "__main__":
    import sys
    print(emit(sys.argv[1] if len(sys.argv) > 1 else core.REPO))
