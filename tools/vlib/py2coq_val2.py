"""Fail-closed translator, second unit of tie (T) of property C12:  reservoirpy/_base.py :: register_teacher, _check_node_io, check_xy
-> coq/gen/Gen_validation2.v over coq/base/ValPrelude2.v (node objects, dicts keyed by node names, the one mutation caller._teacher = ..)
and, for the data checks they call, coq/gen/Gen_validation.v (check_n_sequences as translated by py2coq_val.py).

It reuses the helpers of py2coq_val.py (Reject, load, the message-only statements, the exception table, the cosmetic indenter) but has its
own walker, because these functions need another vocabulary and another monad:
  * every function runs in  M A = heap -> heap * res A  (ValPrelude2): `raise X` is mraise X, `return e` is mret e, an operation that can
    raise is an `mbind (mlift ..)`, a call of a translated function an `mbind`; the mutation is ValPrelude2.set_teacher.
  * kinds: PYVAL (None | data | dict) | DATA | MAP (dict name -> data) | OBJ (None | int | tuple) | BOOL | INT | NODE | NODES | OPTNODES |
    CALLER | IOTYPE | NONE (the constant None, kind known statically) | UNIT | OPAQUE.  A variable has ONE kind on each path: an `if` never
    joins -- the statements after it are translated once per branch (the functions are short) -- so no kind is ever guessed at a join.
  * statements: x = e | m[k] = e (m a dict) | call statement of a translated function | if / elif / else | for node in <list of nodes>
    (state = the variables the body rebinds that exist before the loop; `continue` and the end of the body return the state) | raise |
    return | continue | message-only statements | the PINNED statement  caller._teacher = DistantFeedback(sender=teacher, receiver=caller,
    callback_type="teacher")  (compared textually) which is set_teacher caller teacher.
  * expressions: names, None / True / False, node.name / .fitted / .is_trained_online / .input_dim / .output_dim, the same on the caller
    (partial: caller_*), teacher.is_initialized / .output_dim on data, `is None`, ==, != on dimensions, io_type == "input" | "target",
    k in m / k not in m, m[k], m.pop(k) (rebinds m), x.copy() and len(x) under an established is_mapping(x), is_mapping, hasattr(caller, <one
    of four names>), {n.name: v for n in nodes}, and / or / not, and the PINNED four-fold test
        callable(E) and hasattr(E, "initialize") and hasattr(E, "is_initialized") and hasattr(E, "output_dim")       (same E four times)
    which is is_node E.  Later operands of and / or must not be able to raise.
Anything else raises Reject.  It never guesses.
"""
import ast
import os

from vlib import py2coq_val as V1
from vlib.py2coq_val import Reject, _where, _strip_doc, _is_name, _is_none, _atom, _indent, EXN

VERSION = "py2coq_val2 1"
_B = "reservoirpy/_base.py"

SPECS = [
    {"name": "register_teacher", "coq": "register_teacher", "file": _B,
     "params": [("caller", "CALLER"), ("teacher", "DATA"), ("expected_dim", "OBJ")], "ret": "UNIT", "msgvars": []},
    {"name": "_check_node_io", "coq": "check_node_io", "file": _B,
     "params": [("x", "PYVAL"), ("receiver_nodes", "OPTNODES"), ("expected_dim", "OBJ"), ("caller", "CALLER"), ("io_type", "IOTYPE"),
                ("allow_n_sequences", "BOOL"), ("allow_n_inputs", "BOOL"), ("allow_timespans", "BOOL")],
     "ret": "PYVAL", "msgvars": ["noteacher_msg", "notonline_msg"]},
    {"name": "check_xy", "coq": "check_xy", "file": _B,
     "params": [("caller", "CALLER"), ("x", "PYVAL"), ("y", "PYVAL"), ("input_dim", "OBJ"), ("output_dim", "OBJ"),
                ("allow_n_sequences", "BOOL"), ("allow_n_inputs", "BOOL"), ("allow_timespans", "BOOL")],
     "ret": "PAIR", "msgvars": []},
]
# translated elsewhere (py2coq_val.py -> Gen_validation.v, in `res`): signature checked against the source here as well
EXTERNAL = [s for s in V1.SPECS if s["name"] == "check_n_sequences"]

COQTYPE = {"PYVAL": "pyval", "DATA": "data", "MAP": "(list (nat * data))", "OBJ": "pyobj", "BOOL": "bool", "INT": "nat", "NODE": "pynode",
           "NODES": "(list pynode)", "OPTNODES": "(option (list pynode))", "CALLER": "pycaller", "IOTYPE": "iotype", "UNIT": "unit",
           "PAIR": "(pyval * pyval)", "NONE": "unit"}

PINNED_SET_TEACHER = "caller._teacher = DistantFeedback(sender=teacher, receiver=caller, callback_type='teacher')"
NODE_ATTRS = ("initialize", "is_initialized", "output_dim")
CALLER_HAS = ("input_dim", "output_dim", "input_nodes", "trainable_nodes")

RESERVED = V1.RESERVED | set("""pynode pymodel pycaller pyval iotype IoInput IoTarget iotype_eqb heap M mret mraise mlift mbind for_nodes val_data
val_is_none is_mapping map_copy val_len map_mem map_get map_set map_remove map_pop dict_comp teacher_is_initialized teacher_output_dim
caller_has_input_dim caller_has_output_dim caller_has_input_nodes caller_has_trainable_nodes caller_input_dim caller_output_dim
caller_input_nodes caller_trainable_nodes caller_is_trained_online with_teacher set_teacher VNone VData VMap CNode CModel Some None
register_teacher check_node_io check_xy check_n_sequences Gen_validation fst snd""".split())


class Val:
    def __init__(self, kind, text, static=None, facts=()):
        self.kind, self.text, self.static, self.facts = kind, text, static, tuple(facts)

    def p(self):
        return _atom(self.text)


class Env:
    def __init__(self):
        self.vars, self.facts = {}, set()

    def copy(self):
        e = Env()
        e.vars, e.facts = dict(self.vars), set(self.facts)
        return e

    def bind(self, name, kind, facts=()):
        e = self.copy()
        e.facts = {f for f in e.facts if f[0] != name}
        e.vars[name] = kind
        for f in facts:
            e.facts.add((name, f))
        return e

    def with_facts(self, facts):
        e = self.copy()
        e.facts |= set(facts)
        return e


class Ctx:
    """monadic binds collected while translating one expression, in evaluation order: (pattern, M-term, rebinds) where rebinds is a list of
    (python variable, kind) the pattern shadows (m.pop(k) rebinds m)"""

    def __init__(self):
        self.binds = []

    def wrap(self, inner):
        for pat, text, _ in reversed(self.binds):
            inner = "mbind (%s) (fun %s =>\n%s)" % (text, pat, inner)
        return inner

    def apply(self, env):
        for _, _, reb in self.binds:
            for name, kind in reb:
                env = env.bind(name, kind)
        return env


def _terminates(block):
    if not block:
        return False
    s = block[-1]
    if isinstance(s, (ast.Raise, ast.Return, ast.Continue)):
        return True
    if isinstance(s, ast.If) and s.orelse:
        return _terminates(s.body) and _terminates(s.orelse)
    return False


def _rebound(stmts):
    """names (re)bound by the statements: x = .., m[k] = .., m.pop(..); a loop variable is local.  Unknown forms are rejected."""
    names = []

    def walk(n):
        if isinstance(n, ast.Assign):
            for t in n.targets:
                if isinstance(t, ast.Name):
                    names.append(t.id)
                elif isinstance(t, ast.Subscript) and isinstance(t.value, ast.Name):
                    names.append(t.value.id)
                elif isinstance(t, ast.Attribute):
                    pass                                   # only the pinned statement gets through block()
                else:
                    raise Reject("%s: assignment target not understood" % _where(n))
        elif isinstance(n, (ast.AugAssign, ast.AnnAssign, ast.NamedExpr, ast.Delete, ast.Global, ast.Nonlocal, ast.With, ast.Try,
                            ast.While, ast.Import, ast.ImportFrom, ast.FunctionDef, ast.Lambda, ast.Yield, ast.Await, ast.Break)):
            raise Reject("%s: statement/expression form %s is not translated" % (_where(n), type(n).__name__))
        elif isinstance(n, ast.Call) and isinstance(n.func, ast.Attribute) and n.func.attr in ("pop", "update", "clear", "setdefault",
                                                                                              "popitem", "append", "remove", "insert"):
            if isinstance(n.func.value, ast.Name):
                names.append(n.func.value.id)
            else:
                raise Reject("%s: mutating method on something that is not a variable" % _where(n))
        for c in ast.iter_child_nodes(n):
            walk(c)

    for s in stmts:
        walk(s)
    out = []
    for x in names:
        if x not in out:
            out.append(x)
    return out


class FnTr:
    def __init__(self, spec, fn, fns, specs):
        self.spec, self.fn, self.fns, self.specs = spec, fn, fns, specs
        self.n = 0
        self._msg = V1.FnTr(spec, fn, fns, specs)           # message-only statements: the same rules as the first unit

    def fresh(self):
        self.n += 1
        return "t%d" % self.n

    def check_name(self, name, node):
        if name in RESERVED or (name.startswith("t") and name[1:].isdigit()):
            raise Reject("%s: the name %s clashes with the vocabulary" % (_where(node), name))

    # ------------------------------------------------------------------------------------------ coercions
    def coerce(self, v, kind, node):
        if v.kind == kind:
            return v.p()
        k = (v.kind, kind)
        if k == ("NONE", "PYVAL"):
            return "VNone"
        if k == ("NONE", "OBJ"):
            return "PNone"
        if k == ("NONE", "OPTNODES"):
            return "None"
        if k == ("NODES", "OPTNODES"):
            return "(Some %s)" % v.p()
        if k == ("DATA", "PYVAL"):
            return "(VData %s)" % v.p()
        if k == ("MAP", "PYVAL"):
            return "(VMap %s)" % v.p()
        if k == ("PYVAL", "DATA"):
            return "(val_data %s)" % v.p()
        if k == ("NODE", "CALLER"):
            return "(CNode %s)" % v.p()
        if k == ("INT", "OBJ"):
            return "(PInt %s)" % v.p()
        raise Reject("%s: kind %s where %s is expected" % (_where(node), v.kind, kind))

    # ------------------------------------------------------------------------------------------ expressions
    def pure(self, node, env, what):
        c2 = Ctx()
        v = self.ex(node, env, c2)
        if c2.binds:
            raise Reject("%s: %s that can raise / mutate is evaluated lazily: not translated" % (_where(node), what))
        return v

    def ex(self, node, env, ctx):
        if isinstance(node, ast.Constant):
            if node.value is True or node.value is False:
                return Val("BOOL", "true" if node.value else "false", static=node.value)
            if node.value is None:
                return Val("NONE", "tt")
            if isinstance(node.value, int) and node.value >= 0:
                return Val("INT", str(node.value))
            if isinstance(node.value, str) and node.value in ("input", "target"):
                return Val("IOTYPE", "IoInput" if node.value == "input" else "IoTarget")
            raise Reject("%s: literal %r" % (_where(node), node.value))
        if isinstance(node, ast.Name):
            if node.id not in env.vars:
                raise Reject("%s: unknown or undefined name %s" % (_where(node), node.id))
            k = env.vars[node.id]
            if k == "OPAQUE":
                raise Reject("%s: `%s` is used outside a message" % (_where(node), node.id))
            if k == "NONE":
                return Val("NONE", "tt")
            return Val(k, node.id, facts=[f for (n, f) in env.facts if n == node.id])
        if isinstance(node, ast.Attribute):
            return self.attribute(node, env, ctx)
        if isinstance(node, ast.Subscript):
            m = self.ex(node.value, env, ctx)
            k = self.ex(node.slice, env, ctx)
            if m.kind == "MAP" and k.kind == "INT":
                t = self.fresh()
                ctx.binds.append((t, "mlift (map_get %s %s)" % (m.p(), k.p()), []))
                return Val("DATA", t)
            raise Reject("%s: indexing kind %s with kind %s" % (_where(node), m.kind, k.kind))
        if isinstance(node, ast.UnaryOp) and isinstance(node.op, ast.Not):
            v = self.ex(node.operand, env, ctx)
            if v.kind != "BOOL":
                raise Reject("%s: `not` of kind %s" % (_where(node), v.kind))
            if v.static is not None:
                return Val("BOOL", "false" if v.static else "true", static=not v.static)
            return Val("BOOL", "negb %s" % v.p())
        if isinstance(node, ast.BoolOp):
            return self.boolop(node, env, ctx)
        if isinstance(node, ast.Compare):
            return self.compare(node, env, ctx)
        if isinstance(node, ast.Call):
            return self.call(node, env, ctx)
        if isinstance(node, ast.DictComp):
            return self.dictcomp(node, env, ctx)
        raise Reject("%s: expression form %s is not translated" % (_where(node), type(node).__name__))

    def attribute(self, node, env, ctx):
        v = self.ex(node.value, env, ctx)
        a = node.attr
        if v.kind == "NODE":
            tbl = {"name": ("INT", "pn_name"), "fitted": ("BOOL", "pn_fitted"), "is_trained_online": ("BOOL", "pn_online"),
                   "input_dim": ("OBJ", "pn_input_dim"), "output_dim": ("OBJ", "pn_output_dim")}
            if a in tbl:
                return Val(tbl[a][0], "%s %s" % (tbl[a][1], v.p()))
        if v.kind == "CALLER":
            tbl = {"is_trained_online": "BOOL", "input_dim": "OBJ", "output_dim": "OBJ", "input_nodes": "NODES", "trainable_nodes": "NODES"}
            if a in tbl:
                t = self.fresh()
                ctx.binds.append((t, "mlift (caller_%s %s)" % (a, v.p()), []))
                return Val(tbl[a], t)
        if v.kind == "DATA":
            tbl = {"is_initialized": ("BOOL", "teacher_is_initialized"), "output_dim": ("OBJ", "teacher_output_dim")}
            if a in tbl:
                t = self.fresh()
                ctx.binds.append((t, "mlift (%s %s)" % (tbl[a][1], v.p()), []))
                return Val(tbl[a][0], t)
        raise Reject("%s: attribute .%s of kind %s" % (_where(node), a, v.kind))

    def is_node_test(self, node):
        """callable(E) and hasattr(E, 'initialize') and hasattr(E, 'is_initialized') and hasattr(E, 'output_dim'): E, else None"""
        if not (isinstance(node, ast.BoolOp) and isinstance(node.op, ast.And) and len(node.values) == 4):
            return None
        c = node.values[0]
        if not (isinstance(c, ast.Call) and _is_name(c.func, "callable") and len(c.args) == 1 and not c.keywords):
            return None
        e = ast.unparse(c.args[0])
        for h, attr in zip(node.values[1:], NODE_ATTRS):
            if not (isinstance(h, ast.Call) and _is_name(h.func, "hasattr") and len(h.args) == 2 and not h.keywords
                    and ast.unparse(h.args[0]) == e and isinstance(h.args[1], ast.Constant) and h.args[1].value == attr):
                raise Reject("%s: a test starting with callable(..) that is not the pinned is-a-node test" % _where(node))
        return c.args[0]

    def boolop(self, node, env, ctx):
        e = self.is_node_test(node)
        if e is not None:
            v = self.ex(e, env, ctx)                         # E is pure up to a raise: evaluating it once or four times is the same
            return Val("BOOL", "is_node %s" % self.coerce(v, "DATA", node))
        is_and = isinstance(node.op, ast.And)
        parts, env2 = [], env
        for j, sub in enumerate(node.values):
            v = self.ex(sub, env2, ctx) if j == 0 else self.pure(sub, env2, "an operand of and/or")
            if v.kind != "BOOL":
                raise Reject("%s: and/or on kind %s" % (_where(sub), v.kind))
            if v.static is not None:
                if v.static == is_and:
                    continue                                 # neutral operand
                return Val("BOOL", "false" if is_and else "true", static=not is_and)      # absorbing; earlier operands are pure or bound
            parts.append(v.p())
            if is_and:
                env2 = env2.with_facts(v.facts)              # facts of an operand hold while the later ones are evaluated
        if not parts:
            return Val("BOOL", "true" if is_and else "false", static=is_and)
        return Val("BOOL", (" && " if is_and else " || ").join(parts))

    def compare(self, node, env, ctx):
        if len(node.ops) != 1:
            raise Reject("%s: chained comparison" % _where(node))
        op, a, b = node.ops[0], node.left, node.comparators[0]
        if isinstance(op, (ast.Is, ast.IsNot)):
            if not _is_none(b):
                raise Reject("%s: `is` with something else than None" % _where(node))
            v = self.ex(a, env, ctx)
            if v.kind == "NONE":
                r = Val("BOOL", "true", static=True)
            elif v.kind in ("NODES", "MAP", "DATA", "NODE", "CALLER"):
                r = Val("BOOL", "false", static=False)
            elif v.kind == "OBJ":
                r = Val("BOOL", "obj_is_none %s" % v.p())
            elif v.kind == "PYVAL":
                r = Val("BOOL", "val_is_none %s" % v.p())
            else:
                raise Reject("%s: `is None` on kind %s" % (_where(node), v.kind))
            if isinstance(op, ast.IsNot):
                r = Val("BOOL", "negb (%s)" % r.text, static=None) if r.static is None else Val("BOOL", "false" if r.static else "true",
                                                                                                static=not r.static)
            return r
        va, vb = self.ex(a, env, ctx), self.ex(b, env, ctx)
        neg = isinstance(op, (ast.NotEq, ast.NotIn))
        if isinstance(op, (ast.Eq, ast.NotEq)):
            if va.kind == "IOTYPE" and vb.kind == "IOTYPE":
                t = "iotype_eqb %s %s" % (va.p(), vb.p())
            elif va.kind == "INT" and vb.kind == "INT":
                t = "%s =? %s" % (va.p(), vb.p())
            elif va.kind in ("OBJ", "NONE", "INT") and vb.kind in ("OBJ", "NONE", "INT"):
                t = "obj_eqb %s %s" % (self.coerce(va, "OBJ", node), self.coerce(vb, "OBJ", node))
            else:
                raise Reject("%s: comparison of kinds %s, %s" % (_where(node), va.kind, vb.kind))
        elif isinstance(op, (ast.In, ast.NotIn)):
            if va.kind == "INT" and vb.kind == "MAP":
                t = "map_mem %s %s" % (va.p(), vb.p())
            else:
                raise Reject("%s: `in` on kinds %s, %s" % (_where(node), va.kind, vb.kind))
        else:
            raise Reject("%s: comparison operator" % _where(node))
        return Val("BOOL", "negb (%s)" % t if neg else t)

    def dictcomp(self, node, env, ctx):
        if len(node.generators) != 1 or node.generators[0].ifs or node.generators[0].is_async or not _is_name(node.generators[0].target):
            raise Reject("%s: comprehension form" % _where(node))
        g = node.generators[0]
        var = g.target.id
        if not (isinstance(node.key, ast.Attribute) and _is_name(node.key.value, var) and node.key.attr == "name"):
            raise Reject("%s: a dict comprehension whose key is not <node>.name" % _where(node))
        if var in {n.id for n in ast.walk(node.value) if isinstance(n, ast.Name)}:
            raise Reject("%s: a dict comprehension whose value depends on the node" % _where(node))
        it = self.ex(g.iter, env, ctx)
        if it.kind != "NODES":
            raise Reject("%s: dict comprehension over kind %s" % (_where(node), it.kind))
        v = self.pure(node.value, env, "the value of a dict comprehension")
        return Val("MAP", "dict_comp %s %s" % (it.p(), self.coerce(v, "DATA", node)))

    def call(self, node, env, ctx):
        f = node.func
        src = ast.unparse(f)
        if src == "is_mapping" and len(node.args) == 1 and not node.keywords:
            v = self.ex(node.args[0], env, ctx)
            if v.kind == "NONE":
                return Val("BOOL", "false", static=False)
            if v.kind in ("PYVAL", "DATA", "MAP"):
                fact = [(node.args[0].id, "mapping")] if isinstance(node.args[0], ast.Name) else []
                return Val("BOOL", "is_mapping %s" % self.coerce(v, "PYVAL", node), facts=fact)
            raise Reject("%s: is_mapping on kind %s" % (_where(node), v.kind))
        if src == "hasattr" and len(node.args) == 2 and not node.keywords and isinstance(node.args[1], ast.Constant):
            v = self.ex(node.args[0], env, ctx)
            if v.kind == "CALLER" and node.args[1].value in CALLER_HAS:
                return Val("BOOL", "caller_has_%s %s" % (node.args[1].value, v.p()))
            raise Reject("%s: hasattr(<%s>, %r)" % (_where(node), v.kind, node.args[1].value))
        if src == "len" and len(node.args) == 1 and not node.keywords:
            v = self.ex(node.args[0], env, ctx)
            if v.kind == "MAP":
                return Val("INT", "length %s" % v.p())
            if v.kind in ("PYVAL", "DATA") and isinstance(node.args[0], ast.Name) and (node.args[0].id, "mapping") in env.facts:
                return Val("INT", "val_len %s" % self.coerce(v, "PYVAL", node))
            raise Reject("%s: len() of kind %s, not established to be a mapping" % (_where(node), v.kind))
        if isinstance(f, ast.Attribute) and isinstance(f.value, ast.Name):
            recv = f.value.id
            if f.attr == "copy" and not node.args and not node.keywords:
                v = self.ex(f.value, env, ctx)
                if v.kind == "PYVAL" and (recv, "mapping") in env.facts:
                    t = self.fresh()
                    ctx.binds.append((t, "mlift (map_copy %s)" % v.p(), []))
                    return Val("MAP", t)
                raise Reject("%s: .copy() of a value not established to be a mapping" % _where(node))
            if f.attr == "pop" and len(node.args) == 1 and not node.keywords:
                if env.vars.get(recv) != "MAP":
                    raise Reject("%s: .pop on kind %s" % (_where(node), env.vars.get(recv)))
                k = self.ex(node.args[0], env, ctx)
                if k.kind != "INT":
                    raise Reject("%s: .pop key of kind %s" % (_where(node), k.kind))
                t = self.fresh()
                ctx.binds.append(("'(%s, %s)" % (t, recv), "mlift (map_pop %s %s)" % (recv, k.p()), [(recv, "MAP")]))
                return Val("DATA", t)
        callee = next((s for s in self.specs + EXTERNAL if s["name"] == src), None)
        if callee is not None:
            return self.call_translated(node, callee, env, ctx)
        raise Reject("%s: call of %s is not translated" % (_where(node), src))

    def call_translated(self, node, callee, env, ctx):
        cfn = self.fns[callee["name"]]
        names = [p for p, _ in callee["params"]]
        given = {}
        if len(node.args) > len(names):
            raise Reject("%s: too many arguments" % _where(node))
        for p, a in zip(names, node.args):
            given[p] = a
        for kw in node.keywords:
            if kw.arg is None or kw.arg not in names or kw.arg in given:
                raise Reject("%s: keyword %s" % (_where(node), kw.arg))
            given[kw.arg] = kw.value
        defaults = dict(zip(names[len(names) - len(cfn.args.defaults):], cfn.args.defaults))
        # Python evaluates positional arguments, then keywords, in source order; every argument here is evaluated in SOURCE order and
        # the values are then placed by parameter
        order = list(node.args) + [kw.value for kw in node.keywords]
        vals = {}
        for a in order:
            p = next(q for q, b in given.items() if b is a)
            kd = dict(callee["params"])[p]
            if kd == "OPAQUE":
                if not (_is_none(a) or (isinstance(a, ast.Name) and env.vars.get(a.id) in ("OPAQUE", "NODE", "CALLER"))):
                    raise Reject("%s: argument %s of %s" % (_where(node), p, callee["name"]))
                continue
            vals[p] = self.coerce(self.ex(a, ctx.apply(env), ctx), kd, a)
        args = []
        for p, kd in callee["params"]:
            if kd == "OPAQUE":
                continue
            if p not in vals:
                d = defaults.get(p)
                if d is None:
                    raise Reject("%s: argument %s of %s is missing" % (_where(node), p, callee["name"]))
                vals[p] = self.coerce(self.pure(d, Env(), "a default value"), kd, d)
            args.append(vals[p])
        t = self.fresh()
        if callee in EXTERNAL:
            ctx.binds.append((t, "mlift (Gen_validation.%s %s)" % (callee["name"], " ".join(args)), []))
            return Val(callee["ret"], t)
        if self.specs.index(callee) >= self.specs.index(self.spec):
            raise Reject("%s: call of %s, which is not defined before %s" % (_where(node), callee["name"], self.spec["name"]))
        ctx.binds.append((t if callee["ret"] != "UNIT" else "_", "%s %s" % (callee["coq"], " ".join(args)), []))
        return Val(callee["ret"], t if callee["ret"] != "UNIT" else "tt")

    # ------------------------------------------------------------------------------------------ statements
    def block(self, stmts, env, k, kloop):
        """k(env): what follows the block (a function's end, or the end of a loop body); kloop(env): `continue` (None outside a loop)"""
        if not stmts:
            return k(env)
        s, rest = stmts[0], stmts[1:]

        def cont(e):
            return self.block(rest, e, k, kloop)

        if self._msg.msg_stmt(s):
            return cont(env)
        if isinstance(s, ast.Expr) and isinstance(s.value, ast.Constant) and isinstance(s.value.value, str):
            return cont(env)
        if isinstance(s, ast.Raise):
            if rest:
                raise Reject("%s: code after raise" % _where(s))
            e = s.exc
            name = e.func.id if isinstance(e, ast.Call) and isinstance(e.func, ast.Name) else (e.id if isinstance(e, ast.Name) else None)
            if name not in EXN or s.cause is not None:
                raise Reject("%s: raise of %s" % (_where(s), ast.unparse(e) if e is not None else "nothing"))
            return "mraise %s" % EXN[name]
        if isinstance(s, ast.Continue):
            if rest or kloop is None:
                raise Reject("%s: continue outside a loop / code after continue" % _where(s))
            return kloop(env)
        if isinstance(s, ast.Return):
            if rest:
                raise Reject("%s: code after return" % _where(s))
            if kloop is not None:
                raise Reject("%s: return inside a loop body" % _where(s))
            if s.value is None:
                raise Reject("%s: bare return" % _where(s))
            ctx = Ctx()
            if self.spec["ret"] == "PAIR":
                if not (isinstance(s.value, ast.Tuple) and len(s.value.elts) == 2):
                    raise Reject("%s: a pair is expected" % _where(s))
                vs = [self.coerce(self.ex(e, env, ctx), "PYVAL", s) for e in s.value.elts]
                return ctx.wrap("mret (%s, %s)" % tuple(vs))
            v = self.ex(s.value, env, ctx)
            return ctx.wrap("mret %s" % self.coerce(v, self.spec["ret"], s))
        if isinstance(s, ast.Assign):
            return self.assign(s, env, cont)
        if isinstance(s, ast.Expr):
            c = s.value
            if isinstance(c, ast.Call) and ast.unparse(c.func) in [sp["name"] for sp in self.specs if sp["ret"] == "UNIT"]:
                ctx = Ctx()
                self.ex(c, env, ctx)
                return ctx.wrap(cont(ctx.apply(env)))
            raise Reject("%s: expression statement %s" % (_where(s), ast.unparse(s)[:60]))
        if isinstance(s, ast.If):
            return self.tr_if(s, rest, env, k, kloop)
        if isinstance(s, ast.For):
            return self.tr_for(s, rest, env, k, kloop)
        raise Reject("%s: statement form %s is not translated" % (_where(s), type(s).__name__))

    def assign(self, s, env, cont):
        if len(s.targets) != 1:
            raise Reject("%s: multiple assignment" % _where(s))
        tg = s.targets[0]
        ctx = Ctx()
        if isinstance(tg, ast.Attribute):
            if ast.unparse(s) != PINNED_SET_TEACHER or env.vars.get("caller") != "CALLER" or env.vars.get("teacher") != "DATA":
                raise Reject("%s: attribute assignment other than the pinned registration of a teacher: %s" % (_where(s), ast.unparse(s)[:80]))
            return "mbind (set_teacher caller teacher) (fun _ =>\n%s)" % cont(env)
        if isinstance(tg, ast.Subscript):
            # m[k] = v: Python evaluates v, then m, then k
            if not (_is_name(tg.value) and env.vars.get(tg.value.id) == "MAP"):
                raise Reject("%s: store into %s" % (_where(s), ast.unparse(tg)))
            m = tg.value.id
            v = self.ex(s.value, env, ctx)
            e1 = ctx.apply(env)
            if e1.vars.get(m) != "MAP":
                raise Reject("%s: store into %s" % (_where(s), ast.unparse(tg)))
            kk = self.ex(tg.slice, e1, ctx)
            if kk.kind != "INT":
                raise Reject("%s: key of kind %s" % (_where(s), kk.kind))
            return ctx.wrap("let %s := map_set %s %s %s in\n%s" % (m, m, kk.p(), self.coerce(v, "DATA", s), cont(ctx.apply(env).bind(m, "MAP"))))
        if not isinstance(tg, ast.Name):
            raise Reject("%s: assignment target" % _where(s))
        name = tg.id
        self.check_name(name, s)
        if env.vars.get(name) == "OPAQUE" or name in self.spec["msgvars"]:
            raise Reject("%s: assignment to %s" % (_where(s), name))
        v = self.ex(s.value, env, ctx)
        if v.kind not in COQTYPE or v.kind in ("UNIT", "PAIR"):
            raise Reject("%s: a value of kind %s is assigned to %s" % (_where(s), v.kind, name))
        e2 = ctx.apply(env).bind(name, v.kind, v.facts if isinstance(s.value, ast.Name) else ())
        if v.kind == "NONE":
            return ctx.wrap(cont(e2))
        return ctx.wrap("let %s := %s in\n%s" % (name, v.text, cont(e2)))

    def tr_if(self, s, rest, env, k, kloop):
        # `if v is [not] None` on an optional list of nodes: a match
        t = s.test
        if isinstance(t, ast.Compare) and len(t.ops) == 1 and isinstance(t.ops[0], (ast.Is, ast.IsNot)) and _is_none(t.comparators[0]) \
                and _is_name(t.left) and env.vars.get(t.left.id) == "OPTNODES":
            v = t.left.id
            some, none = (s.body, s.orelse) if isinstance(t.ops[0], ast.IsNot) else (s.orelse, s.body)
            A = self.block(list(some) + ([] if _terminates(some) else list(rest)), env.bind(v, "NODES"), k, kloop)
            B = self.block(list(none) + ([] if _terminates(none) else list(rest)), env.bind(v, "NONE"), k, kloop)
            return "match %s with\n| Some %s =>\n%s\n| None =>\n%s\nend" % (v, v, A, B)
        ctx = Ctx()
        c = self.ex(t, env, ctx)
        if c.kind != "BOOL":
            raise Reject("%s: `if` on kind %s" % (_where(s), c.kind))
        env1 = ctx.apply(env)
        if c.static is not None:
            live = s.body if c.static else s.orelse
            return ctx.wrap(self.block(list(live) + ([] if _terminates(live) else list(rest)), env1, k, kloop))
        ft, ff = c.facts, ()
        if isinstance(t, ast.UnaryOp) and isinstance(t.op, ast.Not):
            inner = self.pure(t.operand, env, "the operand of not") if not ctx.binds else None
            ft, ff = (), (inner.facts if inner is not None else ())
        # no join: the statements after the `if` are translated once per branch that can reach them
        A = self.block(list(s.body) + ([] if _terminates(s.body) else list(rest)), env1.with_facts(ft), k, kloop)
        B = self.block(list(s.orelse) + ([] if _terminates(s.orelse) else list(rest)), env1.with_facts(ff), k, kloop)
        return ctx.wrap("if %s then\n%s\nelse\n%s" % (c.text, A, B))

    def tr_for(self, s, rest, env, k, kloop):
        if s.orelse or not isinstance(s.target, ast.Name):
            raise Reject("%s: for/else or a target that is not a name" % _where(s))
        var = s.target.id
        self.check_name(var, s)
        if var in env.vars:
            raise Reject("%s: the loop variable %s is already in use" % (_where(s), var))
        ctx = Ctx()
        it = self.ex(s.iter, env, ctx)
        if it.kind != "NODES" or not isinstance(s.iter, ast.Name):
            raise Reject("%s: a loop over something that is not a variable holding a list of nodes" % _where(s))
        names = _rebound(s.body)
        if var in names or s.iter.id in names:
            raise Reject("%s: the loop rebinds its variable or the list it iterates" % _where(s))
        state = [v for v in names if v in env.vars]
        # a variable first bound inside the body is local to one iteration; it must not be read after the loop
        local = [v for v in names if v not in env.vars]
        after = {n.id for st in rest for n in ast.walk(st) if isinstance(n, ast.Name) and isinstance(n.ctx, ast.Load)}
        if set(local) & after:
            raise Reject("%s: %s is bound inside the loop only and read after it" % (_where(s), sorted(set(local) & after)))
        tup = "tt" if not state else (state[0] if len(state) == 1 else "(" + ", ".join(state) + ")")
        pat = "_" if not state else (state[0] if len(state) == 1 else "'(" + ", ".join(state) + ")")

        def kend(e):
            for v in state:
                if e.vars.get(v) != env.vars[v]:
                    raise Reject("%s: the loop changes the kind of %s (%s -> %s)" % (_where(s), v, env.vars[v], e.vars.get(v)))
            return "mret %s" % tup

        envb = env.bind(var, "NODE")
        for v in state:
            envb = envb.bind(v, env.vars[v])                 # facts about the state do not survive an iteration
        body = self.block(list(s.body), envb, kend, kend)
        e2 = env
        for v in state:
            e2 = e2.bind(v, env.vars[v])
        return ctx.wrap("mbind (for_nodes (fun %s %s =>\n%s)\n%s %s)\n(fun %s =>\n%s)" % (
            var, pat if state else "_", body, it.p(), tup, pat, self.block(rest, e2, k, kloop)))

    # ------------------------------------------------------------------------------------------ function
    def translate(self):
        fn, spec = self.fn, self.spec
        a = fn.args
        if a.vararg or a.kwarg or a.kwonlyargs or a.posonlyargs:
            raise Reject("%s: signature of %s" % (_where(fn), spec["name"]))
        names = [x.arg for x in a.args]
        if names != [p for p, _ in spec["params"]]:
            raise Reject("signature of %s changed: %s" % (spec["name"], names))
        for d in a.defaults:
            if not (isinstance(d, ast.Constant) and (d.value is None or isinstance(d.value, (bool, str)))):
                raise Reject("%s: default value %s" % (_where(d), ast.unparse(d)))
        env = Env()
        for p, kd in spec["params"]:
            self.check_name(p, fn)
            env.vars[p] = kd

        def kfall(e):
            if spec["ret"] == "UNIT":
                return "mret tt"                              # falling off the end returns None, which the callers discard
            raise Reject("%s can reach its end without return" % spec["name"])

        body = self.block(_strip_doc(list(fn.body)), env, kfall, None)
        params = " ".join("(%s : %s)" % (p, COQTYPE[kd]) for p, kd in spec["params"] if kd != "OPAQUE")
        return "Definition %s %s : M %s :=\n%s." % (spec["coq"], params, COQTYPE[spec["ret"]], body)


def emit(repo):
    fns, shas = V1.load(repo, SPECS + EXTERNAL)
    # the external callee must still have the signature the first unit translates
    ext = fns["check_n_sequences"]
    if [x.arg for x in ext.args.args] != [p for p, _ in EXTERNAL[0]["params"]]:
        raise Reject("signature of check_n_sequences changed")
    out = ["(* GENERATED by tools/vlib/py2coq_val2.py (%s) from the current source of reservoirpy -- do not edit." % VERSION,
           "   Regenerated at the start of every ./check C12; vocabulary: coq/base/ValPrelude2.v (+ ValPrelude.v); data checks: gen/Gen_validation.v.",
           "   Exception messages are not translated.  An `if` never joins: the statements after it appear once per branch."]
    for spec in SPECS:
        out.append("   %s :: %s   sha256 %s" % (spec["file"], spec["name"], shas[spec["name"]]))
    out.append("*)")
    out.append("From Coq Require Import List Arith Bool.")
    out.append("From RV Require Import model.Shapes base.ValPrelude base.ValPrelude2 gen.Gen_validation.")
    out.append("Import ListNotations.")
    out.append("")
    for spec in SPECS:
        tr = FnTr(spec, fns[spec["name"]], fns, SPECS)
        text = tr.translate()
        head, _, body = text.partition("\n")
        out.append("(* %s :: %s *)" % (spec["file"], spec["name"]))
        out.append(head)
        out.append(_indent(body))
        out.append("")
    return "\n".join(out)


if __name__ == "__main__":
    import sys
    repo = sys.argv[1] if len(sys.argv) > 1 else os.environ.get("VERIF_REPO", "/repo")
    try:
        sys.stdout.write(emit(repo))
    except Reject as ex:
        sys.stderr.write("REJECT: %s\n" % ex)
        sys.exit(2)
