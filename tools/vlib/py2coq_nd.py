"""Fail-closed translator for the metrics of reservoirpy/observables.py (numpy reductions with an `axis`) -> Gallina.

Tie (T) for C19: `_check_arrays`, `mse`, `rmse`, `nrmse`, `rsquare` and the matrix `effective_spectral_radius` hands to
`spectral_radius`, as they are in the CURRENT text of observables.py, become coq/gen/Gen_metrics.v.

The translator is a *partial evaluator*: each metric is specialised to the rank (1, 2, 3) of its two array arguments and to
the value of `dimensionwise` (and, for nrmse, to `norm_value` being None or a number), so that
    if dimensionwise: (axis = (0, 1) if len(shape) == 3 else 0) else: axis = None
is decided at translation time and every `axis=` keyword has a known value in {None, 0, (0, 1)}.  What remains is emitted
over `{F} `{Num F}` in the vocabulary of coq/base/NDPrelude.v (np.mean / np.sum / .mean / .var / np.ptp / np.quantile along an
axis, element-wise - * / ** 2 with numpy broadcasting of a scalar or of a trailing-axis vector, ndarray.shape).

Conventions stated in the generated header:
  * an exception (the ValueError of `_check_arrays`) is `None`; a function that can raise returns an `option`;
  * `np.sqrt` does not exist over Q: a function returning `np.sqrt(e)` is emitted as `<name>_sq` returning the radicand `e`;
    `sqrt(e) / n` is emitted as the pair (e, n) (per output entry) in `<name>_parts`;
  * `np.asarray` and the cast of integer / boolean arrays to float64 are the identity on the numbers an array denotes;
  * the string parameter `norm` ranges over the keys of the `norms` dict literal (the inductive `norm_name`).

Anything else -- unknown numpy function or keyword, an `axis` that is not a translation-time constant or not one of the
supported (rank, axis) pairs, a broadcast other than scalar / trailing vector, other control flow, a use of a square root
other than returning it or dividing it -- raises Reject: the tie is then reported broken.  Never guess.
"""
import ast
import hashlib
import os
import warnings
from fractions import Fraction

from vlib.py2coq_la import Reject, find_function

SOURCE = "reservoirpy/observables.py"
FUNCTIONS = ["_check_arrays", "mse", "rmse", "nrmse", "rsquare", "effective_spectral_radius"]
VERSION = "py2coq_nd 1"

# identifiers the generated code uses itself: a Python local with one of these names is rejected
RESERVED = set("""x_ r_ m_ t_ F H A B shape_a shape_b obind shape_eqb zip_with shape1 shape2 shape3 flat1 flat2 flat3 column along0 along01
npow2 np_count np_sum1 np_mean1 np_var1 np_max1 np_min1 np_max2 np_min2 np_ptp1 np_ins np_sort np_quantile1 map combine length hd nth
seq concat eye n0 n1 nadd nsub nmul ndiv nopp nltb nleb nofZ Some None negb andb orb true false if then else let in match with end fun
forall exists Type Prop Set nat list bool option fst snd norm_name check_arrays""".split())

ARRTYPE = {0: "F", 1: "list F", 2: "list (list F)", 3: "list (list (list F))"}
OPS = {ast.Add: "nadd", ast.Sub: "nsub", ast.Mult: "nmul", ast.Div: "ndiv"}


def _where(node):
    return "line %s" % getattr(node, "lineno", "?")


# ------------------------------------------------------------------------------------------------------------ values
class Arr:
    """an array of known rank (0 = scalar); sqrt=True: the denoted value is the square root of `text`;
    ty: 'A' / 'B' for the abstract arrays of _check_arrays (rank None)"""
    def __init__(self, rank, text, sqrt=False, ty=None):
        self.rank, self.text, self.sqrt, self.ty = rank, text, sqrt, ty


class Parts:
    """sqrt(e) / n per output entry, kept as the pair (e, n)"""
    def __init__(self, rank, text):
        self.rank, self.text = rank, text


class Static:
    """a Python value known at translation time (None, bool, int, float, str, tuple of ints)"""
    def __init__(self, value):
        self.value = value


class Opaque:
    """a parameter that is only passed through (maxiter)"""


class ShapeV:
    def __init__(self, arr):
        self.arr = arr


class NatV:
    def __init__(self, text):
        self.text = text


class BoolV:
    def __init__(self, text):
        self.text = text


class LamV:
    def __init__(self, node, env):
        self.node, self.env = node, env


class DictV:
    def __init__(self, items):
        self.items = items          # list of (str key, value)


class NormSym:
    def __init__(self, text):
        self.text = text


class MatchV:
    """norms[norm] for a symbolic norm: one value per key"""
    def __init__(self, sym, items):
        self.sym, self.items = sym, items


class TupleV:
    def __init__(self, items):
        self.items = items


class Pending:
    def __init__(self, pattern, opttext):
        self.pattern, self.opttext = pattern, opttext


def nest(k, inner):
    """map^k applied to the function text `inner`"""
    for _ in range(k):
        inner = "(map %s)" % inner
    return inner


def zipn(k, op):
    t = op
    for _ in range(k):
        t = "(zip_with %s)" % t
    return t


# ------------------------------------------------------------------------------------------------------------ translator
class Translator:
    def __init__(self, repo):
        self.path = os.path.join(repo, SOURCE)
        self.src = open(self.path).read()
        with warnings.catch_warnings():
            warnings.simplefilter("ignore")          # escape sequences in the library's docstrings
            self.tree = ast.parse(self.src)
        self.defs = []              # (name, text) in dependency order
        self.done = {}              # specialisation key -> summary
        self.norm_keys = None
        self.fns = {}
        for n in FUNCTIONS:
            fn = find_function(self.tree, n)
            if fn is None:
                raise Reject("%s: function %s not found" % (SOURCE, n))
            self.fns[n] = fn

    def sha(self):
        h = hashlib.sha256()
        for n in FUNCTIONS:
            h.update((ast.get_source_segment(self.src, self.fns[n]) or "").encode())
        return h.hexdigest()

    @staticmethod
    def keyof(v):
        if isinstance(v, Arr):
            return ("arr", v.rank, v.ty)
        if isinstance(v, Static):
            return ("static", repr(v.value))
        if isinstance(v, NormSym):
            return ("norm",)
        if isinstance(v, Opaque):
            return ("opaque",)
        raise Reject("internal: argument kind %r" % type(v))


def suffix(rank, dw):
    return "_r%d_%s" % (rank, "dw" if dw else "g")


class Frame:
    """translation of one specialisation of one Python function"""

    def __init__(self, tr, fname, fndef, args, variant):
        self.tr, self.fname, self.fndef, self.variant = tr, fname, fndef, variant
        self.pending = []
        self.fresh = 0
        self.ret = None             # kind of the value returned
        self.params = []
        self.env = {}
        a = fndef.args
        if a.vararg or a.kwarg or a.kwonlyargs or a.posonlyargs:
            raise Reject("%s: unsupported parameter list" % fname)
        names = [x.arg for x in a.args]
        defaults = dict(zip(names[len(names) - len(a.defaults):], a.defaults))
        for k in args:
            if k not in names:
                raise Reject("%s has no parameter %s" % (fname, k))
        for n in names:
            self.check_name(n, fndef)
            if n in args:
                v = args[n]
            elif n in defaults and isinstance(defaults[n], ast.Constant):
                v = Static(defaults[n].value)
            else:
                raise Reject("%s: parameter %s has no value in this specialisation" % (fname, n))
            if isinstance(v, Arr):
                if v.rank is None:
                    self.params.append("(%s : %s)" % (n, v.ty))
                    v = Arr(None, n, ty=v.ty)
                else:
                    self.params.append("(%s : %s)" % (n, ARRTYPE[v.rank]))
                    v = Arr(v.rank, n)
            elif isinstance(v, NormSym):
                self.params.append("(%s : norm_name)" % n)
                v = NormSym(n)
            self.env[n] = v

    def check_name(self, n, node):
        if n in RESERVED or n.endswith("_") and n[:-1].isalpha() and len(n) <= 3:
            raise Reject("%s: the identifier %s clashes with the generated vocabulary" % (_where(node), n))

    def newvar(self):
        self.fresh += 1
        return "t%d_" % self.fresh

    # ---------------------------------------------------------------------------------------------- statements
    def run(self):
        body = list(self.fndef.body)
        if body and isinstance(body[0], ast.Expr) and isinstance(body[0].value, ast.Constant) and isinstance(body[0].value.value, str):
            body = body[1:]
        tree = self.block(body)
        if self.ret is None:
            raise Reject("%s: no return reached" % self.fname)
        raises = self.can_raise(tree)
        text = self.render(tree, raises, 1)
        name = self.defname()
        self.tr.defs.append((name, "Definition %s %s :=\n%s." % (name, " ".join(self.params), text), self.describe()))
        return {"name": name, "raises": raises, "ret": self.ret, "params": self.params}

    def defname(self):
        k = self.ret
        base = self.fname.lstrip("_")
        if self.fname == "effective_spectral_radius":
            return "effective_matrix"
        if self.fname == "_check_arrays":
            return "check_arrays"
        if self.variant == "parts" or isinstance(k, Parts):
            base += "_parts"
        elif isinstance(k, Arr) and k.sqrt:
            base += "_sq"
        return base + self.tag

    def block(self, stmts):
        if not stmts:
            raise Reject("%s: control reaches the end of the function without a return" % self.fname)
        s, rest = stmts[0], stmts[1:]
        m = getattr(self, "s_" + type(s).__name__, None)
        if m is None:
            raise Reject("%s: unsupported statement %s" % (_where(s), type(s).__name__))
        return m(s, rest)

    def wrap(self, sub_thunk):
        """bind the calls that may raise made by the expression(s) just evaluated, then continue"""
        pend, self.pending = self.pending, []
        sub = sub_thunk()
        for p in reversed(pend):
            sub = ("bind", p.opttext, p.pattern, sub)
        return sub

    def s_Expr(self, s, rest):
        raise Reject("%s: expression statement" % _where(s))

    def s_Assign(self, s, rest):
        if len(s.targets) != 1:
            raise Reject("%s: chained assignment" % _where(s))
        tg = s.targets[0]
        val = self.expr(s.value)
        if isinstance(tg, ast.Tuple):
            if not (isinstance(val, TupleV) and len(val.items) == len(tg.elts) and all(isinstance(e, ast.Name) for e in tg.elts)):
                raise Reject("%s: tuple assignment from something that is not a tuple of the same length" % _where(s))
            names = [e.id for e in tg.elts]
            for n in names:
                self.check_name(n, s)
            # the tuple comes from a call bound by the last pending bind: name its components
            if not (self.pending and self.pending[-1].pattern == val.bound):
                raise Reject("%s: unsupported tuple assignment" % _where(s))
            self.pending[-1].pattern = "'(%s)" % ", ".join(names)
            for n, it in zip(names, val.items):
                self.env[n] = Arr(it.rank, n, it.sqrt, it.ty)
            return self.wrap(lambda: self.block(rest))
        if not isinstance(tg, ast.Name):
            raise Reject("%s: assignment to something that is not a local name" % _where(s))
        self.check_name(tg.id, s)
        n = tg.id
        if isinstance(val, (Arr, Parts, NatV)):
            if self.pending and self.pending[-1].pattern == val.text:
                self.pending[-1].pattern = n                       # x = f(..) where f may raise: bind x directly
                self.env[n] = self.renamed(val, n)
                return self.wrap(lambda: self.block(rest))
            text = val.text
            self.env[n] = self.renamed(val, n)
            return self.wrap(lambda: ("let", n, text, self.block(rest)))
        if isinstance(val, (Static, LamV, DictV, ShapeV, MatchV, NormSym, Opaque)):
            self.env[n] = val
            return self.wrap(lambda: self.block(rest))
        raise Reject("%s: cannot bind a value of kind %s" % (_where(s), type(val).__name__))

    @staticmethod
    def renamed(val, n):
        if isinstance(val, Arr):
            return Arr(val.rank, n, val.sqrt, val.ty)
        if isinstance(val, Parts):
            return Parts(val.rank, n)
        return NatV(n)

    def is_dtype_cast(self, s):
        """if X.dtype.kind in "iub": X = X.astype(np.float64)   -- the identity on the numbers X denotes"""
        t = s.test
        if not (isinstance(t, ast.Compare) and len(t.ops) == 1 and isinstance(t.ops[0], ast.In)
                and isinstance(t.comparators[0], ast.Constant) and isinstance(t.comparators[0].value, str)
                and t.comparators[0].value and set(t.comparators[0].value) <= set("iub")):
            return False
        l = t.left
        if not (isinstance(l, ast.Attribute) and l.attr == "kind" and isinstance(l.value, ast.Attribute) and l.value.attr == "dtype"
                and isinstance(l.value.value, ast.Name)):
            return False
        x = l.value.value.id
        if s.orelse or len(s.body) != 1 or not isinstance(s.body[0], ast.Assign):
            return False
        a = s.body[0]
        if not (len(a.targets) == 1 and isinstance(a.targets[0], ast.Name) and a.targets[0].id == x):
            return False
        c = a.value
        if not (isinstance(c, ast.Call) and isinstance(c.func, ast.Attribute) and c.func.attr == "astype"
                and isinstance(c.func.value, ast.Name) and c.func.value.id == x and len(c.args) == 1 and not c.keywords):
            return False
        d = c.args[0]
        ok = (isinstance(d, ast.Attribute) and isinstance(d.value, ast.Name) and d.value.id == "np" and d.attr in ("float64", "float_", "double")) \
            or (isinstance(d, ast.Name) and d.id == "float")
        return ok and isinstance(self.env.get(x), Arr)

    def s_If(self, s, rest):
        if self.is_dtype_cast(s):
            return self.block(rest)
        c = self.expr(s.test)
        if isinstance(c, Static):
            if not isinstance(c.value, bool):
                raise Reject("%s: condition is a constant that is not a bool" % _where(s))
            branch = s.body if c.value else s.orelse
            return self.wrap(lambda: self.block(list(branch) + list(rest)))
        if isinstance(c, BoolV):
            # only `if cond: raise ...` (no else) with a run-time condition
            if s.orelse or len(s.body) != 1 or not isinstance(s.body[0], ast.Raise):
                raise Reject("%s: run-time condition on something other than a lone raise" % _where(s))
            self.check_raise(s.body[0])
            return self.wrap(lambda: ("if", c.text, ("none",), self.block(rest)))
        raise Reject("%s: unsupported condition" % _where(s))

    def check_raise(self, s):
        e = s.exc
        if s.cause is not None or not (isinstance(e, ast.Call) and isinstance(e.func, ast.Name) and e.func.id == "ValueError"):
            raise Reject("%s: only `raise ValueError(...)` is understood" % _where(s))

    def s_Raise(self, s, rest):
        self.check_raise(s)
        return ("none",)

    def s_Return(self, s, rest):
        if s.value is None:
            raise Reject("%s: bare return" % _where(s))
        if self.fname == "effective_spectral_radius":
            val = self.spectral_radius_argument(s.value)
        elif self.variant == "parts":
            val = self.ratio_parts(s.value)
        else:
            val = self.expr(s.value)
        if isinstance(val, TupleV):
            if not all(isinstance(i, Arr) for i in val.items):
                raise Reject("%s: returned tuple of non-arrays" % _where(s))
            kind = val
            text = "(%s)" % ", ".join(i.text for i in val.items)
        elif isinstance(val, (Arr, Parts)):
            kind, text = val, val.text
        else:
            raise Reject("%s: returned value of kind %s" % (_where(s), type(val).__name__))
        if self.ret is not None and self.kindsig(self.ret) != self.kindsig(kind):
            raise Reject("%s: returns of different kinds" % _where(s))
        self.ret = kind
        return self.wrap(lambda: ("ret", text))

    @staticmethod
    def kindsig(k):
        if isinstance(k, TupleV):
            return ("tuple",) + tuple((i.rank, i.ty) for i in k.items)
        if isinstance(k, Parts):
            return ("parts", k.rank)
        return ("arr", k.rank, k.sqrt, k.ty)

    def can_raise(self, t):
        if t[0] in ("none", "bind"):
            return True
        if t[0] == "ret":
            return False
        if t[0] == "let":
            return self.can_raise(t[3])
        if t[0] == "if":
            return self.can_raise(t[2]) or self.can_raise(t[3])
        raise Reject("internal")

    def render(self, t, opt, ind):
        sp = "  " * ind
        if t[0] == "none":
            return sp + "None"
        if t[0] == "ret":
            return sp + ("Some (%s)" % t[1] if opt else t[1])
        if t[0] == "let":
            return "%slet %s := %s in\n%s" % (sp, t[1], t[2], self.render(t[3], opt, ind))
        if t[0] == "bind":
            return "%sobind (%s) (fun %s =>\n%s)" % (sp, t[1], t[2], self.render(t[3], opt, ind))
        if t[0] == "if":
            return "%sif %s then\n%s\n%selse\n%s" % (sp, t[1], self.render(t[2], opt, ind + 1), sp, self.render(t[3], opt, ind))
        raise Reject("internal")

    # ---------------------------------------------------------------------------------------------- expressions
    def expr(self, e):
        m = getattr(self, "e_" + type(e).__name__, None)
        if m is None:
            raise Reject("%s: unsupported expression %s" % (_where(e), type(e).__name__))
        return m(e)

    def e_Constant(self, e):
        return Static(e.value)

    def e_Name(self, e):
        if e.id not in self.env:
            raise Reject("%s: unknown name %s" % (_where(e), e.id))
        return self.env[e.id]

    def e_Tuple(self, e):
        items = [self.expr(x) for x in e.elts]
        if all(isinstance(i, Static) for i in items):
            return Static(tuple(i.value for i in items))
        if all(isinstance(i, Arr) for i in items):
            t = TupleV(items)
            t.bound = None
            return t
        raise Reject("%s: unsupported tuple" % _where(e))

    def e_Lambda(self, e):
        a = e.args
        if a.vararg or a.kwarg or a.kwonlyargs or a.posonlyargs or a.defaults:
            raise Reject("%s: unsupported lambda parameters" % _where(e))
        for x in a.args:
            self.check_name(x.arg, e)
        return LamV(e, self.env)

    def e_Dict(self, e):
        items = []
        for k, v in zip(e.keys, e.values):
            if not (isinstance(k, ast.Constant) and isinstance(k.value, str) and k.value.isidentifier()):
                raise Reject("%s: dict key that is not an identifier-like string" % _where(e))
            items.append((k.value, self.expr(v)))
        if len({k for k, _ in items}) != len(items):
            raise Reject("%s: duplicate dict keys" % _where(e))
        return DictV(items)

    def scalar(self, v, node):
        """a value usable in arithmetic"""
        if isinstance(v, Arr):
            return v
        if isinstance(v, Static) and isinstance(v.value, int) and not isinstance(v.value, bool):
            k = v.value
            return Arr(0, "n0" if k == 0 else "n1" if k == 1 else "(nofZ (%d))" % k)
        raise Reject("%s: operand of kind %s%s in arithmetic" % (_where(node), type(v).__name__,
                                                                (" (%r)" % (v.value,)) if isinstance(v, Static) else ""))

    def e_UnaryOp(self, e):
        v = self.expr(e.operand)
        if isinstance(e.op, ast.Not):
            if isinstance(v, Static) and isinstance(v.value, bool):
                return Static(not v.value)
            if isinstance(v, BoolV):
                return BoolV("(negb %s)" % v.text)
        raise Reject("%s: unsupported unary operator" % _where(e))

    def e_BinOp(self, e):
        if isinstance(e.op, ast.Pow):
            a = self.expr(e.left)
            b = self.expr(e.right)
            if not (isinstance(b, Static) and type(b.value) is int and b.value == 2):
                raise Reject("%s: ** with an exponent other than the literal 2" % _where(e))
            a = self.scalar(a, e)
            if a.sqrt or a.rank is None:
                raise Reject("%s: power of a square root / abstract array" % _where(e))
            return Arr(a.rank, "(npow2 %s)" % a.text if a.rank == 0 else "(%s %s)" % (nest(a.rank, "npow2")[1:-1], a.text))
        if type(e.op) not in OPS:
            raise Reject("%s: unsupported operator %s" % (_where(e), type(e.op).__name__))
        a = self.scalar(self.expr(e.left), e)
        b = self.scalar(self.expr(e.right), e)
        return self.arith(OPS[type(e.op)], a, b, e)

    def arith(self, op, a, b, node):
        if a.rank is None or b.rank is None:
            raise Reject("%s: arithmetic on an array of unknown rank" % _where(node))
        if a.sqrt or b.sqrt:
            if op == "ndiv" and a.sqrt and not b.sqrt:
                return self.parts(a, b, node)
            raise Reject("%s: a square root used other than as a numerator" % _where(node))
        ra, rb = a.rank, b.rank
        if ra == 0 and rb == 0:
            return Arr(0, "(%s %s %s)" % (op, a.text, b.text))
        if ra == rb:
            return Arr(ra, "(%s %s %s)" % (zipn(ra, op)[1:-1], a.text, b.text))
        if rb == 0:
            return Arr(ra, "(%s %s)" % (nest(ra, "(fun x_ => %s x_ %s)" % (op, b.text))[1:-1], a.text))
        if ra == 0:
            return Arr(rb, "(%s %s)" % (nest(rb, "(fun x_ => %s %s x_)" % (op, a.text))[1:-1], b.text))
        # numpy broadcasting aligns trailing axes: an (.., c) array with a (c,) vector
        if rb == 1:
            return Arr(ra, "(%s %s)" % (nest(ra - 1, "(fun r_ => zip_with %s r_ %s)" % (op, b.text))[1:-1], a.text))
        if ra == 1:
            return Arr(rb, "(%s %s)" % (nest(rb - 1, "(fun r_ => zip_with %s %s r_)" % (op, a.text))[1:-1], b.text))
        raise Reject("%s: broadcast of a rank-%d with a rank-%d array is outside the vocabulary" % (_where(node), ra, rb))

    def parts(self, a, b, node):
        """sqrt(a) / b  ->  the pair(s) (a, b)"""
        ra, rb = a.rank, b.rank
        if ra == 0 and rb == 0:
            return Parts(0, "(%s, %s)" % (a.text, b.text))
        if ra == 1 and rb == 1:
            return Parts(1, "(combine %s %s)" % (a.text, b.text))
        if ra == 1 and rb == 0:
            return Parts(1, "(map (fun x_ => (x_, %s)) %s)" % (b.text, a.text))
        raise Reject("%s: sqrt(rank %d) / rank %d is outside the vocabulary" % (_where(node), ra, rb))

    def ratio_parts(self, e):
        """variant 'parts' of a function returning `1 - N / D`: the pair(s) (N, D)"""
        if not (isinstance(e, ast.BinOp) and isinstance(e.op, ast.Sub) and isinstance(e.left, ast.Constant) and type(e.left.value) is int
                and e.left.value == 1 and isinstance(e.right, ast.BinOp) and isinstance(e.right.op, ast.Div)):
            raise Reject("%s: the returned expression is not of the form 1 - N / D" % _where(e))
        a = self.scalar(self.expr(e.right.left), e)
        b = self.scalar(self.expr(e.right.right), e)
        if a.sqrt or b.sqrt or a.rank != b.rank or a.rank not in (0, 1):
            raise Reject("%s: numerator / denominator of ranks %s, %s" % (_where(e), a.rank, b.rank))
        return Parts(a.rank, "(%s, %s)" % (a.text, b.text) if a.rank == 0 else "(combine %s %s)" % (a.text, b.text))

    def e_Compare(self, e):
        if len(e.ops) != 1:
            raise Reject("%s: chained comparison" % _where(e))
        op = e.ops[0]
        a = self.expr(e.left)
        b = self.expr(e.comparators[0])
        if isinstance(op, (ast.Is, ast.IsNot)):
            if not (isinstance(b, Static) and b.value is None):
                raise Reject("%s: `is` with something other than None" % _where(e))
            if isinstance(a, Static):
                isnone = a.value is None
            elif isinstance(a, (Arr, MatchV, LamV, DictV, NormSym)):
                isnone = False
            else:
                raise Reject("%s: `is None` of a value of kind %s" % (_where(e), type(a).__name__))
            return Static(isnone if isinstance(op, ast.Is) else not isnone)
        if isinstance(op, (ast.Eq, ast.NotEq)):
            if isinstance(a, Static) and isinstance(b, Static):
                r = a.value == b.value
                return Static(r if isinstance(op, ast.Eq) else not r)
            if isinstance(a, ShapeV) and isinstance(b, ShapeV):
                t = "(shape_eqb %s %s)" % (self.shape_text(a), self.shape_text(b))
                return BoolV(t if isinstance(op, ast.Eq) else "(negb %s)" % t)
        raise Reject("%s: unsupported comparison" % _where(e))

    def shape_text(self, s):
        a = s.arr
        if a.rank is None:
            return "(shape_%s %s)" % (a.ty.lower(), a.text)
        if a.rank == 0:
            raise Reject("shape of a scalar")
        return "(shape%d %s)" % (a.rank, a.text)

    def e_Attribute(self, e):
        v = self.expr(e.value)
        if e.attr == "shape" and isinstance(v, Arr) and not v.sqrt:
            return ShapeV(v)
        raise Reject("%s: unsupported attribute .%s" % (_where(e), e.attr))

    def e_Subscript(self, e):
        v = self.expr(e.value)
        i = self.expr(e.slice)
        if isinstance(v, ShapeV) and isinstance(i, Static) and type(i.value) is int and v.arr.rank is not None and 0 <= i.value < v.arr.rank:
            return NatV("(nth %d %s 0)" % (i.value, self.shape_text(v)))
        if isinstance(v, DictV):
            return self.lookup(v, i, e)
        raise Reject("%s: unsupported subscript" % _where(e))

    def lookup(self, d, k, node):
        if isinstance(k, Static) and isinstance(k.value, str):
            for kk, vv in d.items:
                if kk == k.value:
                    return vv
            return Static(None)
        if isinstance(k, NormSym):
            keys = [kk for kk, _ in d.items]
            if self.tr.norm_keys is None:
                self.tr.norm_keys = keys
            elif self.tr.norm_keys != keys:
                raise Reject("%s: two different key sets for the symbolic norm" % _where(node))
            return MatchV(k, d.items)
        raise Reject("%s: dict lookup with a key of kind %s" % (_where(node), type(k).__name__))

    # -- calls
    def kwargs(self, call, allowed):
        out = {}
        for k in call.keywords:
            if k.arg is None or k.arg not in allowed:
                raise Reject("%s: unsupported keyword %s" % (_where(call), k.arg))
            out[k.arg] = k.value
        return out

    def e_Call(self, e):
        f = e.func
        if isinstance(f, ast.Attribute) and isinstance(f.value, ast.Name) and f.value.id == "np" and "np" not in self.env:
            return self.np_call(f.attr, e)
        if isinstance(f, ast.Name) and f.id == "len" and f.id not in self.env:
            if len(e.args) != 1 or e.keywords:
                raise Reject("%s: len" % _where(e))
            v = self.expr(e.args[0])
            if isinstance(v, ShapeV) and v.arr.rank is not None:
                return Static(v.arr.rank)
            raise Reject("%s: len of something that is not the shape of an array of known rank" % _where(e))
        if isinstance(f, ast.Name) and f.id in self.tr.fns and f.id not in self.env:
            return self.call_translated(f.id, e)
        if isinstance(f, ast.Attribute):
            recv = self.expr(f.value)
            if isinstance(recv, DictV) and f.attr == "get":
                if len(e.args) != 1 or e.keywords:
                    raise Reject("%s: dict.get with a default" % _where(e))
                return self.lookup(recv, self.expr(e.args[0]), e)
            if isinstance(recv, Arr) and f.attr in ("mean", "var", "sum"):
                if e.args:
                    raise Reject("%s: positional argument to .%s" % (_where(e), f.attr))
                kw = self.kwargs(e, {"axis"})
                return self.reduce({"mean": "np_mean1", "var": "np_var1", "sum": "np_sum1"}[f.attr], recv, kw.get("axis"), e)
            raise Reject("%s: unsupported method .%s" % (_where(e), f.attr))
        fv = self.expr(f)
        if isinstance(fv, LamV):
            return self.apply(fv, [self.expr(a) for a in e.args], e)
        if isinstance(fv, MatchV):
            if e.keywords:
                raise Reject("%s: keywords in a call through the norms table" % _where(e))
            args = [self.expr(a) for a in e.args]
            outs = [(k, self.apply(v, args, e)) for k, v in fv.items]
            if not all(isinstance(o, Arr) and not o.sqrt and o.rank == outs[0][1].rank for _, o in outs):
                raise Reject("%s: the entries of the table return values of different kinds" % _where(e))
            text = "(match %s with %s end)" % (fv.sym.text, " ".join("| Nm_%s => %s" % (k, o.text) for k, o in outs))
            return Arr(outs[0][1].rank, text)
        raise Reject("%s: unsupported call" % _where(e))

    def apply(self, lam, args, node):
        if not isinstance(lam, LamV):
            raise Reject("%s: call of a value of kind %s" % (_where(node), type(lam).__name__))
        names = [x.arg for x in lam.node.args.args]
        if len(names) != len(args):
            raise Reject("%s: lambda arity" % _where(node))
        saved = self.env
        self.env = dict(lam.env)            # the closure sees the bindings current at the time of the call
        self.env.update(zip(names, args))
        try:
            return self.expr(lam.node.body)
        finally:
            self.env = saved

    def axis_of(self, node):
        if node is None:
            return None
        v = self.expr(node)
        if not isinstance(v, Static) or not (v.value is None or v.value == 0 and type(v.value) is int or v.value == (0, 1)):
            raise Reject("%s: axis is not a translation-time constant in {None, 0, (0, 1)}" % _where(node))
        return v.value

    def reduce(self, f, x, axisnode, node):
        """np.<f>(x, axis=...)"""
        if not isinstance(x, Arr) or x.sqrt or x.rank in (None, 0):
            raise Reject("%s: reduction of something that is not an array of rank 1-3" % _where(node))
        ax = self.axis_of(axisnode)
        r = x.rank
        if ax is None:
            return Arr(0, "(%s %s)" % (f, x.text if r == 1 else "(flat%d %s)" % (r, x.text)))
        if ax == 0 and r == 1:
            return Arr(0, "(%s %s)" % (f, x.text))
        if ax == 0 and r == 2:
            return Arr(1, "(along0 %s %s)" % (f, x.text))
        if ax == (0, 1) and r == 3:
            return Arr(1, "(along01 %s %s)" % (f, x.text))
        raise Reject("%s: axis=%r on a rank-%d array is outside the vocabulary" % (_where(node), ax, r))

    def np_call(self, name, e):
        if name in ("mean", "sum", "ptp", "var"):
            kw = self.kwargs(e, {"axis"})
            if len(e.args) != 1:
                raise Reject("%s: np.%s expects one positional argument" % (_where(e), name))
            return self.reduce({"mean": "np_mean1", "sum": "np_sum1", "ptp": "np_ptp1", "var": "np_var1"}[name], self.expr(e.args[0]),
                               kw.get("axis"), e)
        if name == "quantile":
            kw = self.kwargs(e, {"axis"})
            if len(e.args) != 2:
                raise Reject("%s: np.quantile expects (a, q)" % _where(e))
            qv = self.expr(e.args[1])
            if not (isinstance(qv, Static) and isinstance(qv.value, (int, float)) and not isinstance(qv.value, bool)):
                raise Reject("%s: the quantile is not a literal" % _where(e))
            fr = Fraction(repr(qv.value))                          # the decimal literal as written
            if not 0 <= fr <= 1:
                raise Reject("%s: quantile outside [0, 1]" % _where(e))
            return self.reduce("(np_quantile1 %d %d)" % (fr.numerator, fr.denominator), self.expr(e.args[0]), kw.get("axis"), e)
        if name == "sqrt":
            if len(e.args) != 1 or e.keywords:
                raise Reject("%s: np.sqrt" % _where(e))
            v = self.scalar(self.expr(e.args[0]), e)
            if v.sqrt or v.rank is None:
                raise Reject("%s: nested square root" % _where(e))
            return Arr(v.rank, v.text, sqrt=True)
        if name == "asarray":
            if len(e.args) != 1 or e.keywords:
                raise Reject("%s: np.asarray with extra arguments" % _where(e))
            v = self.expr(e.args[0])
            if not isinstance(v, Arr):
                raise Reject("%s: np.asarray of a non-array" % _where(e))
            return v
        if name == "eye":
            if len(e.args) != 1 or e.keywords:
                raise Reject("%s: np.eye with extra arguments" % _where(e))
            v = self.expr(e.args[0])
            if not isinstance(v, NatV):
                raise Reject("%s: np.eye of something that is not a dimension" % _where(e))
            return Arr(2, "(eye %s)" % v.text)
        raise Reject("%s: unknown numpy function np.%s" % (_where(e), name))

    def bind_args(self, fname, e):
        fn = self.tr.fns[fname]
        names = [x.arg for x in fn.args.args]
        if len(e.args) > len(names):
            raise Reject("%s: too many arguments to %s" % (_where(e), fname))
        args = {}
        for n, a in zip(names, e.args):
            args[n] = a
        for k in e.keywords:
            if k.arg is None or k.arg not in names or k.arg in args:
                raise Reject("%s: bad keyword %s in a call of %s" % (_where(e), k.arg, fname))
            args[k.arg] = k.value
        return names, args

    def call_translated(self, fname, e):
        names, argnodes = self.bind_args(fname, e)
        vals = {k: self.expr(v) for k, v in argnodes.items()}
        for k, v in vals.items():
            if not isinstance(v, (Arr, Static, NormSym, Opaque)) or isinstance(v, Arr) and (v.sqrt or v.rank == 0 and fname != "nrmse"):
                raise Reject("%s: argument %s of %s has kind %s" % (_where(e), k, fname, type(v).__name__))
        if fname == "_check_arrays":
            if set(vals) != {names[0], names[1]} or len(names) != 2 or not all(isinstance(v, Arr) and v.rank for v in vals.values()):
                raise Reject("%s: _check_arrays must be called with two arrays" % _where(e))
            a, b = vals[names[0]], vals[names[1]]
            summ = Frame.entry(self.tr, fname, {names[0]: Arr(None, "", ty="A"), names[1]: Arr(None, "", ty="B")})
            ret = summ["ret"]
            if not (isinstance(ret, TupleV) and [i.ty for i in ret.items] == ["A", "B"]):
                raise Reject("%s: _check_arrays does not return its two arrays in order" % _where(e))
            call = "%s shape%d shape%d %s %s" % (summ["name"], a.rank, b.rank, a.text, b.text)
            out = TupleV([Arr(a.rank, "?"), Arr(b.rank, "?")])
            if not summ["raises"]:
                raise Reject("%s: _check_arrays no longer rejects anything: the metrics below assume two arrays of the same shape" % _where(e))
            var = self.newvar()
            self.pending.append(Pending(var, call))
            out.bound = var
            return out
        # a metric called by another metric
        spec = {}
        for k, v in vals.items():
            spec[k] = Arr(v.rank, "") if isinstance(v, Arr) else v
        callee = Frame.entry(self.tr, fname, spec)
        actual = " ".join(vals[n].text for n in names if n in vals and isinstance(vals[n], (Arr, NormSym)))
        call = "%s %s" % (callee["name"], actual)
        ret = callee["ret"]
        if not isinstance(ret, Arr):
            raise Reject("%s: call of %s, which returns %s" % (_where(e), fname, type(ret).__name__))
        if callee["raises"]:
            var = self.newvar()
            self.pending.append(Pending(var, call))
            return Arr(ret.rank, var, ret.sqrt)
        return Arr(ret.rank, "(%s)" % call, ret.sqrt)

    def spectral_radius_argument(self, e):
        """return spectral_radius(W=<expr>, maxiter=maxiter): the generated definition is <expr>"""
        if not (isinstance(e, ast.Call) and isinstance(e.func, ast.Name) and e.func.id == "spectral_radius" and not e.args):
            raise Reject("%s: effective_spectral_radius does not end in spectral_radius(W=..., maxiter=...)" % _where(e))
        kw = self.kwargs(e, {"W", "maxiter"})
        if "W" not in kw:
            raise Reject("%s: no W= argument" % _where(e))
        if "maxiter" in kw and not isinstance(self.expr(kw["maxiter"]), (Opaque, Static)):
            raise Reject("%s: maxiter is computed" % _where(e))
        v = self.expr(kw["W"])
        if not (isinstance(v, Arr) and v.rank == 2 and not v.sqrt):
            raise Reject("%s: the matrix handed to spectral_radius is not a rank-2 array" % _where(e))
        return v

    # ---------------------------------------------------------------------------------------------- entry points
    @staticmethod
    def entry(tr, fname, spec, variant=""):
        """specialise a metric: spec maps parameter names to Arr(rank) / Static / NormSym"""
        key = (fname, variant, tuple(sorted((k, Translator.keyof(v)) for k, v in spec.items())))
        if key in tr.done and tr.done[key] is not None:
            return tr.done[key]
        fr = Frame(tr, fname, tr.fns[fname], spec, variant)
        ranks = [v.rank for v in spec.values() if isinstance(v, Arr) and v.rank]
        dw = fr.env.get("dimensionwise")
        if fname in ("mse", "rmse", "nrmse", "rsquare"):
            if not (isinstance(dw, Static) and isinstance(dw.value, bool)) or len(set(ranks)) != 1:
                raise Reject("%s must be specialised to one rank and a constant dimensionwise" % fname)
            fr.tag = suffix(ranks[0], dw.value)
            if fname == "nrmse" and isinstance(fr.env.get("norm_value"), Arr):
                fr.tag = "_nv" + fr.tag
        else:
            fr.tag = ""
        fr.entry_desc = ", ".join("%s: %s" % (k, Frame.show(v)) for k, v in fr.env.items())
        tr.done[key] = None
        summ = fr.run()
        tr.done[key] = summ
        return summ

    @staticmethod
    def show(v):
        if isinstance(v, Arr):
            return "scalar" if v.rank == 0 else ("array" if v.rank is None else "rank-%d array" % v.rank)
        if isinstance(v, Static):
            return repr(v.value)
        if isinstance(v, NormSym):
            return "one of the keys of norms"
        return "passed through"

    def describe(self):
        return "%s :: %s   [%s]" % (SOURCE, self.fname, self.entry_desc)


# ------------------------------------------------------------------------------------------------------------ driver
def translate(repo):
    tr = Translator(repo)
    # _check_arrays, generic in the two array types
    Frame.entry(tr, "_check_arrays", {"y_true": Arr(None, "", ty="A"), "y_pred": Arr(None, "", ty="B")})
    for r in (1, 2, 3):
        for dw in (False, True):
            base = {"y_true": Arr(r, ""), "y_pred": Arr(r, ""), "dimensionwise": Static(dw)}
            Frame.entry(tr, "mse", dict(base))
            Frame.entry(tr, "rmse", dict(base))
            Frame.entry(tr, "rsquare", dict(base))
            Frame.entry(tr, "rsquare", dict(base), variant="parts")
            Frame.entry(tr, "nrmse", dict(base, norm=NormSym("norm"), norm_value=Static(None)))
            Frame.entry(tr, "nrmse", dict(base, norm_value=Arr(0, "")))
    Frame.entry(tr, "effective_spectral_radius", {"W": Arr(2, ""), "lr": Arr(0, ""), "maxiter": Opaque()})
    return tr


def emit(repo):
    """-> Coq source text of coq/gen/Gen_metrics.v"""
    tr = translate(repo)
    if not tr.norm_keys:
        raise Reject("nrmse: no table of norms found")
    out = ["(* GENERATED by tools/vlib/py2coq_nd.py (%s) from the current source of %s -- DO NOT EDIT." % (VERSION, SOURCE),
           "   sha256 of the translated segments (%s): %s" % (", ".join(FUNCTIONS), tr.sha()),
           "   Regenerated by `./check C19` (pregen) and by setup (tools/regen.py).  One definition per (function, rank of the two array",
           "   arguments, dimensionwise): the `axis` selection of the source is evaluated at translation time.  Vocabulary:",
           "   base/NDPrelude.v (the meaning of numpy's reductions along an axis), base/LA.v (eye).",
           "   * None = the ValueError raised by _check_arrays; obind propagates it.",
           "   * np.sqrt cannot be computed over Q: `<f>_sq` returns the RADICAND of what <f> returns (rmse = sqrt(rmse_sq));",
           "     `<f>_parts` returns, per output entry, the pair (e, n) standing for sqrt(e) / n (nrmse), or the pair (N, D) of the",
           "     ratio in `1 - N / D` (rsquare).",
           "   * np.asarray and the cast of integer / boolean arrays to float64 are the identity on the numbers denoted.",
           "   * `norm` ranges over the keys of the `norms` table; `norm_value is not None` is the `_nv` variant.",
           "   * effective_matrix is the W= argument of the spectral_radius call that ends effective_spectral_radius. *)",
           "From Coq Require Import List Bool Arith ZArith.",
           "From RV Require Import base.Num base.LA base.NDPrelude.",
           "Import ListNotations.", "",
           "Module GenMetrics.",
           "(* the keys of the `norms` dict of nrmse *)",
           "Inductive norm_name := %s." % " | ".join("Nm_" + k for k in tr.norm_keys), "",
           "Section Gen.",
           "Context {F : Type} `{Num F}.", ""]
    for name, text, doc in tr.defs:
        if name == "check_arrays":
            text = text.replace("Definition check_arrays ", "Definition check_arrays {A B : Type} (shape_a : A -> list nat) (shape_b : B -> list nat) ", 1)
        out.append("(* %s *)" % doc)
        out.append(text)
        out.append("")
    out += ["End Gen.", "End GenMetrics.", ""]
    return "\n".join(out)


def pregen():
    """(Re)generate coq/gen/Gen_metrics.v from the tree under test.  Returns None, or an error text (the tie is broken); on
    failure a stub that does not compile is written, so that no stale model of an older source survives."""
    import traceback
    from vlib import core
    gdir = os.path.join(core.COQ, "gen")
    os.makedirs(gdir, exist_ok=True)
    path = os.path.join(gdir, "Gen_metrics.v")
    err = None
    try:
        text = emit(core.REPO)
    except Reject as ex:
        text, err = None, "translation rejected: %s" % ex
    except Exception:
        text, err = None, "translator exception: " + traceback.format_exc()[-1500:]
    if text is None:
        text = "(* GENERATED: translation of %s FAILED -- %s *)\nDefinition translation_failed : True := 0.\n" % (
            SOURCE, err.replace("*)", "* )").replace("(*", "( *"))
    old = open(path).read() if os.path.exists(path) else None
    if old != text:
        with open(path, "w") as f:
            f.write(text)
    return ("unit metrics: %s" % err) if err else None


if __name__ == "__main__":
    import sys
    print(emit(sys.argv[1] if len(sys.argv) > 1 else "/repo"))
